#!/bin/sh
# Build the analyzer offline from files on disk only.
set -e
cd "$(dirname "$0")"
export GOFLAGS=-mod=mod GOPROXY=off GOSUMDB=off GOTOOLCHAIN=local GOWORK=off
mkdir -p bin evidence
if [ -d cmd/goparcheck ]; then
  go build -o bin/goparcheck ./cmd/goparcheck
fi
