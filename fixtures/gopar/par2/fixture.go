// Package par2 (fixture): tiny positive and negative examples for rules whose
// instance count on the real tree is zero. It is loaded and analysed on every
// run of a check that uses such a rule; a rule that does not fire on its
// positive example, or fires on its negative one, fails the check.
package par2

import (
	"bytes"
	"fmt"
	"os"
	"path/filepath"
	"reflect"
	"strings"
)

type fileIO interface {
	ReadFile(path string) ([]byte, error)
	FindWithPrefixAndSuffix(prefix, suffix string) ([]string, error)
	WriteFile(path string, data []byte) error
}

type defaultFileIO struct{}

func (defaultFileIO) ReadFile(path string) ([]byte, error) { return nil, nil }

// GLOB positive: run-time pattern, and a lister built on filepath.Glob.
func (defaultFileIO) FindWithPrefixAndSuffix(prefix, suffix string) ([]string, error) {
	return filepath.Glob(prefix + "*" + suffix)
}

func (defaultFileIO) WriteFile(path string, data []byte) error { return nil }

// GLOB negative: constant pattern.
func globConstant() ([]string, error) { return filepath.Glob("*.par2") }

// BUFNEXT positive / negative (reachable from verify).
func nextUnchecked(buf *bytes.Buffer) byte {
	bs := buf.Next(8)
	return bs[4]
}

func nextChecked(buf *bytes.Buffer) byte {
	bs := buf.Next(8)
	if len(bs) != 8 {
		return 0
	}
	return bs[4]
}

// EFF positive: a mutating primitive outside a fileIO.WriteFile implementation, reachable from verify.
func removeStray(p string) error { return os.Remove(p) }

// GLOBALS positive / negative.
var callCount int
var table [4]int

func init() {
	for i := 0; i < len(table); i++ {
		table[i] = i
	}
}

func bump() int {
	callCount++
	return table[callCount&3]
}

// DEEPEQ positive / negative.
type pk struct{ a int }

func deepMismatch(p *pk, q pk) bool { return reflect.DeepEqual(p, q) }
func deepSame(p, q pk) bool         { return reflect.DeepEqual(p, q) }

func verify(fileIO fileIO, parPath string) (int, error) {
	data, err := fileIO.ReadFile(parPath)
	if err != nil {
		return 0, err
	}
	buf := bytes.NewBuffer(data)
	n := int(nextUnchecked(buf)) + int(nextChecked(buf)) + bump()
	if deepMismatch(&pk{n}, pk{n}) || deepSame(pk{1}, pk{n}) {
		n++
	}
	if _, err := globConstant(); err != nil {
		return 0, err
	}
	return n, removeStray(parPath + ".tmp")
}

// Verify is the exported entry point.
func Verify(parPath string) (int, error) { return verify(defaultFileIO{}, parPath) }

// --- ERRKEEP: a deferred clean-up must not overwrite an earlier error
func writeOverwriting(path string, data []byte) (err error) {
	f, err := os.OpenFile(path, os.O_WRONLY|os.O_CREATE|os.O_TRUNC, 0600)
	if err != nil {
		return err
	}
	defer func() { err = f.Close() }()
	_, err = f.Write(data)
	return err
}

func writeKeeping(path string, data []byte) (err error) {
	f, err := os.OpenFile(path, os.O_WRONLY|os.O_CREATE|os.O_TRUNC, 0600)
	if err != nil {
		return err
	}
	defer func() {
		if cerr := f.Close(); err == nil {
			err = cerr
		}
	}()
	_, err = f.Write(data)
	return err
}

// --- EXTCUT / FMTCONST: extension cut as a character set; a path used as a format
func baseByCutset(indexPath string) string { return strings.TrimRight(indexPath, filepath.Ext(indexPath)) }
func baseBySuffix(indexPath string) string { return strings.TrimSuffix(indexPath, filepath.Ext(indexPath)) }
func nameByFormat(base string, i int) string { return fmt.Sprintf(base+".vol%02d.par2", i) }
func nameByArg(base string, i int) string    { return fmt.Sprintf("%s.vol%02d.par2", base, i) }
