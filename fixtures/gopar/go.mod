module github.com/akalin/gopar

go 1.15
