// Package rsec16 (fixture placeholder).
package rsec16
