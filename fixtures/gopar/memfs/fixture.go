// Package memfs (fixture placeholder).
package memfs
