// Package gf2 (fixture placeholder).
package gf2
