// Package gf2p16 (fixture): placeholder so that the module has the package the loader expects.
package gf2p16

// T is an element of GF(2^16).
type T uint16

// hintUnchecked indexes from the end without knowing the slice is non-empty (IDXLEN positive).
func hintUnchecked(in, out []byte) {
	_ = out[len(in)-1]
	for i := range in {
		out[i] = in[i]
	}
}

// hintChecked does the same under a length test (IDXLEN negative).
func hintChecked(in, out []byte) {
	if len(in) > 0 {
		_ = out[len(in)-1]
	}
	for i := range in {
		out[i] = in[i]
	}
}
