// Package gf2p16 (fixture): placeholder so that the module has the package the loader expects.
package gf2p16

// T is an element of GF(2^16).
type T uint16
