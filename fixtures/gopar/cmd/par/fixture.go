// Package main (fixture placeholder).
package main
func main() {}

// rateUnchecked divides by a count that can be zero (DIVZERO positive).
func rateUnchecked(hits, misses int) int {
	return 100 * hits / (hits + misses)
}

// rateChecked divides only where the count is known non-zero (DIVZERO negative).
func rateChecked(hits, misses int) int {
	total := hits + misses
	if total != 0 {
		return 100 * hits / total
	}
	return 0
}
