// Package main (fixture placeholder).
package main
func main() {}
