// Package par1 (fixture placeholder).
package par1
