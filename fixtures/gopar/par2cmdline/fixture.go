// Package par2cmdline (fixture placeholder).
package par2cmdline
