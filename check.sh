#!/bin/sh
# usage: ./check.sh <property id> [quick|thorough]
# Rebuilds the analyzer from /verif's sources (offline, incremental) and decides the
# property from /repo's current working tree. exit 0 / 1 (+VIOLATION line) / 2.
cd "$(dirname "$0")" || exit 2
export GOFLAGS=-mod=mod GOPROXY=off GOSUMDB=off GOTOOLCHAIN=local GOWORK=off
mkdir -p bin evidence
go build -o bin/goparcheck ./cmd/goparcheck || { echo "cannot build goparcheck" >&2; exit 2; }
TIER=${2:-${VERIF_TIER:-quick}}
exec bin/goparcheck -property "$1" -tier "$TIER" -repo "${VERIF_REPO:-/repo}"
