#!/bin/bash
# usage: tools/confirm_seed.sh <agent _out/mutantX dir> <seed id, e.g. C02-a>
# Confirms (build, vet, whole suite green with mutant; demo fails with / passes without),
# then stores patch, demo and meta under /verif/seeded/<id>/.
set -u
V=$(cd "$(dirname "$0")/.." && pwd)
SRC=$1; ID=$2
export GOFLAGS=-mod=mod GOPROXY=off GOSUMDB=off GOTOOLCHAIN=local
S=$(mktemp -d /tmp/gpseed.XXXXXX)
trap 'rm -rf "$S"' EXIT
git clone -q --shared /repo $S/clean
git clone -q --shared /repo $S/mut
(cd $S/mut && git apply --3way --whitespace=nowarn $SRC/patch.diff >/dev/null 2>&1 && git reset -q) || { echo "$ID: APPLY-FAIL"; exit 1; }
# keep the patch as it applies to the current HEAD (3-way merged if the tree moved on)
(cd $S/mut && git diff > $S/rebased.diff)
# demo destination: lines "<file> -> <dest>"
declare -a DEMOS
while read -r a arrow b; do
  b=${b%% *}
  if [ "$arrow" = "->" ] && [ -f "$SRC/demo/$a" ]; then DEMOS+=("$a:$b"); fi
done < <(sed -e 's/^Copy:[[:space:]]*//' -e 's/^[[:space:]]*//' $SRC/demo/DEST.txt)
if [ ${#DEMOS[@]} -eq 0 ]; then
  # fallback: *_test.go files; guess from meta demo_cmd ./pkg
  pkg=$(python3 -c "import json,re,sys;m=json.load(open('$SRC/meta.json'));r=re.search(r'\./([\w/]+)',m.get('demo_cmd',''));print(r.group(1) if r else '')")
  for f in $SRC/demo/*.go; do DEMOS+=("$(basename $f):$pkg/$(basename $f)"); done
fi
DEMOCMD=$(python3 -c "import json;print(json.load(open('$SRC/meta.json')).get('demo_cmd',''))")
DEMOCMD=${DEMOCMD#*; }
DEMOCMD=$(echo "$DEMOCMD" | sed -E "s/^(cp [^&]*&& *)+//")
echo "$ID demo files: ${DEMOS[*]} cmd: $DEMOCMD"
(cd $S/mut && go build ./... && go vet ./... >/dev/null 2>&1) || { echo "$ID: BUILD/VET-FAIL"; exit 1; }
(cd $S/mut && go test -vet=off -count=1 ./... >$S/suite.log 2>&1) || { echo "$ID: SUITE-FAILS-WITH-MUTANT"; tail -5 $S/suite.log; exit 1; }
for d in "${DEMOS[@]}"; do
  src=${d%%:*}; dst=${d#*:}
  mkdir -p $S/mut/$(dirname $dst) $S/clean/$(dirname $dst)
  cp $SRC/demo/$src $S/mut/$dst; cp $SRC/demo/$src $S/clean/$dst
done
(cd $S/mut && eval "$DEMOCMD" >$S/demo_mut.log 2>&1); rcm=$?
(cd $S/clean && eval "$DEMOCMD" >$S/demo_clean.log 2>&1); rcc=$?
if [ $rcm -eq 0 ]; then echo "$ID: DEMO-DOES-NOT-FAIL-WITH-MUTANT"; exit 1; fi
if [ $rcc -ne 0 ]; then echo "$ID: DEMO-FAILS-WITHOUT-MUTANT"; tail -5 $S/demo_clean.log; exit 1; fi
D=$V/seeded/$ID
mkdir -p $D/demo
cp $S/rebased.diff $D/patch.diff
cp -r $SRC/demo/. $D/demo/
python3 - "$SRC/meta.json" "$D/meta.json" "$DEMOCMD" "$(git -C /repo rev-parse --short HEAD)" <<'PY'
import json,sys
m=json.load(open(sys.argv[1]))
m['confirmed']={'repo_head':sys.argv[4],
 'ran':['git apply patch.diff on a scratch export of /repo HEAD','go build ./... && go vet ./...','go test -vet=off -count=1 ./... (all packages ok with the mutant)',
        'demo with mutant: '+sys.argv[3]+' -> FAIL','demo without mutant: '+sys.argv[3]+' -> PASS']}
json.dump(m,open(sys.argv[2],'w'),indent=1)
PY
echo "$ID: CONFIRMED -> $D"
