#!/usr/bin/env python3
"""Regenerates /verif/MANIFEST.json from the analyzer's property table (bin/goparcheck -describe)
and tools/claims.json (technique, design_ref, not-applicable reasons)."""
import json,subprocess,os
V=os.path.dirname(os.path.dirname(os.path.abspath(__file__)))
desc=json.loads(subprocess.check_output([V+'/bin/goparcheck','-describe']))
claims=json.load(open(V+'/tools/claims.json'))
props=[json.loads(l) for l in open(V+'/properties.jsonl')]
checks=[];na=[]
byid={d['id']:d for d in desc}
for p in props:
    pid=p['id']
    c=claims.get(pid,{})
    if pid in byid and c.get('claim',True):
        d=byid[pid]
        checks.append({
          "property_id":pid,
          "quick_cmd":"./check.sh %s quick"%pid,
          "thorough_cmd":"./check.sh %s thorough"%pid,
          "evidence_file":"/verif/evidence/%s.json"%pid,
          "replay_cmd_template":"cat {path}",
          "engine":"goparcheck",
          "level_claimed":{"category":"other",
             "text":d['explanation']+" NOT decided: "+"; ".join(d['not_decided'])+".",
             "design_ref":"DESIGN.md section 3 ("+pid+") and section 2 (rule catalogue)"},
          "level_note":"Static analysis of /repo's current source on every run (go/packages + go/ssa + VTA call graph of x/tools v0.29.0; assembler listing for the kernels). Trusted: go/types, go/ssa, the call graph, the std frontier classification and the spec tables in the checker. Obligations are necessary structural conditions; undecided obligations and missing anchors fail the check.",
          "technique":c.get('technique','static analysis: custom SSA/CFG/call-graph rules')})
    else:
        na.append({"property_id":pid,"reason":c.get('na_reason','check not built yet (build in progress; see DESIGN.md)')})
m={"version":1,
 "setup_cmd":"./setup.sh",
 "hooks":{"guard":"verif","enable":"no hooks: static analysis reads the unmodified source; nothing in /repo is guarded by the tag","baseline_off_cmd":"cd /repo && go test -mod=mod -vet=off -count=1 ./...","source_commits":[],"add_only":True},
 "engines":[{"name":"goparcheck","path":"/verif/cmd/goparcheck","serves_properties":[c['property_id'] for c in checks],"kind_free_text":"repository-specific static analyzer (Go; go/packages, go/ssa, go/callgraph/vta): dataflow, dominance, call-graph and abstract-interpretation rules; abstract interpretation of the assembler listing"}],
 "checks":checks,
 "notes":"Static analysis only; see DESIGN.md. Every claim is level 'other': enumerated structural obligations that are necessary for the property. known_findings.json lists repaired defects (fixed:) and any recorded findings.",
 "not_applicable":na}
json.dump(m,open(V+'/MANIFEST.json','w'),indent=1)
print("claimed:",[c['property_id'] for c in checks]); print("n/a:",[x['property_id'] for x in na])
