#!/bin/bash
# tools/benign_intake.sh <name> : for /tmp/ben/<name>/_out/refactor?.patch - confirm it builds and keeps the suite green,
# run every property's quick check on it, print what fires, and store it as benign/<name>-<x>.patch.
V=$(cd "$(dirname "$0")/.." && pwd); cd $V
N=$1; O=${2:-$1}
export GOFLAGS=-mod=mod GOPROXY=off GOSUMDB=off GOTOOLCHAIN=local
one() {
  f=$1; N=$2; O=$3
  x=$(basename $f .patch | sed 's/refactor//' | tr 'A-Z' 'a-z')
  S=$(mktemp -d /tmp/gpbi.XXXXXX); git clone -q --shared /repo $S/repo
  if ! (cd $S/repo && git apply --3way --whitespace=nowarn $f >/dev/null 2>&1); then echo "$N-$x APPLY-FAIL"; rm -rf $S; return; fi
  if ! (cd $S/repo && go build ./... >/dev/null 2>&1); then echo "$N-$x BUILD-FAIL"; rm -rf $S; return; fi
  if ! (cd $S/repo && go test -vet=off -count=1 ./... >/dev/null 2>&1); then echo "$N-$x TESTS-FAIL"; rm -rf $S; return; fi
  fired=""; detail=""
  for p in $(${GPC:-$V/bin/goparcheck} -list); do
    out=$(${GPC:-$V/bin/goparcheck} -property $p -repo $S/repo -verif $V -evidence-dir $S/ev 2>&1); rc=$?
    if [ $rc -ne 0 ]; then fired="$fired $p"; detail="$detail$(echo "$out" | grep -E "^(violated|UNDEC)" | head -2 | cut -c1-300 | sed "s/^/    [$p] /")
"; fi
  done
  note=$(head -c 300 ${f%.patch}.txt 2>/dev/null | tr '\n' ' ')
  { echo "# breaks: BENIGN"; echo "# note: (sub-agent refactor) $note"; (cd $S/repo && git diff HEAD); } > $V/benign/$O-$x.patch
  echo "$O-$x fired=[${fired# }]"; [ -n "$fired" ] && printf "%s" "$detail"
  rm -rf $S
}
export -f one; export V GPC
ls /tmp/ben/$N/_out/refactor?.patch | xargs -P 5 -I{} bash -c 'one {} '$N' '$O | cat
