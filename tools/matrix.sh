#!/bin/bash
# usage: tools/matrix.sh [dir ...]   (default: seeded/* and mutants/*.patch)
# For each patch: which properties' quick checks detect it. One line per patch.
set -u
V=$(cd "$(dirname "$0")/.." && pwd)
cd $V
PROPS=${ONLYPROPS:-$(${GPC:-$V/bin/goparcheck} -list | tr ' ' '\n' | grep -v T01 | tr '\n' ' ')}
one() {
  patch=$1; name=$2; target=$3
  S=$(mktemp -d /tmp/gpmx.XXXXXX)
  mkdir -p $S/repo $S/ev
  rmdir $S/repo; git clone -q --shared /repo $S/repo
  if ! (cd $S/repo && git apply --3way --whitespace=nowarn "$patch" >/dev/null 2>&1); then echo "$name target=$target APPLY-FAIL"; rm -rf $S; return; fi
  det=""; err=""
  for p in $PROPS; do
    ${GPC:-$V/bin/goparcheck} -property $p -tier ${TIER:-quick} -repo $S/repo -verif $V -evidence-dir $S/ev >/dev/null 2>&1; rc=$?
    [ $rc -eq 1 ] && det="$det $p"
    [ $rc -ge 2 ] && err="$err $p"
  done
  hit=no
  for t in $(echo $target | tr ',' ' '); do case " $det " in *" $t "*) hit=yes;; esac; done
  echo "$name target=$target hit=$hit detected_by=[${det# }] errors=[${err# }]"
  rm -rf $S
}
export -f one; export V PROPS GPC
list=()
if [ $# -eq 0 ]; then
  for d in seeded/*/; do id=$(basename $d); list+=("$V/seeded/$id/patch.diff|$id|${id%%-*}"); done
  for m in mutants/*.patch; do t=$(grep -m1 '^# breaks:' $m | sed 's/# breaks: //'); list+=("$V/$m|$(basename $m .patch)|$t"); done
else
  for a in "$@"; do
    if [ -d "$a" ]; then id=$(basename $a); list+=("$(readlink -f $a)/patch.diff|$id|${id%%-*}"); else t=$(grep -m1 '^# breaks:' $a | sed 's/# breaks: //'); list+=("$(readlink -f $a)|$(basename $a .patch)|$t"); fi
  done
fi
printf '%s\n' "${list[@]}" | xargs -P 12 -I{} bash -c 'IFS="|" read -r a b c <<< "{}"; one "$a" "$b" "$c"' | sort
