#!/usr/bin/env python3
"""tools/mkbenign_round.py <dir> : create scratch worktrees <dir>/<area> of /repo and task files <dir>/<area>.TASK.md asking a
sub-agent for ten behaviour-preserving refactors in that area (nothing from /verif is revealed except one-line
descriptions of refactors already in /verif/benign, so that new ones differ). Intake: tools/benign_intake.sh <area> <prefix>
(edit the /tmp/ben path inside it if <dir> differs)."""
import sys,os,glob,re,subprocess
D=sys.argv[1]
os.makedirs(D,exist_ok=True)
AREAS={
 'par2dec':"par2/decoder.go: (*Decoder).Repair as a whole - the reconstruction call, the parity double-check block, the wasOK / redistribution loop, the write loop and its returns -, newCoderAndShards, ShardCounts, fileIntegrityInfo.ok / allShardsOK, fillFileIntegrityInfos; par2/repair.go and par2/verify.go",
 'par1':"par1/file_entry.go (readFileEntry, writeFileEntry, encodeUTF16LEString, decodeUTF16LEString, fileEntryHeader), par1/volume.go (readVolume, writeVolume), par1/header.go, par1/decoder.go: Repair and VerifyAllData, LoadFileData's per-file closure",
}
T='''# Task: behaviour-preserving refactors of gopar

Your working directory is `@D@/@NAME@`, a scratch git worktree of the Go project akalin/gopar
(PAR1 and PAR2 parity-archive formats, own GF(2^16) arithmetic, SIMD kernels, Reed-Solomon coder and
the `par` CLI). Work ONLY inside `@D@/@NAME@`. Do not read, list or modify `/verif` or `/repo`
(other than through this worktree), and do not commit anything. Do NOT use `git stash` (the stash is
shared between worktrees): switch between the clean and the changed tree with `git apply` /
`git apply -R` of your saved patch, or `git checkout -- .`.

Every shell call needs: `export GOFLAGS=-mod=mod GOPROXY=off GOSUMDB=off GOTOOLCHAIN=local`
(there is no network). Build: `go build ./...`. Test-suite: `go test -vet=off -count=1 ./...`

## What to produce

TEN independent, realistic, **behaviour-preserving** edits ("refactorA" ... "refactorJ") to the NON-test
source in your focus area: @FOCUS@

Each edit is the kind of change a maintainer makes in ordinary work and that must NOT change what the
program does for ANY input, schedule or I/O fault. Go for structural refactors (10-60 changed lines each)
as well as small ones:
- extract one or two methods/functions out of a long function (Repair, LoadParityData, LoadFileData,
  readFile, Write, main, the matrix/coder functions), passing what they need as parameters and returning
  results - including out of loop bodies and out of function literals (turn an immediately-invoked
  closure into a named function or inline it); inline a small helper into its only caller;
- merge two adjacent loops over the same range when their bodies are independent, or split one loop in two;
  change a loop form (index loop <-> range loop, 0-based <-> 1-based counting, `for cond` <-> `for { if !cond { break } }`);
- introduce a small unexported helper type or method; move a computation from a caller into the callee or back;
- switch between named and unnamed results; replace `var x T` + assignments by a composite literal; positional
  struct literals <-> keyed ones; named constants for literals;
- change how a value is threaded (a field read repeatedly vs. a local copy taken once when nothing can change
  it in between; a slice of structs iterated by index vs. by value when nothing is mutated);
- reorder independent statements or independent checks; invert an `if` and swap its branches; if/else-if chain
  <-> switch; early return instead of nesting;
- restructure error handling without changing which error is returned where;
- replace a call by an exactly equivalent standard-library call; replace arithmetic by an equivalent form that
  cannot overflow differently; preallocate; hoist a real invariant out of a loop;
- add a redundant defensive check that can never fire, with a comment.
The following edits were already made in earlier rounds - do not repeat them, and prefer functions that
have not been touched yet:
@DONE@
Vary the kinds: no two edits of the same kind, and touch different functions. Prefer edits to the
functions that matter most (parsing, verification, repair, encoding, the coder, the kernels' Go
callers, the CLI's exit paths) rather than to trivia.

Be STRICT about equivalence: same outputs, same files written with the same bytes under the same names,
same errors (identity and type) under the same conditions, same exit codes, same panics-or-not, same
concurrency structure. If you are not sure an edit is equivalent, do not use it.

Each edit must compile (`go build ./...`), keep `go vet ./...` clean and keep the whole test-suite green.

## Deliverables (write them under `@D@/@NAME@/_out/`)

For X in A..J: `_out/refactorX.patch` - `git diff` of that edit alone against the clean HEAD of this
worktree (must apply with `git apply` to a clean checkout), and `_out/refactorX.txt` - two or three
sentences: what was changed and why it is equivalent.

Leave the worktree clean (only `_out/` untracked) when you finish, and report a one-line summary per edit.
'''
for n,focus in AREAS.items():
    done=[]
    for f in sorted(glob.glob('/verif/benign/%s*-?.patch'%n)):
        l=[x for x in open(f).read().split('\n') if x.startswith('# note:')]
        if l: done.append('- '+re.sub(r'\s+',' ',l[0][len('# note: (sub-agent refactor) '):])[:170])
    open('%s/%s.TASK.md'%(D,n),'w').write(T.replace('@D@',D).replace('@NAME@',n).replace('@FOCUS@',focus).replace('@DONE@','\n'.join(done)))
    if not os.path.isdir('%s/%s'%(D,n)):
        subprocess.check_call(['git','-C','/repo','worktree','add','-q','--detach','%s/%s'%(D,n),'HEAD'])
print('ok')
