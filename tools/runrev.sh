#!/bin/bash
# usage: tools/runrev.sh <git rev of /repo> [property ...]  - run checks against an export of that revision
set -u
V=$(cd "$(dirname "$0")/.." && pwd)
REV=$1; shift
PROPS="$@"
[ -z "$PROPS" ] && PROPS=$($V/bin/goparcheck -list)
S=$(mktemp -d /tmp/gprev.XXXXXX)
trap 'rm -rf "$S"' EXIT
mkdir -p $S/repo $S/ev
git -C /repo archive $REV | tar -x -C $S/repo
for p in $PROPS; do
  out=$($V/bin/goparcheck -property $p -tier ${TIER:-quick} -repo $S/repo -verif $V -evidence-dir $S/ev 2>&1); rc=$?
  echo "$p: rc=$rc"; echo "$out" | grep -E "^(violated|UNDECIDED|KNOWN)" | sed 's/^/      /' | cut -c1-300
done
