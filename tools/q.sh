#!/bin/bash
# tools/q.sh <bin> <tier> [props...] : run checks on /repo HEAD quietly; print only failures
V=$(cd "$(dirname "$0")/.." && pwd); B=$1; T=$2; shift 2
[ $# -eq 0 ] && set -- $($B -list)
for p in "$@"; do out=$($B -property $p -tier $T -evidence-dir /tmp/evq 2>&1); rc=$?; if [ $rc -ne 0 ]; then echo "$p FAIL"; echo "$out" | grep -E "^(violated|UNDEC)" | cut -c1-300; fi; done; echo "q done"
