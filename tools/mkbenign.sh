#!/bin/bash
# tools/mkbenign.sh <name> : like mkmut.py but writes /verif/benign/<name>.patch (behaviour-preserving edits)
exec "$(dirname "$0")/mkmut.py" "$@"
