#!/bin/bash
# tools/probe.sh <name> <file> <old> <new> <props...> : one-line variant of /repo in a scratch clone:
# does the suite stay green, and which of the given properties' quick checks fire? Patch kept as /tmp/probe/<name>.patch
V=$(cd "$(dirname "$0")/.." && pwd); cd $V
export GOFLAGS=-mod=mod GOPROXY=off GOSUMDB=off GOTOOLCHAIN=local
name=$1; file=$2; old=$3; new=$4; shift 4
mkdir -p /tmp/probe
S=$(mktemp -d /tmp/prb.XXXXXX); git clone -q --shared /repo $S/repo
(cd $S/repo && python3 -c "
import sys
p=sys.argv[1]; s=open(p).read()
a,b=sys.argv[2],sys.argv[3]
if a not in s: sys.exit('OLD TEXT NOT FOUND')
s=s.replace(a,b,1); open(p,'w').write(s)" "$file" "$old" "$new") || { rm -rf $S; exit 1; }
(cd $S/repo && go build ./... 2>&1 | head -3) | grep -q . && { echo "$name: BUILD-FAIL"; (cd $S/repo && go build ./... 2>&1 | head -3); rm -rf $S; exit 1; }
(cd $S/repo && git diff > /tmp/probe/$name.patch)
fails=$(cd $S/repo && go test -vet=off -count=1 ./... 2>&1 | grep -c "^--- FAIL\|^FAIL\|^panic")
res=""
for p in "$@"; do
  out=$(${GPC2:-$V/bin/gpc2} -property $p -repo $S/repo -verif $V -evidence-dir $S/ev 2>&1); rc=$?
  if [ $rc -ne 0 ]; then res="$res $p:FIRED($(echo "$out" | grep -m1 -E '^(violated|UNDEC)' | awk '{print $2}'))"; else res="$res $p:silent"; fi
done
echo "$name: suite_fail_lines=$fails $res"
rm -rf $S
