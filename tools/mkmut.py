#!/usr/bin/env python3
"""mkmut.py <name> <props,comma> <file> <<< 'OLD\n====\nNEW'  (several edits: separate with a line '####' and start each with 'file: path')
Creates /verif/mutants/<name>.patch: a single-purpose variant of /repo HEAD, as a unified diff.
The first lines of the patch carry '# breaks: C02,C14' and '# note: ...'."""
import sys,subprocess,tempfile,os,shutil
name,props=sys.argv[1],sys.argv[2]
note=sys.argv[3] if len(sys.argv)>3 else ''
spec=sys.stdin.read()
edits=[]
for chunk in spec.split('\n####\n'):
    lines=chunk.split('\n')
    assert lines[0].startswith('file: '),lines[0]
    f=lines[0][6:].strip()
    body='\n'.join(lines[1:])
    old,new=body.split('\n====\n')
    edits.append((f,old,new.rstrip('\n') if new.endswith('\n\n') else new))
d=tempfile.mkdtemp(prefix='mkmut.')
try:
    subprocess.check_call('git -C /repo archive HEAD | tar -x -C %s'%d,shell=True)
    subprocess.check_call(['git','init','-q'],cwd=d)
    subprocess.check_call('git add -A && git -c user.email=a@b -c user.name=x commit -qm base',shell=True,cwd=d)
    for f,old,new in edits:
        p=os.path.join(d,f); s=open(p).read()
        old=old.strip('\n'); new=new.strip('\n')
        if s.count(old)!=1:
            print('ERROR: old text occurs %d times in %s'%(s.count(old),f)); sys.exit(1)
        open(p,'w').write(s.replace(old,new))
    diff=subprocess.check_output(['git','diff'],cwd=d).decode()
    out=('/verif/benign/%s.patch' if props=='BENIGN' else '/verif/mutants/%s.patch')%name
    open(out,'w').write('# breaks: %s\n# note: %s\n'%(props,note)+diff)
    print('wrote',out)
finally:
    shutil.rmtree(d)
