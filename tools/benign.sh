#!/bin/bash
# Runs every property's quick check against each behaviour-preserving edit in /verif/benign: nothing may fire.
V=$(cd "$(dirname "$0")/.." && pwd); cd $V
for m in benign/*.patch; do
  S=$(mktemp -d /tmp/gpbn.XXXXXX); mkdir -p $S/repo $S/ev
  rmdir $S/repo; git clone -q --shared /repo $S/repo
  (cd $S/repo && git apply --3way --whitespace=nowarn $V/$m >/dev/null 2>&1) || { echo "$m APPLY-FAIL"; rm -rf $S; continue; }
  (cd $S/repo && GOFLAGS=-mod=mod go build ./... ) || { echo "$m BUILD-FAIL"; rm -rf $S; continue; }
  fired=""
  for p in $($V/bin/goparcheck -list); do
    out=$($V/bin/goparcheck -property $p -repo $S/repo -verif $V -evidence-dir $S/ev 2>&1); rc=$?
    if [ $rc -ne 0 ]; then fired="$fired $p"; echo "$out" | grep -E "^(violated|UNDEC)" | head -3 | cut -c1-260 | sed "s/^/    [$p] /"; fi
  done
  echo "$(basename $m .patch): fired=[${fired# }]"
  rm -rf $S
done
