#!/bin/bash
# Runs every property's quick check against each behaviour-preserving edit in /verif/benign: nothing may fire.
# usage: tools/benign.sh [patch ...]   (default: benign/*.patch)
V=$(cd "$(dirname "$0")/.." && pwd); cd $V
export GOFLAGS=-mod=mod GOPROXY=off GOSUMDB=off GOTOOLCHAIN=local
one() {
  m=$1
  S=$(mktemp -d /tmp/gpbn.XXXXXX); mkdir -p $S/ev
  git clone -q --shared /repo $S/repo
  (cd $S/repo && git apply --3way --whitespace=nowarn $m >/dev/null 2>&1) || { echo "$(basename $m .patch) APPLY-FAIL"; rm -rf $S; return; }
  (cd $S/repo && go build ./... >/dev/null 2>&1) || { echo "$(basename $m .patch) BUILD-FAIL"; rm -rf $S; return; }
  fired=""; detail=""
  for p in ${ONLYPROPS:-$(${GPC:-$V/bin/goparcheck} -list)}; do
    out=$(${GPC:-$V/bin/goparcheck} -property $p -repo $S/repo -verif $V -evidence-dir $S/ev 2>&1); rc=$?
    if [ $rc -ne 0 ]; then fired="$fired $p"; detail="$detail$(echo "$out" | grep -E "^(violated|UNDEC)" | head -3 | cut -c1-260 | sed "s/^/    [$p] /")
"; fi
  done
  echo "$(basename $m .patch): fired=[${fired# }]"; [ -n "$fired" ] && printf "%s" "$detail"
  rm -rf $S
}
export -f one; export V GPC ONLYPROPS
if [ $# -eq 0 ]; then set -- benign/*.patch; fi
for a in "$@"; do readlink -f $a; done | xargs -P 10 -I{} bash -c 'one {}' | cat
