#!/bin/bash
# tools/intake2.sh <Cxx> : confirm round-2 mutants A,B,C of /tmp/mut9/<Cxx>/_out as seeded/<Cxx>-d,e,f and run the matrix on them
V=$(cd "$(dirname "$0")/.." && pwd); cd $V
P=$1
i=0
for x in A B C; do
  l=$(echo yzA | cut -c$((i+1)))
  i=$((i+1))
  [ -d /tmp/mut9/$P/_out/mutant$x ] || { echo "$P-$l: no deliverable"; continue; }
  tools/confirm_seed.sh /tmp/mut9/$P/_out/mutant$x $P-$l 2>&1 | tail -1
done
dirs=""
for l in y z A; do [ -d seeded/$P-$l ] && dirs="$dirs seeded/$P-$l"; done
[ -n "$dirs" ] && tools/matrix.sh $dirs
