#!/bin/bash
# tools/tryb.sh <bin> <patch> <props...> : run props of binary <bin> on /repo + patch (scratch clone)
V=$(cd "$(dirname "$0")/.." && pwd); B=$1; P=$(readlink -f $2); shift 2
S=$(mktemp -d /tmp/gptry.XXXXXX); trap 'rm -rf $S' EXIT
git clone -q --shared /repo $S/repo; (cd $S/repo && git apply --3way --whitespace=nowarn $P >/dev/null 2>&1) || { echo APPLY-FAIL; exit 3; }
for p in "$@"; do out=$($B -property $p -repo $S/repo -verif $V -evidence-dir $S/ev 2>&1); rc=$?; if [ $rc -eq 0 ]; then echo "$p: pass"; else echo "$p: FIRED"; echo "$out" | grep -E "^(violated|UNDEC)" | cut -c1-330 | sed 's/^/    /'; fi; done
