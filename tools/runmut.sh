#!/bin/bash
# usage: tools/runmut.sh <patch.diff> [property ...]
# Applies the patch to a scratch copy of /repo (outside /repo and /verif), runs the
# given properties' checks (default: all registered) against the copy, prints one
# line per property, removes the copy. Evidence goes to a scratch dir, never to /verif/evidence.
set -u
V=$(cd "$(dirname "$0")/.." && pwd)
PATCH=$(readlink -f "$1"); shift
PROPS="$@"
[ -z "$PROPS" ] && PROPS=$($V/bin/goparcheck -list)
S=$(mktemp -d /tmp/gpmut.XXXXXX)
trap 'rm -rf "$S"' EXIT
mkdir -p $S/repo $S/ev
rmdir $S/repo; git clone -q --shared /repo $S/repo
if ! (cd $S/repo && git apply --3way --whitespace=nowarn "$PATCH" 2>$S/apply.err); then
  echo "PATCH-DOES-NOT-APPLY $PATCH"; cat $S/apply.err; exit 3
fi
TIER=${TIER:-quick}
for p in $PROPS; do
  out=$($V/bin/goparcheck -property $p -tier $TIER -repo $S/repo -verif $V -evidence-dir $S/ev 2>&1); rc=$?
  if [ $rc -eq 0 ]; then echo "$p: pass";
  elif [ $rc -eq 1 ]; then echo "$p: DETECTED"; echo "$out" | grep -E "^(violated|UNDECIDED)" | sed 's/^/      /' | cut -c1-400;
  else echo "$p: ERROR rc=$rc"; echo "$out" | tail -3; fi
done
