#!/usr/bin/env python3
"""Builds seeded/INDEX.md from seeded/*/meta.json and a matrix output file (tools/matrix.sh > file).
For each seed also records which rule of the target property's check reports it (first violated obligation)."""
import json,os,re,subprocess,sys,tempfile,shutil
V=os.path.dirname(os.path.dirname(os.path.abspath(__file__)))
mx={}
for l in open(sys.argv[1]):
    m=re.match(r'(\S+) target=(\S+) hit=(\w+) detected_by=\[([^\]]*)\]',l)
    if m: mx[m.group(1)]=(m.group(2),m.group(3),m.group(4).split())
rows=[]
for sid in sorted(os.listdir(V+'/seeded')):
    mp=V+'/seeded/'+sid+'/meta.json'
    if not os.path.exists(mp): continue
    meta=json.load(open(mp))
    tgt,hit,det=mx.get(sid,(sid.split('-')[0],'?',[]))
    rule=''
    if hit=='yes':
        out=subprocess.run([V+'/tools/runmut.sh',V+'/seeded/'+sid+'/patch.diff',tgt],capture_output=True,text=True).stdout
        m=re.search(r'(?:violated|UNDECIDED[^:]*): (\S+) (\S+)',out)
        if m: rule=m.group(2).split(':')[0]+(':'+m.group(2).split(':')[1] if m.group(1) in('EFF','WIRE','GATE','CLI','DETERM','ASM','SANIT','ACCUM') else '')
    summ=re.sub(r'\s+',' ',meta.get('summary','')).strip()
    if len(summ)>170: summ=summ[:167]+'...'
    files=', '.join(meta.get('files_changed',[]))
    rows.append((sid,files,summ,hit,rule,' '.join(d for d in det if d!=tgt)))
with open(V+'/seeded/INDEX.md','w') as f:
    f.write('# Seeded changes (written by independent sub-agents, re-confirmed by tools/confirm_seed.sh)\n\n')
    f.write('Each directory holds `patch.diff`, `demo/` and `meta.json`. "caught" = the quick check of the property the change was written against reports it; "rule" = first obligation reported; "also" = other properties whose checks fire.\n\n')
    f.write('| seed | files | change | caught | rule | also fires in |\n|---|---|---|---|---|---|\n')
    for r in rows: f.write('| %s | %s | %s | %s | %s | %s |\n'%r)
    n=len(rows); c=sum(1 for r in rows if r[3]=='yes')
    f.write('\n%d of %d caught by the target property.\n'%(c,n))
print('rows',len(rows))
