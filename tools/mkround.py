#!/usr/bin/env python3
"""tools/mkround.py <dir> : write <dir>/<Cxx>.TASK.md for every claimed property and create a scratch worktree <dir>/<Cxx>.
The task text carries only the property and short descriptions of changes already tried (so new ones differ); nothing about /verif's rules."""
import json,os,sys,glob,subprocess,re
D=sys.argv[1]
FRESH=len(sys.argv)>2 and sys.argv[2]=='--fresh'  # no list of earlier changes: what an independent seeder would get
os.makedirs(D,exist_ok=True)
claimed=[c for c in json.load(open('/verif/MANIFEST.json'))['claims']] if False else None
props=[json.loads(l) for l in open('/verif/properties.jsonl')]
na={k for k,v in json.load(open('/verif/tools/claims.json')).items() if v.get('claim',True) is False}
ONLY=set(sys.argv[3:])  # optional: property ids to prepare
T='''# Task: seed realistic property-breaking changes into gopar

Your working directory is `@D@/@ID@`, a scratch git worktree of the Go project
akalin/gopar (PAR1 and PAR2 parity-archive formats, own GF(2^16) arithmetic, SIMD kernels,
Reed-Solomon coder and the `par` CLI). Work ONLY inside `@D@/@ID@`. Do not read, list or
modify `/verif` or `/repo` (other than through this worktree), and do not commit anything.
Do NOT use `git stash` (the stash is shared between worktrees): switch between the clean and the
changed tree with `git apply` / `git apply -R` of your saved patch.

Every shell call needs: `export GOFLAGS=-mod=mod GOPROXY=off GOSUMDB=off GOTOOLCHAIN=local`
(there is no network). Build: `go build ./...`. Test-suite: `go test -vet=off -count=1 ./...`

## The property (id @ID@): @TITLE@

@STATEMENT@

Quantified over: @QUANT@

Why the existing tests cannot settle it: @WHY@

Files the property is anchored in: @FILES@

What in the code is meant to make it hold:
@ANCHORS@

## What to produce

Produce THREE independent changes ("mutantA", "mutantB", "mutantC") to gopar's non-test source, each
breaking the property. Aim for SUBTLE, non-obvious breakage, and for NOVELTY: the following changes
have already been made by others for this property - do not repeat any of these ideas, and do not
make a similar change to the same function:
@TRIED@

Look for places nobody has touched yet: other functions on the path, other packages the mechanism
relies on, option handling and defaults, constructors, error types and their classification, counters
and summaries, boundary conditions (empty, exactly-one, exactly-a-multiple, maximum), ordering
assumptions, state carried across loop iterations or across calls, what happens on the second of two
similar calls, platform/GOARCH-specific files, and the interplay of two sites that each look fine alone.
- at least one change should be CROSS-CUTTING: made in a helper, a lower layer or another package than
  the function that most obviously implements the mechanism, so that the broken behaviour shows up at
  a distance from the edit;
- at least one change should leave the main mechanism's code textually almost intact and instead alter
  what it is fed or what is done with its result (an argument, an index, a length, a field, an ordering,
  a condition computed earlier);
- no two changes of the same kind or in the same function.
Each change must

1. BREAK the property above (for some input / schedule / fault / history),
2. still compile (`go build ./...`) and keep `go vet ./...` clean,
3. keep the WHOLE existing test-suite green, unedited (`go test -vet=off -count=1 ./...`),
4. be realistic: the kind of slip a competent developer makes in a refactor, an
   "optimisation", a clean-up or a feature addition - small (1-15 changed lines), plausible, not
   obviously sabotage, no dead code, no magic-value triggers such as `if name == "evil"`,
5. need something SPECIFIC to manifest - a particular interleaving, a fault at a particular point,
   a multi-step sequence of operations, an unusual input, or two cooperating sites that each look fine
   alone - so that ordinary use and the existing tests do not expose it at once.

For each mutant also write a DEMONSTRATION: a Go test file (placed in the appropriate package directory
so it can reach internals if needed, named `zz_demo_<mutant>_test.go`) or a small program, that FAILS with
the change applied and PASSES on the untouched worktree. Verify both directions yourself.

## Deliverables (write them under `@D@/@ID@/_out/`)

For X in A, B, C:
- `_out/mutantX/patch.diff` - `git diff` of the source change only (no demo file inside), must apply with
  `git apply` to a clean checkout of this worktree's HEAD;
- `_out/mutantX/demo/` - the demonstration file(s), plus `DEST.txt` with one line per file of the form
  `<file name> -> <destination path relative to the repository root>`
  (e.g. `zz_demo_mutantA_test.go -> par2/zz_demo_mutantA_test.go`);
- `_out/mutantX/meta.json` - an object with the string fields `property` ("@ID@"), `summary` (file,
  function and what was changed), `why_breaks`, `needs_to_manifest`, the list `files_changed`, the string
  `demo_cmd` (a single `go test -vet=off -count=1 -run <TestName> ./<pkg>/` command, run from the
  repository root, that fails with the mutant and passes without), and the booleans
  `tests_pass_with_mutant`, `demo_fails_with_mutant`, `demo_passes_without_mutant` (all must be true).

Leave the worktree clean (only `_out/` untracked) when you finish.
'''
for p in props:
    pid=p['id']
    if pid in na: continue
    if ONLY and pid not in ONLY: continue
    tried=[]
    for mp in sorted(glob.glob('/verif/seeded/%s-*/meta.json'%pid)):
        m=json.load(open(mp))
        s=re.sub(r'\s+',' ',m.get('summary','')).strip()
        if len(s)>260: s=s[:257]+'...'
        tried.append('- '+s)
    anchors=p.get('anchors',{})
    files=', '.join(anchors.get('files',[])) if isinstance(anchors,dict) else ''
    mech='\n'.join('- '+(a if isinstance(a,str) else (a.get('name','')+' ('+a.get('where','')+')')) for a in (anchors.get('mechanism',[]) if isinstance(anchors,dict) else []))
    if FRESH:
        T2=T.replace('''breaking the property. Aim for SUBTLE, non-obvious breakage, and for NOVELTY: the following changes
have already been made by others for this property - do not repeat any of these ideas, and do not
make a similar change to the same function:
@TRIED@
''','''breaking the property. Aim for SUBTLE, non-obvious breakage.
''')
    else:
        T2=T
    t=T2.replace('@D@',D).replace('@ID@',pid).replace('@TITLE@',p['title']).replace('@STATEMENT@',p['statement']).replace('@QUANT@',str(p.get('quantifier',''))).replace('@WHY@',str(p.get('why_tests_cant',''))).replace('@FILES@',files).replace('@ANCHORS@',mech).replace('@TRIED@','\n'.join(tried))
    open('%s/%s.TASK.md'%(D,pid),'w').write(t)
    if not os.path.isdir('%s/%s'%(D,pid)):
        subprocess.check_call(['git','-C','/repo','worktree','add','-q','--detach','%s/%s'%(D,pid),'HEAD'])
print('ok')
