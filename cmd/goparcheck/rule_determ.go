package main

import (
	"fmt"
	"go/token"
	"go/types"
	"sort"
	"strings"

	"golang.org/x/tools/go/ssa"
)

// ---------------------------------------------------------------------------
// DETERM

const ruleDETERMText = "Create's output is a function of its inputs only: on the call-graph closure of the Create entry points (D-a) no call of time.*, math/rand, crypto/rand, os.Getenv/Environ/Getpid/Hostname/Getuid...; (D-b) every range over a map has an order-insensitive body (map stores, appends to a slice that is sorted afterwards, pure computation) or ranges over a struct field that no function on the closure ever stores; (D-c) every store to Encoder.recoverySet is dominated by sort.Slice on that slice with a comparator calling fileIDLess; (D-d) the names hashed into file ids derive from filepath.Rel(Dir(Abs(parPath)), Abs(p)) for every input path (par1: filepath.Base(p)); (D-e) no argument of newEncoder other than the goroutine count depends on the goroutine option"

var ambientCallees = map[string]bool{
	"os.Getenv": true, "os.LookupEnv": true, "os.Environ": true, "os.Getpid": true, "os.Getppid": true, "os.Hostname": true,
	"os.Getuid": true, "os.Geteuid": true, "os.Getgid": true, "os.Getegid": true, "os.UserHomeDir": true, "os.TempDir": true, "os.Executable": true,
}

func isAmbient(fn *ssa.Function) bool {
	pp := funcPkgPath(fn)
	if pp == "time" || pp == "math/rand" || pp == "math/rand/v2" || pp == "crypto/rand" {
		// time.Duration methods etc. are harmless, but nothing in Create needs package time at all
		return true
	}
	return ambientCallees[fn.String()]
}

var pureCallPrefixes = []string{"builtin ", "strings.", "bytes.", "unicode", "math.", "strconv.", "sort.Search", "path.", "path/filepath.Base", "path/filepath.Clean", "path/filepath.Join", "path/filepath.Dir", "path/filepath.Ext", "errors.New", "fmt.Sprintf", "fmt.Errorf", "crypto/md5.Sum", "hash/crc32.ChecksumIEEE", "encoding/binary."}

func ruleDETERM(w *World, r *Report) {
	r.rule("DETERM", ruleDETERMText)
	roots := w.fns(createRootNames...)
	r.floor("DETERM", "Create entry points", len(roots), 12)
	var ambient []string
	closure := w.moduleClosure(w.CG, roots, func(site ssa.CallInstruction, caller, callee *ssa.Function) {
		if isAmbient(callee) {
			ambient = append(ambient, fmt.Sprintf("%s calls %s at %s", shortName(caller), callee.String(), w.ipos(site)))
		}
	})
	r.stat("functions_on_create_closure", len(closure))
	sort.Strings(ambient)
	if len(ambient) == 0 {
		r.ok("DETERM", "D-a:ambient", "-", fmt.Sprintf("%d functions reachable from Create; none calls time, random or environment/process-identity functions", len(closure)))
	} else {
		for i, a := range ambient {
			r.bad("DETERM", fmt.Sprintf("D-a:ambient#%d", i), "-", "Create's output can depend on ambient state: "+a)
		}
	}
	// fields ever stored on the closure (type.field)
	stored := map[string]bool{}
	var fns []*ssa.Function
	for f := range closure {
		fns = append(fns, f)
	}
	sort.Slice(fns, func(i, j int) bool { return fns[i].String() < fns[j].String() })
	for _, fn := range fns {
		for _, b := range fn.Blocks {
			for _, in := range b.Instrs {
				if st, ok := in.(*ssa.Store); ok {
					if fa, ok := st.Addr.(*ssa.FieldAddr); ok {
						stored[namedTypeName(fa.X.Type())+"."+fieldName(fa.X.Type(), fa.Field)] = true
					}
				}
			}
		}
	}
	// D-b
	nRange := 0
	for _, fn := range fns {
		k := 0
		for _, b := range fn.Blocks {
			for _, in := range b.Instrs {
				rg, ok := in.(*ssa.Range)
				if !ok {
					continue
				}
				if _, isMap := rg.X.Type().Underlying().(*types.Map); !isMap {
					continue
				}
				nRange++
				key := fmt.Sprintf("D-b:%s:range#%d", shortName(fn), k)
				k++
				// never-stored field?
				p := deepPath(rg.X)
				if ld, isLd := rg.X.(*ssa.UnOp); isLd {
					if fa, isFa := ld.X.(*ssa.FieldAddr); isFa {
						name := namedTypeName(fa.X.Type()) + "." + fieldName(fa.X.Type(), fa.Field)
						if !stored[name] {
							r.ok("DETERM", key, w.ipos(rg), "ranges over "+name+", a field that no function on the Create closure ever stores (always nil there)")
							continue
						}
					}
				}
				why := orderSensitive(w, fn, rg)
				if why == "" {
					r.ok("DETERM", key, w.ipos(rg), "map iteration over "+p.String()+" with an order-insensitive body")
				} else {
					r.bad("DETERM", key, w.ipos(rg), "map iteration order can reach the output: "+why)
				}
			}
		}
	}
	r.floor("DETERM", "range-over-map loops on the Create closure", nRange, 3)
	// D-c
	nStore := 0
	for _, fn := range w.funcsInPkgs("par2") {
		for _, b := range fn.Blocks {
			for _, in := range b.Instrs {
				st, ok := in.(*ssa.Store)
				if !ok {
					continue
				}
				fa, ok := st.Addr.(*ssa.FieldAddr)
				if !ok || namedTypeName(fa.X.Type()) != "par2.Encoder" || fieldName(fa.X.Type(), fa.Field) != "recoverySet" {
					continue
				}
				if isNilConst(st.Val) {
					continue
				}
				nStore++
				key := fmt.Sprintf("D-c:%s:recoverySet-store#%d", shortName(fn), nStore-1)
				ok2 := false
				for _, c := range callInstrs(fn) {
					f := c.Common().StaticCallee()
					if f == nil || !instrDominates(c, st) {
						continue
					}
					if f.String() == "sort.Sort" || f.String() == "sort.Stable" {
						// sort.Sort(byFileID(recoverySet)): a named slice type over the same slice whose Less calls fileIDLess
						arg := c.Common().Args[0]
						if mi, isMI := arg.(*ssa.MakeInterface); isMI {
							arg = mi.X
						}
						if ct, isCT := arg.(*ssa.ChangeType); isCT && sameSliceVar(ct.X, st.Val) {
							if less := w.Prog.LookupMethod(ct.Type(), fn.Pkg.Pkg, "Less"); less != nil && len(callsIn(less, "par2.fileIDLess")) > 0 {
								ok2 = true
							}
						}
						continue
					}
					if f.String() != "sort.Slice" && f.String() != "sort.SliceStable" {
						continue
					}
					if !sameSliceVar(c.Common().Args[0], st.Val) {
						continue
					}
					// comparator calls fileIDLess
					if mc, isMc := c.Common().Args[1].(*ssa.MakeClosure); isMc {
						if lf, isF := mc.Fn.(*ssa.Function); isF && len(callsIn(lf, "par2.fileIDLess")) > 0 {
							ok2 = true
						}
					}
				}
				if ok2 {
					r.ok("DETERM", key, w.ipos(st), "recovery set sorted with sort.Slice(..., fileIDLess) before it is stored")
				} else {
					r.bad("DETERM", key, w.ipos(st), "Encoder.recoverySet is stored without having been sorted by file id: packet order and slice order would follow the order of the input list")
				}
			}
		}
	}
	r.floor("DETERM", "stores to Encoder.recoverySet", nStore, 1)
	determPathsPar2(w, r, true)
	determGoroutineOption(w, r)
	// the name hashed is the relative path
	if fn := w.Fn("(*par2.Encoder).LoadFileData"); fn != nil {
		var cs []ssa.CallInstruction
		seenCall := map[ssa.CallInstruction]bool{}
		for _, rf := range region(fn) {
			for _, c := range callsIn(rf, "par2.computeDataFileInfo") {
				if !seenCall[c] {
					seenCall[c] = true
					cs = append(cs, c)
				}
			}
		}
		if len(cs) == 1 && strings.HasSuffix(deepPath(w.up(cs[0].Common().Args[1])).Path, ".relFilePaths[*]") {
			r.ok("DETERM", "D-d:par2.LoadFileData:name", w.ipos(cs[0]), "file ids are computed from e.relFilePaths[i] (filepath.Rel result, see SANIT S5)")
		} else {
			r.bad("DETERM", "D-d:par2.LoadFileData:name", w.pos(fn.Pos()), "the name hashed into the file id is not the stored relative path")
		}
	}
	// par1: entry name = filepath.Base(p)
	if fn := w.Fn("(*par1.Encoder).Write"); fn != nil {
		ok := false
		for _, b := range fn.Blocks {
			for _, in := range b.Instrs {
				if st, isSt := in.(*ssa.Store); isSt {
					if fa, isFa := st.Addr.(*ssa.FieldAddr); isFa && fieldName(fa.X.Type(), fa.Field) == "filename" {
						if bc := callOf(st.Val, "path/filepath.Base"); bc != nil && strings.HasSuffix(deepPath(bc.Call.Args[0]).Path, ".filePaths[*]") {
							ok = true
						}
					}
				}
			}
		}
		if ok {
			r.ok("DETERM", "D-d:par1.Write:name", w.pos(fn.Pos()), "PAR1 entry names are filepath.Base of the input paths")
		} else {
			r.bad("DETERM", "D-d:par1.Write:name", w.pos(fn.Pos()), "PAR1 entry names are not filepath.Base of the input paths")
		}
	}
}

// sameSliceVar: a (possibly boxed) and b denote the same slice variable (same value, or same phi web of appends).
func sameSliceVar(a, b ssa.Value) bool {
	a, b = stripConv(a), stripConv(b)
	if a == b {
		return true
	}
	// compare through phi webs
	web := func(v ssa.Value) map[ssa.Value]bool {
		m := map[ssa.Value]bool{}
		var walk func(v ssa.Value)
		walk = func(v ssa.Value) {
			if m[v] {
				return
			}
			m[v] = true
			switch x := v.(type) {
			case *ssa.Phi:
				for _, e := range x.Edges {
					walk(e)
				}
			case *ssa.Call:
				if c := isBuiltinCall(x, "append"); c != nil {
					walk(c.Call.Args[0])
				}
			case *ssa.UnOp:
				// closure-captured variable: loads of the same cell
			}
		}
		walk(v)
		return m
	}
	wa, wb := web(a), web(b)
	for v := range wa {
		if _, isConst := v.(*ssa.Const); isConst {
			continue
		}
		if wb[v] {
			return true
		}
	}
	// both are loads of the same captured cell (closure variable spilled to the heap)
	if la, ok := a.(*ssa.UnOp); ok {
		if lb, ok := b.(*ssa.UnOp); ok && la.X == lb.X {
			return true
		}
	}
	// a variable captured by a closure lives in a cell: a load of the cell and an append
	// whose result is stored back into it (or that extends a load of it) are the same variable
	cellOf := func(v ssa.Value) ssa.Value {
		switch x := v.(type) {
		case *ssa.UnOp:
			if x.Op == token.MUL {
				if al, ok := x.X.(*ssa.Alloc); ok {
					return al
				}
			}
		case *ssa.Call:
			if c := isBuiltinCall(x, "append"); c != nil {
				for _, ref := range referrersOf(x) {
					if st, ok := ref.(*ssa.Store); ok && st.Val == ssa.Value(x) {
						if al, ok := st.Addr.(*ssa.Alloc); ok {
							return al
						}
					}
				}
				if ld, ok := stripConv(c.Call.Args[0]).(*ssa.UnOp); ok && ld.Op == token.MUL {
					if al, ok := ld.X.(*ssa.Alloc); ok {
						return al
					}
				}
			}
		}
		return nil
	}
	if ca, cb := cellOf(a), cellOf(b); ca != nil && ca == cb {
		return true
	}
	return false
}

// orderSensitive inspects the body of a range-over-map loop and returns a
// description of the first order-sensitive effect, or "".
func orderSensitive(w *World, fn *ssa.Function, rg *ssa.Range) string {
	// loop header: the block containing the Next on rg
	var hdr *ssa.BasicBlock
	for _, ref := range referrersOf(rg) {
		if nx, ok := ref.(*ssa.Next); ok {
			hdr = nx.Block()
		}
	}
	if hdr == nil {
		return "cannot find the loop header"
	}
	// body blocks: dominated by hdr's first successor (the body) and able to reach hdr
	if len(hdr.Succs) != 2 {
		return "unexpected loop shape"
	}
	body := hdr.Succs[0]
	exit := hdr.Succs[1]
	inBody := map[*ssa.BasicBlock]bool{}
	for _, b := range fn.Blocks {
		if body.Dominates(b) && !exit.Dominates(b) {
			inBody[b] = true
		}
	}
	for _, b := range fn.Blocks {
		if !inBody[b] {
			continue
		}
		for _, in := range b.Instrs {
			switch x := in.(type) {
			case *ssa.Store:
				root := addrPath(x.Addr).Root
				if _, isAlloc := root.(*ssa.Alloc); isAlloc {
					continue
				}
				if al, isAlloc := x.Addr.(*ssa.Alloc); isAlloc && !al.Heap {
					continue
				}
				return "a store through " + addrPath(x.Addr).String() + " at " + w.ipos(x)
			case *ssa.Send, *ssa.Go, *ssa.Defer:
				return "a channel/goroutine operation at " + w.ipos(in)
			case *ssa.Call:
				name := calleeName(&x.Call)
				if c := isBuiltinCall(x, "append"); c != nil {
					// must be sorted after the loop
					sorted := false
					for _, c2 := range callInstrs(fn) {
						f := c2.Common().StaticCallee()
						if f == nil || !strings.HasPrefix(f.String(), "sort.") {
							continue
						}
						if !exit.Dominates(c2.Block()) {
							continue
						}
						if sameSliceVar(c2.Common().Args[0], x) && comparatorReadsSlice(c2) {
							sorted = true
						}
					}
					if !sorted {
						return "elements are appended in iteration order at " + w.ipos(x) + " and the slice is not sorted afterwards"
					}
					continue
				}
				pure := false
				for _, p := range pureCallPrefixes {
					if strings.HasPrefix(name, p) {
						pure = true
					}
				}
				if pure {
					continue
				}
				return "a call of " + name + " at " + w.ipos(x) + " inside the loop body"
			}
		}
	}
	return ""
}

func determGoroutineOption(w *World, r *Report) {
	// D-e: the goroutine option reaches only the encoder's goroutine parameter
	if fn := w.Fn("par2.create"); fn != nil {
		ne := callsIn(fn, "par2.newEncoder")
		if len(ne) == 1 {
			args := ne[0].Common().Args
			bad := ""
			for i, a := range args {
				if i == len(args)-1 {
					continue // numGoroutines itself
				}
				fieldSlice(a, func(v ssa.Value) bool {
					if cl, ok := v.(*ssa.Call); ok {
						if n := staticCalleeShort(&cl.Call); n == "par2.NumGoroutinesDefault" || n == "rsec16.DefaultNumGoroutines" {
							bad = "argument " + fmt.Sprint(i) + " of newEncoder depends on " + n + "()"
						}
					}
					if f, ok := v.(*ssa.Field); ok && fieldName(f.X.Type(), f.Field) == "NumGoroutines" {
						bad = "argument " + fmt.Sprint(i) + " of newEncoder depends on options.NumGoroutines"
					}
					if ld, ok := v.(*ssa.UnOp); ok {
						if fa, ok := ld.X.(*ssa.FieldAddr); ok && fieldName(fa.X.Type(), fa.Field) == "NumGoroutines" {
							bad = "argument " + fmt.Sprint(i) + " of newEncoder depends on options.NumGoroutines"
						}
					}
					return bad == ""
				})
			}
			if bad == "" {
				r.ok("DETERM", "D-e:par2.create:goroutine-option", w.ipos(ne[0]), "slice size, block count and paths handed to the encoder do not depend on the goroutine option")
			} else {
				r.bad("DETERM", "D-e:par2.create:goroutine-option", w.ipos(ne[0]), "what Create writes depends on the goroutine count: "+bad)
			}
		}
	}
}

// comparatorReadsSlice: for sort.Slice/SliceStable the less function must compare
// elements (it indexes something); a comparator on the indices themselves sorts nothing.
func comparatorReadsSlice(c ssa.CallInstruction) bool {
	f := c.Common().StaticCallee()
	if f == nil || !(f.String() == "sort.Slice" || f.String() == "sort.SliceStable") {
		return true // sort.Ints, sort.Strings, sort.Sort: element order by definition
	}
	mc, ok := c.Common().Args[1].(*ssa.MakeClosure)
	if !ok {
		return false
	}
	lit := mc.Fn.(*ssa.Function)
	for _, b := range lit.Blocks {
		for _, in := range b.Instrs {
			switch in.(type) {
			case *ssa.IndexAddr, *ssa.Index, *ssa.Lookup:
				return true
			}
		}
	}
	return false
}

func determPathsPar2(w *World, r *Report, everyInput bool) {
	// D-d par2
	if fn := w.Fn("par2.create"); fn != nil {
		ne := callsIn(fn, "par2.newEncoder")
		if len(ne) != 1 {
			r.bad("DETERM", "D-d:par2.create", w.pos(fn.Pos()), "expected one call of newEncoder")
		} else {
			args := ne[0].Common().Args
			// basePath = Dir(Abs(parPath))
			okBase := false
			if dc := callOf(args[2], "path/filepath.Dir"); dc != nil {
				if ex, isEx := stripConv(dc.Call.Args[0]).(*ssa.Extract); isEx && ex.Index == 0 {
					if ac := callOf(ex.Tuple, "path/filepath.Abs"); ac != nil && len(fn.Params) >= 2 && stripConv(ac.Call.Args[0]) == ssa.Value(fn.Params[1]) {
						okBase = true
					}
				}
			}
			if okBase {
				r.ok("DETERM", "D-d:par2.create:basePath", w.ipos(ne[0]), "basePath = filepath.Dir(filepath.Abs(parPath))")
			} else {
				r.bad("DETERM", "D-d:par2.create:basePath", w.ipos(ne[0]), "basePath is not filepath.Dir(filepath.Abs(parPath)): the stored names would depend on the current directory or the spelling of parPath")
			}
			// filePaths: every element (index store or append) is Abs(path)#0, and every iteration of the
			// loop over the inputs contributes one (no input is skipped depending on its spelling)
			okPaths, nEl := true, 0
			isAbs := func(v ssa.Value) bool {
				ex, isEx := stripConv(v).(*ssa.Extract)
				return isEx && ex.Index == 0 && callOf(ex.Tuple, "path/filepath.Abs") != nil
			}
			var contribBlocks []*ssa.BasicBlock
			arg := stripConv(args[3])
			// the list may be built by a module helper (`abs, err := makeAbsPaths(filePaths)`):
			// judge the slice the helper returns on its non-nil return
			if ex, isEx := arg.(*ssa.Extract); isEx && ex.Index == 0 {
				if hc, isCall := ex.Tuple.(*ssa.Call); isCall {
					if g := hc.Call.StaticCallee(); g != nil && len(g.Blocks) > 0 && g.Pkg != nil && isModPath(g.Pkg.Pkg.Path()) {
						var rets []ssa.Value
						for _, b := range g.Blocks {
							if ret, ok := b.Instrs[len(b.Instrs)-1].(*ssa.Return); ok && len(ret.Results) > 0 && !isNilConst(ret.Results[0]) {
								dup := false
								for _, v := range rets {
									dup = dup || v == ret.Results[0]
								}
								if !dup {
									rets = append(rets, ret.Results[0])
								}
							}
						}
						if len(rets) == 1 {
							arg = stripConv(rets[0])
						}
					}
				}
			}
			if mk, isMk := arg.(*ssa.MakeSlice); isMk {
				for _, ref := range referrersOf(mk) {
					ia, isIa := ref.(*ssa.IndexAddr)
					if !isIa {
						continue
					}
					for _, r2 := range referrersOf(ia) {
						st, isSt := r2.(*ssa.Store)
						if !isSt {
							continue
						}
						nEl++
						contribBlocks = append(contribBlocks, st.Block())
						if !isAbs(st.Val) {
							okPaths = false
						}
					}
				}
			} else if apps, _ := appendWeb(arg); len(apps) > 0 {
				for _, ap := range apps {
					vals, okv := appendedValues(ap)
					if !okv {
						okPaths = false
						continue
					}
					for _, v := range vals {
						nEl++
						contribBlocks = append(contribBlocks, ap.Block())
						if !isAbs(v) {
							okPaths = false
						}
					}
				}
			} else {
				okPaths = false
			}
			// no skipped input: each contributing block dominates the back-edges of the loop it is in
			for _, cb := range contribBlocks {
				hdr, _ := enclosingLenLoop(cb)
				if hdr == nil {
					continue
				}
				for _, p := range hdr.Preds {
					if hdr.Dominates(p) && !cb.Dominates(p) && everyInput {
						r.bad("DETERM", "D-d:par2.create:every-input", w.ipos(p.Instrs[len(p.Instrs)-1]), "an input path can be skipped when the list handed to the encoder is built: which files are protected then depends on something other than the files named (e.g. on how a path was spelled)")
					}
				}
			}
			if okPaths && nEl > 0 {
				r.ok("DETERM", "D-d:par2.create:filePaths", w.ipos(ne[0]), "every input path is passed through filepath.Abs (which also cleans it) before newEncoder relativises it")
			} else {
				r.bad("DETERM", "D-d:par2.create:filePaths", w.ipos(ne[0]), "not every input path reaches newEncoder as the result of filepath.Abs: the stored name (and so the file id) would depend on how the path was spelled")
			}
		}
	} else {
		r.unk("DETERM", "D-d:par2.create", "-", "function not found")
	}
}

// fieldSlice is a backward slice that keeps the fields of a local struct variable apart: a load
// of v.f depends on the stores to v.f and, for a store of a whole struct value into v, on that
// value's field f only (visited as a synthetic question: visit is called with the FieldAddr
// itself, whose field name the caller can inspect) - not on what was stored into v.g.
func fieldSlice(v ssa.Value, visit func(v ssa.Value) bool) {
	seen := map[ssa.Value]bool{}
	var walk func(v ssa.Value)
	walk = func(v ssa.Value) {
		if v == nil || seen[v] {
			return
		}
		seen[v] = true
		if ld, ok := v.(*ssa.UnOp); ok && ld.Op == token.MUL {
			if fa, ok := ld.X.(*ssa.FieldAddr); ok {
				if cell, ok := fa.X.(*ssa.Alloc); ok {
					if !visit(v) {
						return
					}
					for _, ref := range referrersOf(cell) {
						switch x := ref.(type) {
						case *ssa.FieldAddr:
							if x.Field != fa.Field {
								continue
							}
							for _, r2 := range referrersOf(x) {
								if st, ok := r2.(*ssa.Store); ok && st.Addr == ssa.Value(x) {
									walk(st.Val)
								}
							}
						case *ssa.Store:
							if x.Addr == ssa.Value(cell) {
								// field fa.Field of the whole value stored: parameters and constants
								// contribute only that field, which visit has already seen by name
								if _, isParam := x.Val.(*ssa.Parameter); !isParam {
									walk(x.Val)
								}
							}
						}
					}
					return
				}
			}
		}
		if !visit(v) {
			return
		}
		switch x := v.(type) {
		case *ssa.Alloc:
			for _, ref := range referrersOf(x) {
				if st, ok := ref.(*ssa.Store); ok && st.Addr == ssa.Value(x) {
					walk(st.Val)
				}
			}
		case *ssa.Phi:
			for _, e := range x.Edges {
				walk(e)
			}
		}
		if in, ok := v.(ssa.Instruction); ok {
			for _, op := range in.Operands(nil) {
				if *op != nil {
					walk(*op)
				}
			}
		}
	}
	walk(v)
}
