package main

import (
	"encoding/json"
	"fmt"
	"os"
	"path/filepath"
	"sort"
	"strings"
	"time"
)

type Status int

const (
	Discharged Status = iota
	Violated
	Undecided
)

func (s Status) String() string {
	switch s {
	case Discharged:
		return "discharged"
	case Violated:
		return "violated"
	}
	return "undecided"
}

// An Obligation is one (rule, construct) pair. Key is stable across
// line-number changes: rule + function + construct role.
type Obligation struct {
	Rule   string   `json:"rule"`
	Key    string   `json:"key"`
	Status string   `json:"status"`
	Pos    string   `json:"pos"`
	Detail string   `json:"detail"`
	Path   []string `json:"path,omitempty"`
	Config string   `json:"config,omitempty"`
	st     Status
}

// Report collects the obligations produced by the rules of one property run.
type Report struct {
	obls      []*Obligation
	seen      map[string]*Obligation
	ruleText  map[string]string
	floors    []floorCheck
	stats     map[string]int
	notes     []string
	curConfig string
}

type floorCheck struct {
	rule  string
	what  string
	got   int
	floor int
}

func newReport() *Report {
	return &Report{seen: map[string]*Obligation{}, ruleText: map[string]string{}, stats: map[string]int{}}
}

func (r *Report) rule(name, text string) { r.ruleText[name] = text }

func (r *Report) add(rule, key string, st Status, pos, detail string, path ...string) *Obligation {
	full := rule + ":" + key
	if o, ok := r.seen[full]; ok {
		// Same obligation seen again (another configuration): the worse status wins.
		if st > o.st || (st == o.st && st != Discharged && o.Detail != detail) {
			if st > o.st {
				o.st = st
				o.Status = st.String()
				o.Pos = pos
				o.Detail = detail
				o.Path = path
				o.Config = r.curConfig
			}
		} else if o.Config != "" && !strings.Contains(o.Config, r.curConfig) && st == o.st {
			o.Config += "," + r.curConfig
		}
		return o
	}
	o := &Obligation{Rule: rule, Key: full, Status: st.String(), Pos: pos, Detail: detail, Path: path, Config: r.curConfig, st: st}
	r.seen[full] = o
	r.obls = append(r.obls, o)
	return o
}

func (r *Report) ok(rule, key, pos, detail string) { r.add(rule, key, Discharged, pos, detail) }
func (r *Report) bad(rule, key, pos, detail string, path ...string) {
	r.add(rule, key, Violated, pos, detail, path...)
}
func (r *Report) unk(rule, key, pos, detail string) { r.add(rule, key, Undecided, pos, detail) }

// floor registers the minimum number of instances a rule must have matched.
func (r *Report) floor(rule, what string, got, floor int) {
	r.floors = append(r.floors, floorCheck{rule, what, got, floor})
}

func (r *Report) stat(k string, n int) { r.stats[k] += n }
func (r *Report) note(s string)        { r.notes = append(r.notes, s) }

// ---------------------------------------------------------------------------
// known findings

type knownFinding struct {
	Property string `json:"property"`
	Key      string `json:"key"`
	What     string `json:"what"`
}

type fixedFinding struct {
	Property string `json:"property"`
	Commit   string `json:"commit"`
	What     string `json:"what"`
	Key      string `json:"key,omitempty"`
	Rule     string `json:"rule,omitempty"`
}

type knownFindings struct {
	Known []knownFinding `json:"known"`
	Fixed []fixedFinding `json:"fixed"`
}

func loadKnown(path string) (*knownFindings, error) {
	kf := &knownFindings{}
	b, err := os.ReadFile(path)
	if err != nil {
		if os.IsNotExist(err) {
			return kf, nil
		}
		return nil, err
	}
	if err := json.Unmarshal(b, kf); err != nil {
		return nil, fmt.Errorf("%s: %v", path, err)
	}
	return kf, nil
}

// ---------------------------------------------------------------------------
// evidence

type evidence struct {
	PropertyID  string                 `json:"property_id"`
	Tier        string                 `json:"tier"`
	Seed        int                    `json:"seed"`
	Level       string                 `json:"level"`
	Coverage    map[string]interface{} `json:"coverage"`
	Assumptions []string               `json:"assumptions"`
	WallS       float64                `json:"wall_s"`
	Violations  int                    `json:"violations"`
}

// finish writes evidence and replay files, prints the verdict lines and returns
// the process exit status.
func (r *Report) finish(evDir string, p *propertySpec, tier string, seed int, start time.Time, configs []string, kf *knownFindings, cmdline string) int {
	sort.SliceStable(r.obls, func(i, j int) bool { return r.obls[i].Key < r.obls[j].Key })

	// floors become obligations of their own so that they show up in counts
	for _, f := range r.floors {
		key := "instances(" + f.what + ")"
		if f.got < f.floor {
			r.add("FLOOR:"+f.rule, key, Undecided, "-", fmt.Sprintf("rule %s matched %d instances of %s, fewer than the %d confirmed by hand on the reference tree: the matcher no longer recognises the code", f.rule, f.got, f.what, f.floor))
		} else {
			r.add("FLOOR:"+f.rule, key, Discharged, "-", fmt.Sprintf("%d instances of %s (floor %d)", f.got, f.what, f.floor))
		}
	}
	sort.SliceStable(r.obls, func(i, j int) bool { return r.obls[i].Key < r.obls[j].Key })

	known := map[string]knownFinding{}
	for _, k := range kf.Known {
		if k.Property == p.ID {
			known[k.Key] = k
		}
	}

	replayDir := filepath.Join(evDir, "replay")
	os.MkdirAll(replayDir, 0o755)
	// remove stale replay files of this property
	if old, _ := filepath.Glob(filepath.Join(replayDir, p.ID+"-*.json")); old != nil {
		for _, f := range old {
			os.Remove(f)
		}
	}

	nDis, nViol, nUnd, nKnown := 0, 0, 0, 0
	var lines []string
	var samples []interface{}
	perRule := map[string][3]int{}
	n := 0
	for _, o := range r.obls {
		c := perRule[o.Rule]
		c[o.st]++
		perRule[o.Rule] = c
		switch o.st {
		case Discharged:
			nDis++
			continue
		}
		if k, ok := known[o.Key]; ok && o.st == Violated {
			nKnown++
			lines = append(lines, fmt.Sprintf("KNOWN-FINDING: property=%s %s (%s at %s)", p.ID, k.What, o.Key, o.Pos))
			continue
		}
		if o.st == Violated {
			nViol++
		} else {
			nUnd++
		}
		n++
		rp := filepath.Join(replayDir, fmt.Sprintf("%s-%d.json", p.ID, n))
		rb, _ := json.MarshalIndent(map[string]interface{}{
			"property":   p.ID,
			"rule":       o.Rule,
			"rule_text":  r.ruleText[strings.TrimPrefix(o.Rule, "FLOOR:")],
			"obligation": o.Key,
			"status":     o.Status,
			"where":      o.Pos,
			"detail":     o.Detail,
			"path":       o.Path,
			"config":     o.Config,
			"replay":     cmdline,
		}, "", " ")
		os.WriteFile(rp, rb, 0o644)
		kind := "violated"
		if o.st == Undecided {
			kind = "UNDECIDED (matcher could not decide; treated as failure)"
		}
		lines = append(lines, fmt.Sprintf("%s: %s %s at %s: %s", kind, o.Rule, o.Key, o.Pos, o.Detail))
		for _, s := range o.Path {
			lines = append(lines, "    "+s)
		}
		lines = append(lines, fmt.Sprintf("VIOLATION property=%s replay=%s", p.ID, rp))
	}

	// samples: up to 4 obligations per rule, actual ones
	cnt := map[string]int{}
	for _, o := range r.obls {
		if cnt[o.Rule] >= 4 && o.st == Discharged {
			continue
		}
		cnt[o.Rule]++
		samples = append(samples, map[string]string{"obligation": o.Key, "status": o.Status, "where": o.Pos, "facts": o.Detail})
	}
	ruleNames := []string{}
	for k := range r.ruleText {
		ruleNames = append(ruleNames, k)
	}
	sort.Strings(ruleNames)
	var ruleDesc []string
	for _, k := range ruleNames {
		ruleDesc = append(ruleDesc, k+": "+r.ruleText[k])
	}
	perRuleOut := map[string]map[string]int{}
	for k, c := range perRule {
		perRuleOut[k] = map[string]int{"discharged": c[0], "violated": c[1], "undecided": c[2]}
	}

	cov := map[string]interface{}{
		"obligations":   len(r.obls),
		"discharged":    nDis,
		"violated":      nViol,
		"undecided":     nUnd,
		"known_finding": nKnown,
		"explanation":   p.Explanation,
		"rule":          strings.Join(ruleDesc, " || "),
		"per_rule":      perRuleOut,
		"samples":       samples,
		"configs":       configs,
		"checker_cmd":   cmdline,
		"trusted_base":  trustedBase,
		"not_decided":   p.NotDecided,
		"exhaustive":    true,
		"notes":         r.notes,
	}
	for k, v := range r.stats {
		cov[k] = v
	}
	ev := evidence{
		PropertyID:  p.ID,
		Tier:        tier,
		Seed:        seed,
		Level:       "other",
		Coverage:    cov,
		Assumptions: append([]string{"Decides enumerated structural obligations that are necessary for the property; does not decide the behaviour itself."}, p.NotDecided...),
		WallS:       time.Since(start).Seconds(),
		Violations:  nViol + nUnd,
	}
	eb, _ := json.MarshalIndent(ev, "", " ")
	os.MkdirAll(evDir, 0o755)
	if err := os.WriteFile(filepath.Join(evDir, p.ID+".json"), eb, 0o644); err != nil {
		fmt.Fprintln(os.Stderr, "cannot write evidence:", err)
		return 2
	}

	fmt.Printf("property %s tier=%s configs=%v: %d obligations, %d discharged, %d violated, %d undecided, %d known findings (%.1fs)\n",
		p.ID, tier, configs, len(r.obls), nDis, nViol, nUnd, nKnown, time.Since(start).Seconds())
	rn := []string{}
	for k := range perRule {
		rn = append(rn, k)
	}
	sort.Strings(rn)
	for _, k := range rn {
		c := perRule[k]
		fmt.Printf("  %-22s discharged=%d violated=%d undecided=%d\n", k, c[0], c[1], c[2])
	}
	for _, l := range lines {
		fmt.Println(l)
	}
	if nViol+nUnd > 0 {
		return 1
	}
	return 0
}

var trustedBase = []string{
	"go/types, go/ssa and the VTA/CHA call graphs of golang.org/x/tools v0.29.0",
	"the assembler's own listing (go tool asm -S) for gf2p16/slice_amd64.s",
	"the frontier classification table of standard-library functions in the checker",
	"the PAR 1.0 / PAR 2.0 constants and layouts transcribed into the checker",
	"third-party modules klauspost/reedsolomon and klauspost/cpuid are compute-only (EFF checks they reach no mutating primitive)",
}
