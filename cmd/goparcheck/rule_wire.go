package main

import (
	"fmt"
	"go/token"
	"go/types"
	"math/big"
	"strings"

	"golang.org/x/tools/go/ssa"
)

// ---------------------------------------------------------------------------
// WIRE: integers that come from an archive must be bounded before they are
// converted, used as a size, used as a bound, or divided by.

const ruleWIREText = "wire-integer validation. Sources: integer fields of the structs handed to encoding/binary.Read in par1/par2 (discovered), results of binary.LittleEndian.UintNN, values of the named type only ever built from them (exponent), and the int fields they are copied into (byteCount, sliceByteCount). Sinks: (S1) a narrowing or sign-changing conversion of a wire image needs the image's interval - refined by the comparisons that dominate the conversion, including symbolic ones against len()/buf.Len() - to fit the target type, evaluated per GOARCH; (S2) a make() size derived from a wire image needs some dominating upper bound and no wrapped intermediate (S5: arithmetic done in a narrow unsigned type before widening); (S3) a slice bound or index that is a wire image needs a dominating comparison of that image with len/cap of the very object being sliced; (S4) a divisor or loop step derived from a wire image needs a non-zero proof, followed through parameters to every call site and through fields to every store; (BUFNEXT) bytes obtained from bytes.Buffer.Next(n) are indexed or sliced only under a dominating check of their length"

type wireInfo struct {
	fields map[string]bool // "par2.packetHeader.Length" ...
	types  map[string]bool // named wire integer types: "par2.exponent"
}

func (w *World) wireSources() *wireInfo {
	wi := &wireInfo{fields: map[string]bool{}, types: map[string]bool{"par2.exponent": true}}
	for name, t := range w.wireTypes() {
		st, ok := t.Underlying().(*types.Struct)
		if !ok {
			continue
		}
		for i := 0; i < st.NumFields(); i++ {
			f := st.Field(i)
			if b, ok := f.Type().Underlying().(*types.Basic); ok && b.Info()&types.IsInteger != 0 {
				wi.fields[name+"."+f.Name()] = true
			}
		}
	}
	// fields the images are copied into (kept explicit: these are the decoder's own int copies)
	for _, f := range []string{"par2.fileDescriptionPacket.byteCount", "par2.decoderInputFileInfo.byteCount", "par2.mainPacket.sliceByteCount", "par2.Decoder.sliceByteCount"} {
		wi.fields[f] = true
	}
	return wi
}

func fieldKeyOfLoad(v ssa.Value) string {
	switch x := v.(type) {
	case *ssa.UnOp:
		if x.Op == token.MUL {
			if fa, ok := x.X.(*ssa.FieldAddr); ok {
				return namedTypeName(fa.X.Type()) + "." + fieldName(fa.X.Type(), fa.Field)
			}
		}
	case *ssa.Field:
		return namedTypeName(x.X.Type()) + "." + fieldName(x.X.Type(), x.Field)
	}
	return ""
}

// wireDerived reports whether v depends on a wire source through arithmetic and conversions only.
func (wi *wireInfo) wireDerived(v ssa.Value) (string, bool) {
	src := ""
	seen := map[ssa.Value]bool{}
	var walk func(v ssa.Value)
	walk = func(v ssa.Value) {
		if v == nil || seen[v] || src != "" {
			return
		}
		seen[v] = true
		if k := fieldKeyOfLoad(v); k != "" && wi.fields[k] {
			src = k
			return
		}
		if wi.types[namedTypeName(v.Type())] {
			src = "value of type " + namedTypeName(v.Type())
			return
		}
		switch x := v.(type) {
		case *ssa.Convert:
			walk(x.X)
		case *ssa.ChangeType:
			walk(x.X)
		case *ssa.BinOp:
			switch x.Op {
			case token.ADD, token.SUB, token.MUL, token.QUO, token.REM, token.AND, token.OR, token.XOR, token.SHL, token.SHR:
				walk(x.X)
				walk(x.Y)
			}
		case *ssa.UnOp:
			if x.Op == token.SUB || x.Op == token.XOR {
				walk(x.X)
			}
		case *ssa.Phi:
			for _, e := range x.Edges {
				walk(e)
			}
		case *ssa.Call:
			if strings.Contains(calleeName(&x.Call), "littleEndian).Uint") || strings.Contains(calleeName(&x.Call), "bigEndian).Uint") {
				src = "result of " + calleeName(&x.Call)
			}
		}
	}
	walk(v)
	return src, src != ""
}

func isNarrowing(from, to types.Type) bool {
	lo1, hi1, ok1 := typeRange(from)
	lo2, hi2, ok2 := typeRange(to)
	if !ok1 || !ok2 {
		return false
	}
	return lo1.Cmp(lo2) < 0 || hi1.Cmp(hi2) > 0
}

var wireTruncation = true

func ruleWIRE(w *World, r *Report, only ...string) {
	r.rule("WIRE", ruleWIREText)
	if w.GOARCH == "386" {
		intBits = 32
	} else {
		intBits = 64
	}
	wi := w.wireSources()
	nf := 0
	for range wi.fields {
		nf++
	}
	r.floor("WIRE", "wire integer fields discovered", nf, 15)
	nSinks := 0
	readerFns := w.moduleClosure(w.CG, w.fns(append(append([]string{}, verifyRootNames...), repairRootNames...)...), nil)
	for _, fn := range w.funcsInPkgs("par1", "par2") {
		if !readerFns[fn] {
			continue
		}
		if len(only) > 0 {
			top := fn
			for top.Parent() != nil {
				top = top.Parent()
			}
			keep := false
			for _, o := range only {
				if shortName(top) == o || inRegion(w.Fn(o), top) {
					keep = true
				}
			}
			if !keep {
				continue
			}
		}
		rc := &rangeCtx{memo: map[ssa.Value]*ival{}, busy: map[ssa.Value]bool{}}
		cnt := map[string]int{}
		key := func(kind string) string {
			k := fmt.Sprintf("%s:%s#%d", kind, shortName(fn), cnt[kind])
			cnt[kind]++
			return k
		}
		for _, b := range fn.Blocks {
			for _, in := range b.Instrs {
				switch x := in.(type) {
				case *ssa.Convert:
					// S1
					if !isNarrowing(x.X.Type(), x.Type()) {
						continue
					}
					src, ok := wi.wireDerived(x.X)
					if !ok {
						continue
					}
					nSinks++
					k := key("S1")
					iv := rc.eval(x.X, b)
					lo, hi, _ := typeRange(x.Type())
					switch {
					case iv == nil:
						r.unk("WIRE", k, w.ipos(x), "cannot bound the converted value")
					case iv.wrapped != "":
						r.bad("WIRE", k, w.ipos(x), fmt.Sprintf("%s (from %s) is converted to %s after an operation that may wrap: %s", x.X.Name(), src, x.Type(), iv.wrapped))
					case iv.lo.Cmp(lo) < 0 || iv.hi.Cmp(hi) > 0:
						r.bad("WIRE", k, w.ipos(x), fmt.Sprintf("a value from the archive (%s) in [%s, %s] is converted to %s without a dominating bound that makes it fit: the result can be negative or truncated", src, iv.lo, iv.hi, x.Type()))
					default:
						r.ok("WIRE", k, w.ipos(x), fmt.Sprintf("%s in [%s, %s] fits %s", src, iv.lo, iv.hi, x.Type()))
					}
				case *ssa.MakeSlice:
					// S2 / S5
					src, ok := wi.wireDerived(x.Len)
					if !ok {
						continue
					}
					nSinks++
					k := key("S2")
					iv := rc.eval(x.Len, b)
					_, thi, _ := typeRange(x.Len.Type())
					switch {
					case iv == nil:
						r.unk("WIRE", k, w.ipos(x), "cannot bound the allocation size")
					case iv.wrapped != "":
						r.bad("WIRE", k, w.ipos(x), fmt.Sprintf("allocation size derived from %s involves arithmetic that may wrap in a narrow type before it is widened: %s", src, iv.wrapped))
					case iv.hi.Cmp(thi) >= 0:
						r.bad("WIRE", k, w.ipos(x), fmt.Sprintf("allocation size comes from the archive (%s) and nothing that dominates the allocation bounds it from above", src))
					default:
						r.ok("WIRE", k, w.ipos(x), fmt.Sprintf("allocation size from %s bounded above by %s before the allocation", src, iv.hi))
					}
				case *ssa.Slice:
					// INSLICE: constant bounds on a byte-slice parameter (raw input)
					if par, isPar := x.X.(*ssa.Parameter); isPar && isByteSlice(par.Type()) && wireTruncation {
						need := int64(-1)
						for _, bd := range []ssa.Value{x.Low, x.High} {
							if bd == nil {
								continue
							}
							if c, ok := constInt(bd); ok && c > need {
								need = c
							}
						}
						if need > 0 {
							nSinks++
							k := key("INSLICE")
							lo := lenLowerBound(rc, par, b, fn, x)
							// a private helper with one call site: what the caller has established for the argument
							if lo < need {
								if site := w.uniqueSite(fn); site != nil {
									for pi, q := range fn.Params {
										if q == par && pi < len(site.Common().Args) {
											if ap, ok := stripConv(site.Common().Args[pi]).(*ssa.Parameter); ok {
												if lo2 := lenLowerBound(rc, ap, site.Block(), site.Parent(), site); lo2 > lo {
													lo = lo2
												}
											}
										}
									}
								}
							}
							if lo >= need {
								r.ok("WIRE", k, w.ipos(x), fmt.Sprintf("%s[...%d...] used where len(%s) >= %d is established", par.Name(), need, par.Name(), lo))
							} else {
								r.bad("WIRE", k, w.ipos(x), fmt.Sprintf("input bytes %s are sliced at constant offset %d but only len >= %d is established at this point: a file truncated below %d bytes panics", par.Name(), need, lo, need))
							}
						}
					}
					// S3
					for _, bound := range []ssa.Value{x.Low, x.High, x.Max} {
						if bound == nil {
							continue
						}
						if _, isC := bound.(*ssa.Const); isC {
							continue
						}
						src, ok := wi.wireDerived(bound)
						if !ok {
							continue
						}
						nSinks++
						k := key("S3")
						if lenGuard(bound, x.X, b) {
							r.ok("WIRE", k, w.ipos(x), fmt.Sprintf("slice bound from %s compared with the length of the sliced object before slicing", src))
						} else {
							r.bad("WIRE", k, w.ipos(x), fmt.Sprintf("slice bound comes from the archive (%s) and is not compared with the length of the object being sliced: a larger value panics", src))
						}
					}
				case *ssa.BinOp:
					_ = x
					// S4
					if x.Op != token.QUO && x.Op != token.REM {
						continue
					}
					if _, isC := x.Y.(*ssa.Const); isC {
						continue
					}
					src, isWire := wi.wireDerived(x.Y)
					if !isWire {
						if p, isP := x.Y.(*ssa.Parameter); !isP || !strings.Contains(strings.ToLower(p.Name()), "slicebytecount") {
							continue
						}
						src = "parameter " + x.Y.Name()
					}
					nSinks++
					k := key("S4")
					if why := w.provenNonZero(x.Y, b, 5, map[ssa.Value]bool{}); why == "" {
						r.ok("WIRE", k, w.ipos(x), fmt.Sprintf("divisor from %s proven non-zero (guards at its origin, followed through call sites and field stores)", src))
					} else {
						r.bad("WIRE", k, w.ipos(x), fmt.Sprintf("divisor from %s can be zero: %s", src, why))
					}
				case *ssa.Call:
					// INSLICE for fixed-width reads of a byte-slice parameter
					if nm := calleeName(&x.Call); strings.Contains(nm, "Endian).Uint") && len(x.Call.Args) == 2 {
						if par, isPar := x.Call.Args[1].(*ssa.Parameter); isPar && isByteSlice(par.Type()) && wireTruncation {
							need := int64(8)
							switch {
							case strings.HasSuffix(nm, "Uint16"):
								need = 2
							case strings.HasSuffix(nm, "Uint32"):
								need = 4
							}
							nSinks++
							k := key("INSLICE")
							if lo := lenLowerBound(rc, par, b, fn, x); lo >= need {
								r.ok("WIRE", k, w.ipos(x), fmt.Sprintf("%d-byte read of %s where len >= %d is established", need, par.Name(), lo))
							} else {
								r.bad("WIRE", k, w.ipos(x), fmt.Sprintf("a %d-byte integer is read from input bytes %s where only len >= %d is established: shorter input panics", need, par.Name(), lo))
							}
						}
					}
					// BUFNEXT
					if f := x.Call.StaticCallee(); f == nil || f.String() != "(*bytes.Buffer).Next" || !wireTruncation {
						continue
					}
					for _, ref := range referrersOf(x) {
						var need int64 = -1
						switch u := ref.(type) {
						case *ssa.Slice:
							for _, bd := range []ssa.Value{u.Low, u.High} {
								if c, ok := constInt(bd); bd != nil && ok && c > need {
									need = c
								}
							}
						case *ssa.IndexAddr:
							need = 0
							if c, ok := constInt(u.Index); ok {
								need = c + 1
							}
						case *ssa.Call:
							if strings.Contains(calleeName(&u.Call), "Endian).Uint") || strings.Contains(calleeName(&u.Call), "Endian).PutUint") {
								need = 2
							}
							if bc := isBuiltinCall(u, "copy"); bc != nil && u.Call.Args[1] == ssa.Value(x) {
								need = -1 // copy copies min(len): short data goes unnoticed but does not panic
							}
						}
						if need < 0 {
							continue
						}
						nSinks++
						k := key("BUFNEXT")
						rcx = rc
						full := rc.full(types.Typ[types.Int])
						liv := refineMatch(func(side ssa.Value) bool {
							lc := isBuiltinCall(side, "len")
							return lc != nil && lc.Call.Args[0] == ssa.Value(x)
						}, &ival{lo: big.NewInt(0), hi: full.hi}, cmpsAt(ref.Block()))
						guarded := liv.lo.Cmp(big.NewInt(need)) >= 0
						if guarded {
							r.ok("WIRE", k, w.ipos(ref), "bytes from Buffer.Next used under a dominating length check")
						} else {
							r.bad("WIRE", k, w.ipos(ref), fmt.Sprintf("bytes returned by bytes.Buffer.Next(n) are indexed/sliced up to offset %d but the dominating checks only establish len >= %s: a truncated file yields fewer bytes and this panics", need, liv.lo))
						}
					}
				}
			}
		}
	}
	r.stat("wire_sinks", nSinks)
	fl := 9
	if len(only) > 0 {
		fl = 1
	}
	r.floor("WIRE", "wire-integer sinks (conversions, allocation sizes, slice bounds, divisors)", nSinks, fl)
}

// lenGuard: some dominating comparison relates an image of `bound` to len/cap of
// the object `obj` (same value or same access path).
func lenGuard(bound, obj ssa.Value, at *ssa.BasicBlock) bool {
	sameObj := func(a, b ssa.Value) bool {
		a, b = stripConv(a), stripConv(b)
		if a == b {
			return true
		}
		la, ok1 := a.(*ssa.UnOp)
		lb, ok2 := b.(*ssa.UnOp)
		if ok1 && ok2 {
			// loads of the same element address expression: same base and same index value
			ia, ok3 := la.X.(*ssa.IndexAddr)
			ib, ok4 := lb.X.(*ssa.IndexAddr)
			if ok3 && ok4 && stripConv(ia.X) == stripConv(ib.X) && ia.Index == ib.Index {
				return true
			}
			pa, pb := deepPath(a), deepPath(b)
			if pa.Root != nil && pa.Root == pb.Root && pa.Path == pb.Path && !strings.Contains(pa.Path, "[*]") {
				return true
			}
		}
		return false
	}
	lenOf := func(v ssa.Value) ssa.Value {
		// strip widening conversions
		for {
			if cv, ok := v.(*ssa.Convert); ok {
				v = cv.X
				continue
			}
			break
		}
		if c := isBuiltinCall(v, "len"); c != nil {
			return c.Call.Args[0]
		}
		if c := isBuiltinCall(v, "cap"); c != nil {
			return c.Call.Args[0]
		}
		return nil
	}
	for _, c := range cmpsAt(at) {
		if c.Y == nil {
			continue
		}
		for _, pr := range [][2]ssa.Value{{c.X, c.Y}, {c.Y, c.X}} {
			if !sameImage(stripAllConv(pr[0]), stripAllConv(bound)) {
				continue
			}
			if o := lenOf(pr[1]); o != nil && sameObj(o, obj) {
				return true
			}
		}
	}
	return false
}

// provenNonZero returns "" if v is shown non-zero at block `at`, else a reason.
func (w *World) provenNonZero(v ssa.Value, at *ssa.BasicBlock, depth int, seen map[ssa.Value]bool) string {
	if c, ok := constBig(v); ok {
		if c.Sign() != 0 {
			return ""
		}
		return "it is the constant 0"
	}
	if seen[v] {
		return ""
	}
	seen[v] = true
	if depth <= 0 {
		return "origin too far to follow (" + v.Name() + ")"
	}
	// dominating facts
	if at != nil {
		for _, c := range cmpsAt(at) {
			if c.Y == nil {
				continue
			}
			for _, pr := range [][2]ssa.Value{{c.X, c.Y}, {c.Y, c.X}} {
				if !sameImage(pr[0], v) {
					continue
				}
				k, ok := constBig(pr[1])
				if !ok {
					continue
				}
				op := c.Op
				if pr[0] == c.Y {
					op = swapOp(op)
				}
				switch {
				case op == token.NEQ && k.Sign() == 0:
					return ""
				case op == token.GTR && k.Sign() >= 0:
					return ""
				case op == token.GEQ && k.Sign() > 0:
					return ""
				}
			}
		}
	}
	switch x := v.(type) {
	case *ssa.Convert:
		return w.provenNonZero(x.X, at, depth, seen)
	case *ssa.ChangeType:
		return w.provenNonZero(x.X, at, depth, seen)
	case *ssa.Phi:
		for i, e := range x.Edges {
			var eb *ssa.BasicBlock
			if i < len(x.Block().Preds) {
				eb = x.Block().Preds[i]
			}
			if why := w.provenNonZero(e, eb, depth, seen); why != "" {
				return why
			}
		}
		return ""
	case *ssa.Parameter:
		fn := x.Parent()
		idx := -1
		for i, p := range fn.Params {
			if p == x {
				idx = i
			}
		}
		if fn.Object() != nil && fn.Object().Exported() && fn.Parent() == nil {
			return "parameter " + x.Name() + " of exported " + shortName(fn) + " is not checked there"
		}
		n := w.CG.Nodes[fn]
		if n == nil || len(n.In) == 0 {
			return "no caller of " + shortName(fn) + " found for parameter " + x.Name()
		}
		for _, e := range n.In {
			args := e.Site.Common().Args
			if e.Site.Common().IsInvoke() {
				args = append([]ssa.Value{e.Site.Common().Value}, args...)
			}
			if idx >= len(args) {
				continue
			}
			if !w.inModule(e.Caller.Func) {
				continue
			}
			if why := w.provenNonZero(args[idx], e.Site.Block(), depth-1, seen); why != "" {
				return why + " (via call at " + w.ipos(e.Site) + ")"
			}
		}
		return ""
	case *ssa.UnOp, *ssa.Field:
		fk := fieldKeyOfLoad(v)
		if fk == "" {
			return "value " + v.Name() + " of unknown origin"
		}
		// every store to that field in the module
		n := 0
		for _, fn := range w.Funcs {
			for _, b := range fn.Blocks {
				for _, in := range b.Instrs {
					st, ok := in.(*ssa.Store)
					if !ok {
						continue
					}
					fa, ok := st.Addr.(*ssa.FieldAddr)
					if !ok || namedTypeName(fa.X.Type())+"."+fieldName(fa.X.Type(), fa.Field) != fk {
						continue
					}
					n++
					if why := w.provenNonZero(st.Val, b, depth-1, seen); why != "" {
						return why + " (stored into " + fk + " at " + w.ipos(st) + ")"
					}
				}
			}
		}
		if n == 0 {
			return "no store into " + fk + " found"
		}
		return ""
	}
	return "value " + v.Name() + " (" + v.String() + ") is not shown non-zero"
}

// ---------------------------------------------------------------------------
// SHLEN

const ruleSHLENText = "coder-input length precondition: rsec16 requires equal-length shards; every value stored into Decoder.parityShards that comes from a recovery packet's data is dominated by a comparison of its length with the decoder's slice size"

func ruleSHLEN(w *World, r *Report) {
	r.rule("SHLEN", ruleSHLENText)
	fn := w.Fn("(*par2.Decoder).LoadParityData")
	if fn == nil {
		r.unk("SHLEN", "LoadParityData", "-", "function not found")
		return
	}
	n := 0
	for _, f := range region(fn) {
		for _, b := range f.Blocks {
			for _, in := range b.Instrs {
				st, ok := in.(*ssa.Store)
				if !ok {
					continue
				}
				if _, isIdx := st.Addr.(*ssa.IndexAddr); !isIdx {
					continue
				}
				vp := deepPath(st.Val)
				if !strings.HasSuffix(vp.Path, ".data") {
					continue
				}
				n++
				key := fmt.Sprintf("LoadParityData:parity-shard-store#%d", n-1)
				ok2 := false
				for _, c := range cmpsAt(b) {
					if c.Op != token.EQL || c.Y == nil {
						continue
					}
					for _, pr := range [][2]ssa.Value{{c.X, c.Y}, {c.Y, c.X}} {
						lc := isBuiltinCall(pr[0], "len")
						if lc == nil {
							continue
						}
						lp := deepPath(lc.Call.Args[0])
						if lp.Root == vp.Root && lp.Path == vp.Path && strings.HasSuffix(deepPath(w.up(pr[1])).Path, ".sliceByteCount") {
							ok2 = true
						}
					}
				}
				if !ok2 {
					if at := shlenEarlierPass(w, f, st); at != "" {
						r.ok("SHLEN", key, w.ipos(st), "every recovery block of the same collection was compared with d.sliceByteCount in an earlier pass ("+at+") that ends in an error on a mismatch")
						continue
					}
				}
				if ok2 {
					r.ok("SHLEN", key, w.ipos(st), "recovery data stored as a parity shard only if len(data) == d.sliceByteCount")
				} else {
					r.bad("SHLEN", key, w.ipos(st), "a recovery block is accepted as a parity shard without comparing its length with the slice size: the coder's equal-length precondition is not established and reconstruction slices out of range")
				}
			}
		}
	}
	r.floor("SHLEN", "parity shard stores in LoadParityData", n, 1)
}

// ---------------------------------------------------------------------------
// MKLEN

const ruleMKLENText = "non-negative allocation length on reader paths: in functions reachable from Verify/Repair, make(T, a-b) on signed ints needs a dominating guard entailing a-b >= 0 (a >= b, or a + c >= b with c >= 0; a phi of 0 and a guarded difference is accepted)"

func ruleMKLEN(w *World, r *Report) {
	r.rule("MKLEN", ruleMKLENText)
	roots := w.fns(append(append([]string{}, verifyRootNames...), repairRootNames...)...)
	cl := w.moduleClosure(w.CG, roots, nil)
	n := 0
	var fns []*ssa.Function
	for f := range cl {
		fns = append(fns, f)
	}
	sortFuncs(fns)
	for _, fn := range fns {
		pk := w.fnPkg(fn)
		if pk != "par1" && pk != "par2" {
			continue
		}
		k := 0
		for _, b := range fn.Blocks {
			for _, in := range b.Instrs {
				mk, ok := in.(*ssa.MakeSlice)
				if !ok {
					continue
				}
				subs := subtractions(mk.Len)
				if len(subs) == 0 {
					continue
				}
				n++
				key := fmt.Sprintf("%s:make#%d", shortName(fn), k)
				k++
				bad := ""
				for _, sb := range subs {
					if !nonNegDiff(sb) {
						bad = fmt.Sprintf("%s - %s at %s", describeVal(sb.X), describeVal(sb.Y), w.ipos(sb))
					}
				}
				if bad == "" {
					r.ok("MKLEN", key, w.ipos(mk), "every difference feeding the length is dominated by a guard that makes it non-negative")
				} else {
					r.bad("MKLEN", key, w.ipos(mk), "make() length "+bad+" can be negative: no dominating guard orders the two operands (this panics)")
				}
			}
		}
	}
	r.floor("MKLEN", "make(a-b) sites on reader paths", n, 1)
}

func describeVal(v ssa.Value) string {
	if c := isBuiltinCall(v, "len"); c != nil {
		return "len(" + deepPath(c.Call.Args[0]).String() + ")"
	}
	p := deepPath(v)
	if p.Path != "" {
		return p.String()
	}
	return v.Name()
}

func sortFuncs(fns []*ssa.Function) {
	for i := 1; i < len(fns); i++ {
		for j := i; j > 0 && fns[j].String() < fns[j-1].String(); j-- {
			fns[j], fns[j-1] = fns[j-1], fns[j]
		}
	}
}

// subtractions returns the signed SUB operations (with a non-constant subtrahend) feeding v through phis.
func subtractions(v ssa.Value) []*ssa.BinOp {
	var out []*ssa.BinOp
	seen := map[ssa.Value]bool{}
	var walk func(v ssa.Value)
	walk = func(v ssa.Value) {
		if seen[v] {
			return
		}
		seen[v] = true
		switch x := v.(type) {
		case *ssa.Phi:
			for _, e := range x.Edges {
				walk(e)
			}
		case *ssa.BinOp:
			if x.Op == token.SUB {
				if _, isC := x.Y.(*ssa.Const); !isC {
					if b, ok := x.Type().Underlying().(*types.Basic); ok && b.Info()&types.IsUnsigned == 0 {
						out = append(out, x)
					}
				}
			}
		}
	}
	walk(v)
	return out
}

// nonNegDiff: sub = A - B ; some dominating fact entails A >= B.
func nonNegDiff(sub *ssa.BinOp) bool {
	A, B := sub.X, sub.Y
	// A may be X + c (c >= 0)
	bases := []ssa.Value{A}
	if add, ok := A.(*ssa.BinOp); ok && add.Op == token.ADD {
		if c, ok := constBig(add.Y); ok && c.Sign() >= 0 {
			bases = append(bases, add.X)
		}
		if c, ok := constBig(add.X); ok && c.Sign() >= 0 {
			bases = append(bases, add.Y)
		}
	}
	same := func(a, b ssa.Value) bool {
		if sameImage(a, b) {
			return true
		}
		// len(x) of the same object
		la, lb := isBuiltinCall(a, "len"), isBuiltinCall(b, "len")
		if la != nil && lb != nil {
			x, y := stripConv(la.Call.Args[0]), stripConv(lb.Call.Args[0])
			if x == y {
				return true
			}
			// same phi web (slice grown by append)
			if sameSliceVar(x, y) {
				return true
			}
		}
		return false
	}
	for _, c := range cmpsAt(sub.Block()) {
		if c.Y == nil {
			continue
		}
		for _, base := range bases {
			switch c.Op {
			case token.GEQ, token.GTR:
				if same(c.X, base) && same(c.Y, B) {
					return true
				}
			case token.LEQ, token.LSS:
				if same(c.Y, base) && same(c.X, B) {
					return true
				}
			}
		}
	}
	_ = big.NewInt
	return false
}

// stripAllConv removes every integer conversion (whether it fits is S1's business).
func stripAllConv(v ssa.Value) ssa.Value {
	for {
		switch x := v.(type) {
		case *ssa.Convert:
			v = x.X
		case *ssa.ChangeType:
			v = x.X
		default:
			return v
		}
	}
}

func isByteSlice(t types.Type) bool {
	sl, ok := t.Underlying().(*types.Slice)
	if !ok {
		return false
	}
	b, ok := sl.Elem().Underlying().(*types.Basic)
	return ok && b.Kind() == types.Uint8
}

// lenLowerBound returns the lower bound established for len(par) at block b:
// from dominating comparisons on len(par) (including len%k == 0 together with len != 0),
// or from a dominating successful parse of a fixed-size header out of a buffer over par.
func lenLowerBound(rc *rangeCtx, par *ssa.Parameter, b *ssa.BasicBlock, fn *ssa.Function, at ssa.Instruction) int64 {
	rcx = rc
	full := rc.full(types.Typ[types.Int])
	isLen := func(side ssa.Value) bool {
		lc := isBuiltinCall(side, "len")
		return lc != nil && lc.Call.Args[0] == ssa.Value(par)
	}
	cm := cmpsAt(b)
	iv := refineMatch(isLen, &ival{lo: big.NewInt(0), hi: full.hi}, cm)
	lo := int64(0)
	if iv.lo.IsInt64() {
		lo = iv.lo.Int64()
	}
	// len % k == 0 and len >= 1  =>  len >= k
	if lo >= 1 {
		for _, c := range cm {
			if c.Op != token.EQL || c.Y == nil {
				continue
			}
			for _, pr := range [][2]ssa.Value{{c.X, c.Y}, {c.Y, c.X}} {
				if z, ok := constInt(pr[1]); !ok || z != 0 {
					continue
				}
				if bo, ok := pr[0].(*ssa.BinOp); ok && bo.Op == token.REM && isLen(bo.X) {
					if k, ok := constInt(bo.Y); ok && k > lo {
						lo = k
					}
				}
			}
		}
	}
	// a fixed-size header was read successfully from bytes.NewBuffer(par) before
	for _, c := range callInstrs(fn) {
		cl, ok := c.(*ssa.Call)
		if !ok {
			continue
		}
		callee := cl.Call.StaticCallee()
		if callee == nil || len(cl.Call.Args) == 0 {
			continue
		}
		nb := callOf(cl.Call.Args[0], "bytes.NewBuffer")
		if nb == nil || nb.Call.Args[0] != ssa.Value(par) {
			continue
		}
		// the callee must read a fixed-size struct with binary.Read
		size := fixedHeaderSize(callee)
		if size <= lo {
			continue
		}
		// success edge dominates
		var errv ssa.Value
		for _, ref := range referrersOf(cl) {
			if ex, ok := ref.(*ssa.Extract); ok && isErrorType(ex.Type()) {
				errv = ex
			}
		}
		if errv == nil {
			continue
		}
		for _, f := range cm {
			if f.Op == token.EQL && f.Y != nil && ((f.X == errv && isNilConst(f.Y)) || (f.Y == errv && isNilConst(f.X))) {
				lo = size
			}
		}
	}
	return lo
}

// fixedHeaderSize: the encoded size of the struct a function reads with its first binary.Read from its buffer parameter.
func fixedHeaderSize(fn *ssa.Function) int64 {
	for _, c := range callInstrs(fn) {
		f := c.Common().StaticCallee()
		if f == nil || f.String() != "encoding/binary.Read" || len(c.Common().Args) < 3 {
			continue
		}
		t := stripConv(c.Common().Args[2]).Type()
		if p, ok := t.(*types.Pointer); ok {
			if st, ok := p.Elem().Underlying().(*types.Struct); ok {
				sz := int64(0)
				for i := 0; i < st.NumFields(); i++ {
					sz += types.SizesFor("gc", "amd64").Sizeof(st.Field(i).Type())
				}
				return sz
			}
		}
	}
	return 0
}

// iterSig names a value by the way it is reached through nested iterations over a collection:
// <slice>[*].field[v].data - two values with the same signature range over the same elements.
func iterSig(v ssa.Value, depth int) string {
	if depth > 10 {
		return fmt.Sprintf("%p", v)
	}
	v = stripAllConv(v)
	single := func(cell *ssa.Alloc) ssa.Value {
		var vals []ssa.Value
		for _, ref := range referrersOf(cell) {
			if st, ok := ref.(*ssa.Store); ok && st.Addr == ssa.Value(cell) {
				vals = append(vals, st.Val)
			}
		}
		if len(vals) == 1 {
			return vals[0]
		}
		return nil
	}
	switch x := v.(type) {
	case *ssa.UnOp:
		if x.Op != token.MUL {
			break
		}
		switch a := x.X.(type) {
		case *ssa.FieldAddr:
			if cell, ok := a.X.(*ssa.Alloc); ok {
				if sv := single(cell); sv != nil {
					return iterSig(sv, depth+1) + "." + fieldName(a.X.Type(), a.Field)
				}
			}
			if ld, ok := a.X.(*ssa.UnOp); ok && ld.Op == token.MUL {
				return iterSig(ld, depth+1) + "." + fieldName(a.X.Type(), a.Field)
			}
			if ia, ok := a.X.(*ssa.IndexAddr); ok {
				return iterSig(ia.X, depth+1) + "[*]." + fieldName(a.X.Type(), a.Field)
			}
		case *ssa.IndexAddr:
			return iterSig(a.X, depth+1) + "[*]"
		case *ssa.Alloc:
			if sv := single(a); sv != nil {
				return iterSig(sv, depth+1)
			}
		}
	case *ssa.Field:
		return iterSig(x.X, depth+1) + "." + fieldName(x.X.Type(), x.Field)
	case *ssa.Extract:
		if nx, ok := x.Tuple.(*ssa.Next); ok {
			if rg, ok := nx.Iter.(*ssa.Range); ok {
				if x.Index == 1 {
					return iterSig(rg.X, depth+1) + "[k]"
				}
				return iterSig(rg.X, depth+1) + "[v]"
			}
		}
	}
	return fmt.Sprintf("%p", v)
}

// shlenEarlierPass: the stored recovery data ranges over a collection every element of which was
// compared with the slice size in an earlier loop nest: the comparison is made in every iteration,
// a mismatch returns an error, nothing else leaves those loops early, and they are finished before
// the store's loop begins. Returns the position of the comparison, or "".
func shlenEarlierPass(w *World, f *ssa.Function, st *ssa.Store) string {
	want := iterSig(st.Val, 0)
	if !strings.Contains(want, "[") {
		return ""
	}
	loops := naturalLoops(f)
	for _, b := range f.Blocks {
		iff, ok := b.Instrs[len(b.Instrs)-1].(*ssa.If)
		if !ok {
			continue
		}
		match := false
		errEdge := -1
		for _, cm := range factCmps(Fact{iff.Cond, true, iff}) {
			if cm.Y == nil || (cm.Op != token.NEQ && cm.Op != token.EQL) {
				continue
			}
			for _, pr := range [][2]ssa.Value{{cm.X, cm.Y}, {cm.Y, cm.X}} {
				lc := isBuiltinCall(stripAllConv(pr[0]), "len")
				if lc == nil || iterSig(lc.Call.Args[0], 0) != want {
					continue
				}
				if !strings.HasSuffix(deepPath(w.up(pr[1])).Path, ".sliceByteCount") {
					continue
				}
				match = true
				if cm.Op == token.NEQ {
					errEdge = 0
				} else {
					errEdge = 1
				}
			}
		}
		if !match {
			continue
		}
		// a mismatch returns an error
		eb := b.Succs[errEdge]
		ret, ok := eb.Instrs[len(eb.Instrs)-1].(*ssa.Return)
		if !ok || len(ret.Results) == 0 || isNilConst(ret.Results[len(ret.Results)-1]) || !isErrorType(ret.Results[len(ret.Results)-1].Type()) {
			continue
		}
		inner := innermostLoop(loops, b)
		if inner == nil {
			continue
		}
		// every iteration of the innermost loop makes the comparison
		every := true
		for _, p := range inner.head.Preds {
			if inner.body[p] && !b.Dominates(p) {
				every = false
			}
		}
		if !every {
			continue
		}
		// the enclosing loops: left only at their headers or by returning an error
		var outer *natLoop
		clean := true
		for _, l := range loops {
			if !l.body[b] {
				continue
			}
			if outer == nil || len(l.body) > len(outer.body) {
				outer = l
			}
			for lb := range l.body {
				for _, s := range lb.Succs {
					if l.body[s] || lb == l.head {
						continue
					}
					r2, ok := s.Instrs[len(s.Instrs)-1].(*ssa.Return)
					if !ok || len(r2.Results) == 0 || isNilConst(r2.Results[len(r2.Results)-1]) {
						clean = false
					}
				}
			}
		}
		if !clean || outer == nil {
			continue
		}
		// finished before the store's loop begins
		if outer.body[st.Block()] || !outer.head.Dominates(st.Block()) {
			continue
		}
		return w.ipos(iff)
	}
	return ""
}
