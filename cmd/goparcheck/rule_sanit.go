package main

import (
	"fmt"
	"go/token"
	"strings"

	"golang.org/x/tools/go/ssa"
)

// ---------------------------------------------------------------------------
// SANIT: archive-declared names reach the filesystem only through the
// check-and-join.

const ruleSANITText = "path confinement: (S1) every success return of par2.readFileDescriptionPacket is dominated by checkFilename(name) == nil on the name it returns; (S2) checkFilename hands the raw name only to path.IsAbs and path.Clean, and its nil return is dominated by !IsAbs(raw) and Clean(raw)[0] != '.'; (S3) getFilePath joins filepath.Dir(index path) with the unmodified name field (par1: only after filepath.Base(name) == name); (S4) the path operand of every fileIO call in the decoders derives only from the index path, a FindWithPrefixAndSuffix result or getFilePath, never directly from a name field; (S5) par2 newEncoder stores a relative path only after filepath.Rel(basePath, path) succeeded and relPath[0] != '.'"

func ruleSANIT(w *World, r *Report) {
	r.rule("SANIT", ruleSANITText)
	// S1
	if fn := w.Fn("par2.readFileDescriptionPacket"); fn != nil {
		rets := successReturns(fn)
		r.floor("SANIT", "success returns of readFileDescriptionPacket", len(rets), 1)
		for i, ret := range rets {
			key := fmt.Sprintf("S1:readFileDescriptionPacket:return#%d", i)
			// name returned: field filename of result #1
			var name ssa.Value
			backSlice(ret.Results[1], func(v ssa.Value) bool {
				if st, ok := v.(*ssa.Alloc); ok {
					for _, ref := range referrersOf(st) {
						if fa, ok := ref.(*ssa.FieldAddr); ok && fieldName(fa.X.Type(), fa.Field) == "filename" {
							for _, r2 := range referrersOf(fa) {
								if s2, ok := r2.(*ssa.Store); ok {
									name = s2.Val
								}
							}
						}
					}
				}
				return name == nil
			})
			if name == nil {
				r.unk("SANIT", key, w.ipos(ret), "cannot identify the filename stored into the returned packet")
				continue
			}
			ok := false
			for _, pr := range eqFacts(ret.Block()) {
				c := callOf(pr[0], "par2.checkFilename")
				if c != nil && isNilConst(pr[1]) && stripConv(c.Call.Args[0]) == stripConv(name) {
					ok = true
				}
			}
			if ok {
				r.ok("SANIT", key, w.ipos(ret), "the returned name passed checkFilename")
			} else {
				r.bad("SANIT", key, w.ipos(ret), "a file description packet is accepted although checkFilename was not applied to (or did not accept) the very name it carries")
			}
		}
	} else {
		r.unk("SANIT", "S1:readFileDescriptionPacket", "-", "function not found")
	}
	// S2
	if fn := w.Fn("par2.checkFilename"); fn != nil && len(fn.Params) == 1 {
		raw := fn.Params[0]
		okUses := true
		var clean *ssa.Call
		var isAbs *ssa.Call
		for _, ref := range referrersOf(raw) {
			switch x := ref.(type) {
			case *ssa.Call:
				n := calleeName(&x.Call)
				switch n {
				case "path.IsAbs", "path/filepath.IsAbs":
					isAbs = x
				case "path.Clean":
					clean = x
				default:
					okUses = false
					r.bad("SANIT", "S2:checkFilename:raw-use", w.ipos(x), "the raw (uncleaned) name is tested by "+n+": a '..' that is not leading in the raw spelling escapes the test")
				}
			case *ssa.DebugRef:
			default:
				okUses = false
				r.bad("SANIT", "S2:checkFilename:raw-use", w.ipos(ref), "the raw (uncleaned) name is inspected directly ("+ref.String()+"): traversal tests must be made on path.Clean(name)")
			}
		}
		if okUses && clean != nil && isAbs != nil {
			r.ok("SANIT", "S2:checkFilename:raw-use", w.pos(fn.Pos()), "the raw name flows only to path.IsAbs and path.Clean")
		} else if okUses {
			r.bad("SANIT", "S2:checkFilename:raw-use", w.pos(fn.Pos()), "checkFilename does not both test path.IsAbs and clean the name")
		}
		for i, ret := range successReturns(fn) {
			key := fmt.Sprintf("S2:checkFilename:accept#%d", i)
			absOK, dotOK := false, false
			for _, c := range cmpsAt(ret.Block()) {
				if c.Y == nil && c.Op == token.EQL && isAbs != nil && c.X == ssa.Value(isAbs) {
					absOK = true
				}
				if c.Y != nil && c.Op == token.NEQ {
					for _, pr := range [][2]ssa.Value{{c.X, c.Y}, {c.Y, c.X}} {
						if v, isC := constInt(pr[1]); isC && v == '.' {
							if sx, si, isL := stringIndex(pr[0]); isL && clean != nil && sx == ssa.Value(clean) {
								if z, isZ := constInt(si); isZ && z == 0 {
									dotOK = true
								}
							}
						}
					}
				}
			}
			if absOK && dotOK {
				r.ok("SANIT", key, w.ipos(ret), "accepted only if !IsAbs(name) and Clean(name)[0] != '.'")
			} else {
				r.bad("SANIT", key, w.ipos(ret), "a name can be accepted without the absolute-path test and the leading-dot test on the cleaned name")
			}
		}
	} else {
		r.unk("SANIT", "S2:checkFilename", "-", "function not found")
	}
	// S3
	for _, pkg := range []string{"par1", "par2"} {
		fn := w.Fn("(*" + pkg + ".Decoder).getFilePath")
		key := "S3:" + pkg + ".getFilePath"
		if fn == nil || len(fn.Params) != 2 {
			r.unk("SANIT", key, "-", "function not found")
			continue
		}
		joins := callsIn(fn, "path/filepath.Join")
		if len(joins) != 1 {
			r.bad("SANIT", key, w.pos(fn.Pos()), fmt.Sprintf("expected exactly one filepath.Join, found %d", len(joins)))
			continue
		}
		// variadic: args packed into a slice of a [2]string alloc
		vals, _ := variadicElems(joins[0].Common().Args[0])
		if len(vals) != 2 {
			r.unk("SANIT", key, w.ipos(joins[0]), "cannot read the arguments of filepath.Join")
			continue
		}
		base, name := vals[0], vals[1]
		bc := callOf(base, "path/filepath.Dir")
		baseOK := false
		if bc != nil {
			p := deepPath(bc.Call.Args[0])
			if isReceiver(fn, p.Root) && (strings.HasSuffix(p.Path, ".indexPath") || strings.HasSuffix(p.Path, ".indexFile")) {
				baseOK = true
			}
		}
		np := deepPath(stripConv(name))
		nameOK := np.Root == ssa.Value(fn.Params[1]) && strings.HasSuffix(np.Path, ".filename")
		_, nameIsLoad := stripConv(name).(*ssa.UnOp)
		if _, isField := stripConv(name).(*ssa.Field); isField {
			nameIsLoad = true
		}
		// the function may be handed the name itself (a string parameter that every caller takes from
		// an entry's filename field): then the joined value must be that very parameter
		if prm, isPrm := stripConv(name).(*ssa.Parameter); isPrm && prm == fn.Params[1] {
			allFromField, nSites := true, 0
			for _, cs := range w.callSites(fn) {
				nSites++
				if len(cs.Common().Args) < 2 || !strings.HasSuffix(deepPath(stripConv(cs.Common().Args[1])).Path, ".filename") {
					allFromField = false
				}
			}
			if allFromField && nSites > 0 {
				nameOK, nameIsLoad = true, true
			}
		}
		switch {
		case !baseOK:
			r.bad("SANIT", key, w.ipos(joins[0]), "the base directory is not filepath.Dir of the decoder's index path")
		case !nameOK || !nameIsLoad:
			r.bad("SANIT", key, w.ipos(joins[0]), "the name joined is not the entry's filename field as it was validated (it is transformed after validation: "+stripConv(name).String()+")")
		default:
			r.ok("SANIT", key, w.ipos(joins[0]), "Join(Dir(index path), entry.filename) with the unmodified, validated name")
		}
		if pkg == "par1" {
			for i, ret := range successReturns(fn) {
				k := fmt.Sprintf("%s:base-guard#%d", key, i)
				ok := false
				for _, pr := range eqFacts(ret.Block()) {
					c := callOf(pr[0], "path/filepath.Base")
					if c != nil && stripConv(c.Call.Args[0]) == stripConv(pr[1]) && stripConv(pr[1]) == stripConv(name) {
						ok = true
					}
				}
				if ok {
					r.ok("SANIT", k, w.ipos(ret), "path returned only if filepath.Base(name) == name")
				} else {
					r.bad("SANIT", k, w.ipos(ret), "a PAR1 path is produced without the filepath.Base(name) == name guard on the joined name")
				}
			}
		}
	}
	// S4
	n := 0
	for _, s := range w.fileIOSites() {
		top := s.Fn
		for top.Parent() != nil {
			top = top.Parent()
		}
		tn := shortName(top)
		if !(strings.Contains(tn, "Decoder") || strings.HasSuffix(tn, ".newDecoder")) {
			continue
		}
		if s.Method == "FindWithPrefixAndSuffix" {
			continue
		}
		n++
		key := "S4:" + s.key()
		bad := ""
		backSlice(s.Call.Common().Args[0], func(v ssa.Value) bool {
			if c, ok := v.(*ssa.Call); ok {
				if strings.HasSuffix(staticCalleeShort(&c.Call), ".getFilePath") {
					return false // sanitised
				}
			}
			if ld, ok := v.(*ssa.UnOp); ok && ld.Op == token.MUL {
				if strings.HasSuffix(strings.ToLower(addrPath(ld.X).Path), "filename") {
					bad = "a name field loaded at " + w.ipos(ld)
					return false
				}
			}
			if f, ok := v.(*ssa.Field); ok && strings.ToLower(fieldName(f.X.Type(), f.Field)) == "filename" {
				bad = "a name field read at " + w.ipos(f)
				return false
			}
			return true
		})
		if bad == "" {
			r.ok("SANIT", key, w.ipos(s.Call), "path derives from the index path, a directory listing or getFilePath")
		} else {
			r.bad("SANIT", key, w.ipos(s.Call), "the path given to "+s.Method+" derives from "+bad+" without passing through getFilePath")
		}
	}
	r.floor("SANIT", "fileIO read/write sites in the decoders", n, 7)
	// S5
	if fn := w.Fn("par2.newEncoder"); fn != nil {
		n5 := 0
		for _, b := range fn.Blocks {
			for _, in := range b.Instrs {
				st, ok := in.(*ssa.Store)
				if !ok {
					continue
				}
				ia, ok := st.Addr.(*ssa.IndexAddr)
				if !ok {
					continue
				}
				if _, isMk := ia.X.(*ssa.MakeSlice); !isMk {
					// or the element handed to append(relFilePaths, relPath): a store into the
					// one-element varargs array of an append on a []string
					isAppendArg := false
					if arr, ok := ia.X.(*ssa.Alloc); ok && typeStr(st.Val.Type()) == "string" {
						for _, ref := range referrersOf(arr) {
							sl, ok := ref.(*ssa.Slice)
							if !ok {
								continue
							}
							for _, r2 := range referrersOf(sl) {
								if c, ok := r2.(*ssa.Call); ok && isBuiltinCall(c, "append") != nil && typeStr(c.Type()) == "[]string" {
									isAppendArg = true
								}
							}
						}
					}
					if !isAppendArg {
						continue
					}
				}
				n5++
				key := fmt.Sprintf("S5:newEncoder:relpath-store#%d", n5-1)
				var rel *ssa.Call
				relVal := stripConv(st.Val)
				factBlk := b
				isBase := func(v ssa.Value) bool { return len(fn.Params) >= 3 && stripConv(v) == ssa.Value(fn.Params[2]) }
				if ex, isEx := relVal.(*ssa.Extract); isEx {
					rel = callOf(ex.Tuple, "path/filepath.Rel")
					// the computation may live in a private helper `rel, err := relPathInBase(basePath, path)`:
					// judge the helper's single success return, its base parameter standing for the argument
					if hc, isCall := ex.Tuple.(*ssa.Call); rel == nil && isCall {
						if h := hc.Call.StaticCallee(); h != nil && len(h.Blocks) > 0 && w.inModule(h) {
							if rets := successReturns(h); len(rets) == 1 && ex.Index < len(rets[0].Results) {
								if ex2, ok := stripConv(rets[0].Results[ex.Index]).(*ssa.Extract); ok {
									if rc := callOf(ex2.Tuple, "path/filepath.Rel"); rc != nil {
										rel, relVal, factBlk = rc, ex2, rets[0].Block()
										outer := isBase
										isBase = func(v ssa.Value) bool {
											for j, prm := range h.Params {
												if stripConv(v) == ssa.Value(prm) && j < len(hc.Call.Args) {
													return outer(hc.Call.Args[j])
												}
											}
											return false
										}
									}
								}
							}
						}
					}
				}
				if rel == nil {
					r.bad("SANIT", key, w.ipos(st), "the stored relative path is not the result of filepath.Rel(basePath, path)")
					continue
				}
				baseOK := isBase(rel.Call.Args[0])
				dotOK := false
				for _, c := range cmpsAt(factBlk) {
					if c.Y == nil || c.Op != token.NEQ {
						continue
					}
					for _, pr := range [][2]ssa.Value{{c.X, c.Y}, {c.Y, c.X}} {
						if v, isC := constInt(pr[1]); isC && v == '.' {
							if sx, si, isL := stringIndex(pr[0]); isL && stripConv(sx) == relVal {
								if z, isZ := constInt(si); isZ && z == 0 {
									dotOK = true
								}
							}
						}
					}
				}
				switch {
				case !baseOK:
					r.bad("SANIT", key, w.ipos(st), "filepath.Rel is not taken relative to the basePath parameter")
				case !dotOK:
					r.bad("SANIT", key, w.ipos(st), "the relative path is stored without the relPath[0] != '.' guard: files outside the index file's directory tree would be protected under a traversing name")
				default:
					r.ok("SANIT", key, w.ipos(st), "relPath = filepath.Rel(basePath, path), stored only if relPath[0] != '.'")
				}
			}
		}
		r.floor("SANIT", "relative-path stores in par2.newEncoder", n5, 1)
	} else {
		r.unk("SANIT", "S5:newEncoder", "-", "function not found")
	}
}

// variadicElems returns the elements of a variadic argument built as
// slice(new [N]T) with element stores, in index order.
func variadicElems(v ssa.Value) ([]ssa.Value, bool) {
	sl, ok := v.(*ssa.Slice)
	if !ok {
		return nil, false
	}
	al, ok := sl.X.(*ssa.Alloc)
	if !ok {
		return nil, false
	}
	m := map[int64]ssa.Value{}
	for _, ref := range referrersOf(al) {
		ia, ok := ref.(*ssa.IndexAddr)
		if !ok {
			continue
		}
		idx, ok := constInt(ia.Index)
		if !ok {
			continue
		}
		for _, r2 := range referrersOf(ia) {
			if st, ok := r2.(*ssa.Store); ok && st.Addr == ssa.Value(ia) {
				m[idx] = st.Val
			}
		}
	}
	var out []ssa.Value
	for i := int64(0); i < int64(len(m)); i++ {
		if m[i] == nil {
			return nil, false
		}
		out = append(out, m[i])
	}
	return out, true
}

// stringIndex matches s[i] on a string (go/ssa uses Index or Lookup depending on version).
func stringIndex(v ssa.Value) (x, idx ssa.Value, ok bool) {
	switch t := v.(type) {
	case *ssa.Lookup:
		return t.X, t.Index, true
	case *ssa.Index:
		return t.X, t.Index, true
	}
	return nil, nil, false
}
