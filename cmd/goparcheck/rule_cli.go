package main

import (
	"fmt"
	"go/token"
	"go/types"
	"reflect"
	"sort"
	"strings"

	"golang.org/x/tools/go/ssa"
)

// ---------------------------------------------------------------------------
// a small abstract interpreter for exit-path analysis

type absKind int

const (
	absUnknown absKind = iota
	absInt
	absBool
	absNonNil
	absNil
	absFunc
)

type absVal struct {
	k  absKind
	i  int64
	b  bool
	fn *ssa.Function
}

func (a absVal) String() string {
	switch a.k {
	case absInt:
		return fmt.Sprint(a.i)
	case absBool:
		return fmt.Sprint(a.b)
	case absNonNil:
		return "non-nil"
	case absNil:
		return "nil"
	case absFunc:
		return shortName(a.fn)
	}
	return "?"
}

type outcome struct {
	exit bool   // os.Exit (true) or return/fall-off (false)
	code absVal // exit code, or returned value #0
	site ssa.Instruction
	via  []string
}

type cliEngine struct {
	w        *World
	nr       *noReturnInfo
	depth    int
	visiting map[ssa.Value]bool
}

type cliEnv map[ssa.Value]absVal

// sameAs reports whether two environments are the very same map (not yet copied).
func (a cliEnv) sameAs(b cliEnv) bool {
	if a == nil || b == nil {
		return a == nil && b == nil
	}
	return reflect.ValueOf(a).Pointer() == reflect.ValueOf(b).Pointer()
}

func (e *cliEngine) eval(v ssa.Value, env cliEnv, depth int) absVal {
	if a, ok := env[v]; ok {
		return a
	}
	if e.visiting == nil {
		e.visiting = map[ssa.Value]bool{}
	}
	if e.visiting[v] {
		return absVal{}
	}
	e.visiting[v] = true
	defer delete(e.visiting, v)
	switch x := v.(type) {
	case *ssa.Const:
		if x.Value == nil {
			return absVal{k: absNil}
		}
		if i, ok := constInt(x); ok {
			return absVal{k: absInt, i: i}
		}
		if b, ok := constBool(x); ok {
			return absVal{k: absBool, b: b}
		}
	case *ssa.Function:
		return absVal{k: absFunc, fn: x}
	case *ssa.MakeClosure:
		if f, ok := x.Fn.(*ssa.Function); ok {
			return absVal{k: absFunc, fn: f}
		}
	case *ssa.MakeInterface:
		a := e.eval(x.X, env, depth)
		if a.k == absUnknown {
			// boxing a non-pointer concrete value yields a non-nil interface
			if _, isPtr := x.X.Type().Underlying().(*types.Pointer); !isPtr {
				return absVal{k: absNonNil}
			}
		}
		return a
	case *ssa.ChangeType:
		return e.eval(x.X, env, depth)
	case *ssa.ChangeInterface:
		return e.eval(x.X, env, depth)
	case *ssa.Convert:
		return e.eval(x.X, env, depth)
	case *ssa.UnOp:
		if x.Op == token.NOT {
			a := e.eval(x.X, env, depth)
			if a.k == absBool {
				return absVal{k: absBool, b: !a.b}
			}
		}
	case *ssa.BinOp:
		a, b := e.eval(x.X, env, depth), e.eval(x.Y, env, depth)
		switch x.Op {
		case token.EQL, token.NEQ:
			res, known := false, false
			switch {
			case a.k == absInt && b.k == absInt:
				res, known = a.i == b.i, true
			case a.k == absBool && b.k == absBool:
				res, known = a.b == b.b, true
			case (a.k == absNonNil && b.k == absNil) || (a.k == absNil && b.k == absNonNil):
				res, known = false, true
			case a.k == absNil && b.k == absNil:
				res, known = true, true
			}
			if known {
				if x.Op == token.NEQ {
					res = !res
				}
				return absVal{k: absBool, b: res}
			}
		case token.LSS, token.LEQ, token.GTR, token.GEQ:
			if a.k == absInt && b.k == absInt {
				var r bool
				switch x.Op {
				case token.LSS:
					r = a.i < b.i
				case token.LEQ:
					r = a.i <= b.i
				case token.GTR:
					r = a.i > b.i
				case token.GEQ:
					r = a.i >= b.i
				}
				return absVal{k: absBool, b: r}
			}
		}
	case *ssa.Phi:
		var first absVal
		for i, ed := range x.Edges {
			a := e.eval(ed, env, depth)
			if i == 0 {
				first = a
			} else if a != first {
				return absVal{}
			}
		}
		return first
	case *ssa.Call:
		if depth <= 0 {
			return absVal{}
		}
		f := x.Call.StaticCallee()
		if f == nil || !e.w.inModule(f) || len(f.Blocks) == 0 {
			if f != nil && errorConstructors[f.String()] {
				return absVal{k: absNonNil}
			}
			return absVal{}
		}
		cenv := cliEnv{}
		for i, p := range f.Params {
			if i < len(x.Call.Args) {
				cenv[p] = e.eval(x.Call.Args[i], env, depth-1)
			}
		}
		outs := e.outcomes(f, f.Blocks[0], 0, cenv, depth-1, nil)
		var res absVal
		n := 0
		for _, o := range outs {
			if o.exit {
				continue
			}
			if n == 0 {
				res = o.code
			} else if o.code != res {
				return absVal{}
			}
			n++
		}
		if n > 0 {
			return res
		}
	}
	return absVal{}
}

// outcomes explores fn from (blk, idx) under env and returns the ways the
// path can end: process exit with a code, or return.
func (e *cliEngine) outcomes(fn *ssa.Function, blk *ssa.BasicBlock, idx int, env cliEnv, depth int, via []string) []outcome {
	var out []outcome
	// the exploration is per control-flow edge: on entering a block its phis are bound to the value
	// of the edge taken (an exit status or an error merged after a switch is known per path)
	type st struct {
		b   *ssa.BasicBlock
		i   int
		env cliEnv
	}
	seen := map[string]bool{}
	work := []st{{blk, idx, env}}
	for len(work) > 0 {
		s := work[len(work)-1]
		work = work[:len(work)-1]
		b := s.b
		env := s.env
		ended := false
		for i := s.i; i < len(b.Instrs) && !ended; i++ {
			switch x := b.Instrs[i].(type) {
			case *ssa.Call:
				f := x.Call.StaticCallee()
				if f != nil && f.String() == "os.Exit" {
					out = append(out, outcome{exit: true, code: e.eval(x.Call.Args[0], env, depth), site: x, via: via})
					ended = true
					break
				}
				if isBaseNoReturn(&x.Call) {
					out = append(out, outcome{exit: true, code: absVal{k: absInt, i: 1}, site: x, via: via})
					ended = true
					break
				}
				if f != nil && e.nr.set[f] && depth > 0 {
					cenv := cliEnv{}
					for pi, p := range f.Params {
						if pi < len(x.Call.Args) {
							cenv[p] = e.eval(x.Call.Args[pi], env, depth)
						}
					}
					sub := e.outcomes(f, f.Blocks[0], 0, cenv, depth-1, append(append([]string{}, via...), shortName(f)+" called at "+e.w.ipos(x)))
					out = append(out, sub...)
					ended = true
				}
			case *ssa.Panic:
				out = append(out, outcome{exit: true, code: absVal{k: absInt, i: 2}, site: x, via: via})
				ended = true
			case *ssa.Return:
				var c absVal
				if len(x.Results) > 0 {
					c = e.eval(x.Results[0], env, depth)
				}
				out = append(out, outcome{exit: false, code: c, site: x, via: via})
				ended = true
			}
		}
		if ended {
			continue
		}
		var iff *ssa.If
		if len(b.Instrs) > 0 {
			iff, _ = b.Instrs[len(b.Instrs)-1].(*ssa.If)
		}
		for si, nx := range b.Succs {
			if iff != nil {
				c := e.eval(iff.Cond, env, depth)
				if c.k == absBool {
					if (c.b && si == 1) || (!c.b && si == 0) {
						continue
					}
				}
			}
			env2 := env
			keyb := ""
			predIdx := -1
			for pi, p := range nx.Preds {
				if p == b {
					predIdx = pi
					if len(b.Succs) == 2 && b.Succs[0] == b.Succs[1] && si == 1 {
						continue
					}
					break
				}
			}
			for _, in := range nx.Instrs {
				phi, isPhi := in.(*ssa.Phi)
				if !isPhi {
					break
				}
				if predIdx < 0 || predIdx >= len(phi.Edges) {
					continue
				}
				val := e.eval(phi.Edges[predIdx], env, depth)
				if env2.sameAs(env) {
					env2 = cliEnv{}
					for k, v := range env {
						env2[k] = v
					}
				}
				if val.k == absUnknown {
					delete(env2, phi)
				} else {
					env2[phi] = val
				}
				keyb += fmt.Sprintf("%s=%v;", phi.Name(), val)
			}
			sk := fmt.Sprintf("%d|%d|%s", nx.Index, predIdx, keyb)
			if !seen[sk] {
				seen[sk] = true
				work = append(work, st{nx, 0, env2})
			}
		}
	}
	return out
}

// ---------------------------------------------------------------------------
// rule CLI

const ruleCLIText = "exit-path analysis of cmd/par.main with no-return inference: (1) after each library call L with error E, no path on which E is non-nil reaches exit status 0 (directly, through helpers, or by falling off main) and every exit code on those paths is a known non-zero constant; (2) verify: on the E==nil side the status is processRepairChecker applied to a field of L's result; (3) repair: E is handed to a helper whose every exit is dominated by a call of that format's classifier on E, and the classifier's true edge exits 2; (4) the library call of format F is dominated by path.Ext(parFile)==F's extension, the default case exits non-zero; (5) printUsageAndExit with a non-nil error exits only 3; (6) main cannot fall off its end"

var cliLibCalls = map[string]string{
	"par1.Create": ".par", "par1.Verify": ".par", "par1.Repair": ".par",
	"par2.Create": ".par2", "par2.Verify": ".par2", "par2.Repair": ".par2",
}

func ruleCLI(w *World, r *Report) {
	r.rule("CLI", ruleCLIText)
	mainFn := w.Fn("cmd/par.main")
	if mainFn == nil {
		r.unk("CLI", "main", "-", "cmd/par.main not found")
		return
	}
	nr := w.inferNoReturn()
	eng := &cliEngine{w: w, nr: nr}
	found := map[string]bool{}
	// main and the private helpers a command's code may have been moved into
	cliFns := region(mainFn)
	type libSite struct {
		call *ssa.Call
		in   *ssa.Function
	}
	var sites []libSite
	for _, f := range cliFns {
		for _, ci := range callInstrs(f) {
			if call, ok := ci.(*ssa.Call); ok {
				if _, isLib := cliLibCalls[staticCalleeShort(&call.Call)]; isLib {
					sites = append(sites, libSite{call, f})
				}
			}
		}
	}
	// outcomesFrom explores from a point in hf; where hf (a helper) returns, it goes on after each call of hf
	var outcomesFrom func(hf *ssa.Function, blk *ssa.BasicBlock, idx int, env cliEnv, via []string, depth int) []outcome
	outcomesFrom = func(hf *ssa.Function, blk *ssa.BasicBlock, idx int, env cliEnv, via []string, depth int) []outcome {
		outs := eng.outcomes(hf, blk, idx, env, 6, via)
		if hf == mainFn || depth > 2 {
			return outs
		}
		var res []outcome
		for _, o := range outs {
			if o.exit {
				res = append(res, o)
				continue
			}
			cont := false
			for _, cf := range cliFns {
				for _, ci := range callInstrs(cf) {
					c2, ok := ci.(*ssa.Call)
					if !ok || c2.Call.StaticCallee() != hf {
						continue
					}
					cont = true
					i2 := 0
					for i, in := range c2.Block().Instrs {
						if in == ssa.Instruction(c2) {
							i2 = i + 1
						}
					}
					res = append(res, outcomesFrom(cf, c2.Block(), i2, cliEnv{}, o.via, depth+1)...)
				}
			}
			if !cont {
				res = append(res, o)
			}
		}
		return res
	}
	for _, site := range sites {
		call, hf := site.call, site.in
		name := staticCalleeShort(&call.Call)
		ext := cliLibCalls[name]
		found[name] = true
		pos := w.ipos(call)
		// the error value
		var E ssa.Value
		if isErrorType(call.Type()) {
			E = call
		} else {
			for _, ref := range referrersOf(call) {
				if ex, ok := ref.(*ssa.Extract); ok && isErrorType(ex.Type()) {
					E = ex
				}
			}
		}
		if E == nil {
			r.bad("CLI", "1:"+name, pos, "the error returned by "+name+" is not used at all")
			continue
		}
		// (1)
		blk := call.Block()
		idx := 0
		for i, in := range blk.Instrs {
			if in == ssa.Instruction(call) {
				idx = i + 1
			}
		}
		outs := outcomesFrom(hf, blk, idx, cliEnv{E: absVal{k: absNonNil}}, nil, 0)
		bad := 0
		codes := map[string]bool{}
		for _, o := range outs {
			switch {
			case !o.exit:
				bad++
				r.bad("CLI", "1:"+name+":falls-off", w.ipos(o.site), "with a non-nil error from "+name+" main can return normally (exit status 0)", o.via...)
			case o.code.k != absInt:
				bad++
				r.bad("CLI", "1:"+name+":unknown-code", w.ipos(o.site), "with a non-nil error from "+name+" the exit status is not a known constant, so it cannot be shown to be non-zero", o.via...)
			case o.code.i == 0:
				bad++
				r.bad("CLI", "1:"+name+":exit0", w.ipos(o.site), "with a non-nil error from "+name+" the process can exit with status 0", o.via...)
			default:
				codes[fmt.Sprint(o.code.i)] = true
			}
		}
		if bad == 0 && len(outs) > 0 {
			var cs []string
			for c := range codes {
				cs = append(cs, c)
			}
			sort.Strings(cs)
			r.ok("CLI", "1:"+name, pos, fmt.Sprintf("error side: %d exit paths, statuses {%s}, none zero", len(outs), strings.Join(cs, ",")))
		} else if len(outs) == 0 {
			r.unk("CLI", "1:"+name, pos, "no exit path found after the call")
		}
		// (4) extension guard
		okExt := false
		for _, c := range cmpsAt(blk) {
			if c.Op != token.EQL || c.Y == nil {
				continue
			}
			for _, pr := range [][2]ssa.Value{{c.X, c.Y}, {c.Y, c.X}} {
				if s, ok := constString(pr[1]); ok && s == ext && callOf(pr[0], "path.Ext", "path/filepath.Ext") != nil {
					okExt = true
				}
			}
		}
		if okExt {
			r.ok("CLI", "4:"+name, pos, "call dominated by path.Ext(parFile) == \""+ext+"\"")
		} else {
			r.bad("CLI", "4:"+name, pos, name+" is not guarded by path.Ext(parFile) == \""+ext+"\": the format is not chosen by the index file's extension")
		}
		// (2) verify success side
		if strings.HasSuffix(name, ".Verify") {
			outsNil := outcomesFrom(hf, blk, idx, cliEnv{E: absVal{k: absNil}}, nil, 0)
			okv := len(outsNil) > 0
			why := ""
			for _, o := range outsNil {
				ec, isCall := o.site.(*ssa.Call)
				if !o.exit || !isCall {
					okv, why = false, "success side does not end in os.Exit"
					continue
				}
				pc := callOf(ec.Call.Args[0], "cmd/par.processRepairChecker")
				if pc == nil {
					okv, why = false, "exit status on the success side is not processRepairChecker(...)"
					continue
				}
				cav := stripConv(pc.Call.Args[0])
				// the counts of both formats may be merged after the switch: take the edge that comes from this call
				if phi, isPhi := cav.(*ssa.Phi); isPhi {
					for ei, pred := range phi.Block().Preds {
						if ei < len(phi.Edges) && call.Block().Dominates(pred) {
							cav = stripConv(phi.Edges[ei])
						}
					}
				}
				p := deepPath(cav)
				rootOK := false
				if p.Root == ssa.Value(call) && strings.HasPrefix(p.Path, "#0") {
					rootOK = true
				}
				if !rootOK || !strings.Contains(p.Path, "Counts") {
					okv, why = false, "processRepairChecker is not applied to the counts of this Verify's result ("+p.String()+")"
				}
			}
			if okv {
				r.ok("CLI", "2:"+name, pos, "success side exits with processRepairChecker(result.<counts>)")
			} else {
				r.bad("CLI", "2:"+name, pos, "verify: "+why)
			}
		}
		// create: success side exits 0 only
		// (3) repair
		if strings.HasSuffix(name, ".Repair") {
			pkg := strings.TrimSuffix(name, ".Repair")
			// E must be passed to a no-return helper together with this package's classifier
			var helperCall *ssa.Call
			for _, ref := range referrersOf(E) {
				if c2, ok := ref.(*ssa.Call); ok {
					if f := c2.Call.StaticCallee(); f != nil && nr.set[f] && w.fnPkg(f) == "cmd/par" {
						// must carry a function-valued argument
						for _, a := range c2.Call.Args {
							if _, isSig := a.Type().Underlying().(*types.Signature); isSig {
								helperCall = c2
							}
						}
					}
				}
			}
			if helperCall == nil {
				r.bad("CLI", "3:"+name, pos, "the repair error is not handed to an exit helper together with an error classifier")
			} else {
				// every error-side outcome must come through the helper
				all := true
				for _, o := range outs {
					if len(o.via) == 0 || !strings.HasPrefix(o.via[0], shortName(helperCall.Call.StaticCallee())) {
						all = false
					}
				}
				// classifier argument
				clsOK := false
				var clsParam, errParam *ssa.Parameter
				hf := helperCall.Call.StaticCallee()
				for i, a := range helperCall.Call.Args {
					if f, ok := stripAllConv(a).(*ssa.Function); ok {
						if shortName(f) == pkg+".RepairErrorMeansRepairNecessaryButNotPossible" {
							clsOK = true
							clsParam = hf.Params[i]
						}
					}
					if a == E {
						errParam = hf.Params[i]
					}
				}
				switch {
				case !all:
					r.bad("CLI", "3:"+name, pos, "some exit on the error side is reached without going through the classifier helper "+shortName(hf))
				case !clsOK:
					r.bad("CLI", "3:"+name, pos, "the classifier handed to "+shortName(hf)+" is not "+pkg+".RepairErrorMeansRepairNecessaryButNotPossible")
				default:
					r.ok("CLI", "3:"+name, pos, "error handed to "+shortName(hf)+" with "+pkg+"'s classifier; no other exit on the error side")
					checkClassifierHelper(w, r, eng, hf, clsParam, errParam)
				}
			}
		}
	}
	var missing []string
	for n := range cliLibCalls {
		if !found[n] {
			missing = append(missing, n)
		}
	}
	sort.Strings(missing)
	r.floor("CLI", "library entry calls in main (missing: "+strings.Join(missing, ",")+")", len(found), 6)

	// (5) printUsageAndExit
	if pu := w.Fn("cmd/par.printUsageAndExit"); pu != nil && len(pu.Params) == 3 {
		outs := eng.outcomes(pu, pu.Blocks[0], 0, cliEnv{pu.Params[2]: absVal{k: absNonNil}}, 4, nil)
		ok := len(outs) > 0
		for _, o := range outs {
			if !o.exit || o.code.k != absInt || o.code.i != 3 {
				ok = false
				r.bad("CLI", "5:printUsageAndExit", w.ipos(o.site), "with a usage error printUsageAndExit ends with "+describeOutcome(o)+", not exit status 3")
			}
		}
		if ok {
			r.ok("CLI", "5:printUsageAndExit", w.pos(pu.Pos()), "with a non-nil error every path exits 3")
		}
		// every call site in main passes a possibly-non-nil error only there; the default command case must be a usage error
	} else {
		r.unk("CLI", "5:printUsageAndExit", "-", "printUsageAndExit(name, mask, err) not found")
	}
	// usage-error call sites in main: each call of printUsageAndExit that is dominated by err != nil
	nUsage := 0
	for _, f := range cliFns {
		for _, ci := range callInstrs(f) {
			if staticCalleeShort(ci.Common()) == "cmd/par.printUsageAndExit" {
				nUsage++
			}
		}
	}
	r.floor("CLI", "printUsageAndExit call sites in main", nUsage, 5)

	// (7) the flag package must hand parse errors back (ContinueOnError): with ExitOnError it exits 2 by itself,
	// which is this program's status for "repair not possible"
	nfs := 0
	for _, f := range w.funcsInPkgs("cmd/par") {
		for _, ci := range callInstrs(f) {
			if calleeName(ci.Common()) != "flag.NewFlagSet" || len(ci.Common().Args) < 2 {
				continue
			}
			nfs++
			key := fmt.Sprintf("7:flagset:%s#%d", shortName(f), nfs-1)
			if c, ok := constInt(ci.Common().Args[1]); ok && c == 0 {
				r.ok("CLI", key, w.ipos(ci), "flag.ContinueOnError: parse errors reach the usage path (exit 3)")
			} else {
				r.bad("CLI", key, w.ipos(ci), "the flag set is not created with flag.ContinueOnError: on a bad option the flag package exits the process itself (status 2 or 0), bypassing the usage error status 3")
			}
		}
	}
	r.floor("CLI", "flag.NewFlagSet call sites", nfs, 1)

	// (6) main cannot fall off its end (exit 0) - all paths end in exits
	outs := eng.outcomes(mainFn, mainFn.Blocks[0], 0, cliEnv{}, 6, nil)
	fall := 0
	for _, o := range outs {
		if !o.exit {
			fall++
			r.bad("CLI", "6:main-falls-off", w.ipos(o.site), "main can return normally (implicit exit status 0) instead of ending each command in an explicit exit")
		}
	}
	if fall == 0 {
		r.ok("CLI", "6:main-falls-off", w.pos(mainFn.Pos()), fmt.Sprintf("all %d explored ends of main are explicit exits or panics", len(outs)))
	}
	// unknown extension / unknown command defaults: covered by (6)+(1): additionally the default
	// branches must exit non-zero: every exit in main with constant 0 must be on the success side of a library call.
	var exitCalls []ssa.CallInstruction
	for _, f := range cliFns {
		exitCalls = append(exitCalls, callInstrs(f)...)
	}
	for _, ci := range exitCalls {
		call, ok := ci.(*ssa.Call)
		if !ok {
			continue
		}
		if f := call.Call.StaticCallee(); f == nil || f.String() != "os.Exit" {
			continue
		}
		if c, ok := constInt(call.Call.Args[0]); ok && c == 0 {
			// must be dominated by E == nil of a library call
			okz := false
			for _, cm := range cmpsAt(call.Block()) {
				if cm.Op == token.EQL && cm.Y != nil && (isNilConst(cm.X) || isNilConst(cm.Y)) {
					v := cm.X
					if isNilConst(v) {
						v = cm.Y
					}
					if c2, ok := v.(*ssa.Call); ok {
						if _, ok := cliLibCalls[staticCalleeShort(&c2.Call)]; ok {
							okz = true
						}
					}
				}
			}
			key := fmt.Sprintf("exit0:%s", w.enclosingCase(call))
			if okz {
				r.ok("CLI", key, w.ipos(call), "os.Exit(0) only on the err == nil side of a library call")
			} else {
				// reachable only if preceding no-return calls do not stop it
				r.note("os.Exit(0) at " + w.ipos(call) + " is not syntactically on an err==nil edge; relying on rule (1) traversal")
			}
		}
	}
}

func (w *World) enclosingCase(in ssa.Instruction) string {
	b := in.Block()
	for _, c := range cmpsAt(b) {
		if c.Op == token.EQL && c.Y != nil {
			for _, pr := range [][2]ssa.Value{{c.X, c.Y}, {c.Y, c.X}} {
				if s, ok := constString(pr[1]); ok && strings.HasPrefix(s, ".") {
					// also the command
					cmd := ""
					for _, c2 := range cmpsAt(b) {
						if s2, ok := constString(c2.Y); ok && c2.Op == token.EQL && !strings.HasPrefix(s2, ".") {
							cmd = s2
						}
					}
					return cmd + s
				}
			}
		}
	}
	return fmt.Sprintf("block%d", b.Index)
}

func describeOutcome(o outcome) string {
	if !o.exit {
		return "a normal return"
	}
	return "exit status " + o.code.String()
}

// checkClassifierHelper verifies rule (3) inside the helper: every exit is
// dominated by the If on classifier(err), whose true edge exits 2.
func checkClassifierHelper(w *World, r *Report, eng *cliEngine, hf *ssa.Function, cls, errp *ssa.Parameter) {
	key := "3:helper:" + shortName(hf)
	if cls == nil || errp == nil {
		r.unk("CLI", key, w.pos(hf.Pos()), "cannot identify classifier/error parameters")
		return
	}
	var iff *ssa.If
	var ccall *ssa.Call
	for _, ci := range callInstrs(hf) {
		c, ok := ci.(*ssa.Call)
		if !ok || c.Call.Value != ssa.Value(cls) {
			continue
		}
		if len(c.Call.Args) == 1 && c.Call.Args[0] == ssa.Value(errp) {
			ccall = c
			for _, ref := range referrersOf(c) {
				if i2, ok := ref.(*ssa.If); ok {
					iff = i2
				}
			}
		}
	}
	if ccall == nil || iff == nil {
		r.bad("CLI", key, w.pos(hf.Pos()), "the helper does not branch on classifier(err)")
		return
	}
	// all exits dominated by the If's block
	for _, ci := range callInstrs(hf) {
		c, ok := ci.(*ssa.Call)
		if !ok {
			continue
		}
		f := c.Call.StaticCallee()
		if f == nil || !(f.String() == "os.Exit" || eng.nr.set[f]) {
			continue
		}
		if !iff.Block().Dominates(c.Block()) || iff.Block() == c.Block() {
			r.bad("CLI", key, w.ipos(c), "an exit in the helper is reached before the classifier is consulted")
			return
		}
	}
	// true edge exits 2
	outs := eng.outcomes(hf, iff.Block().Succs[0], 0, cliEnv{errp: absVal{k: absNonNil}}, 4, nil)
	ok := len(outs) > 0
	for _, o := range outs {
		if !o.exit || o.code.k != absInt || o.code.i != 2 {
			ok = false
		}
	}
	if ok {
		r.ok("CLI", key, w.ipos(iff), "every exit is dominated by classifier(err); its true edge exits 2")
	} else {
		r.bad("CLI", key, w.ipos(iff), "when the classifier says 'needed but not possible' the helper does not exit with status 2")
	}
}
