package main

import (
	"fmt"
	"go/types"
	"os"
	"os/exec"
	"path/filepath"
	"regexp"
	"sort"
	"strconv"
	"strings"

	"golang.org/x/tools/go/ssa"
)

// ---------------------------------------------------------------------------
// ASM: memory safety of the assembly kernels by abstract interpretation of
// the assembler's own listing (go tool asm -S).

const ruleASMText = "assembly memory safety, per TEXT symbol, over the instruction stream the assembler prints after macro expansion: (A1) no partial-width ALU operation (W/L/B suffix) on a register holding a 64-bit quantity (a length, a pointer, a loop counter) - it would leave the upper bits in place; (A2) the two loop shapes present (count-up INCQ/CMPQ/JLT with scaled index, count-down SUBQ $1/JNE with pointer bumps) are solved in closed form and every memory operand's extent at every iteration lies inside its parameter's memory, given preconditions that are emitted as obligations for the Go callers (at least one trip, len(out) >= len(in)); (A3) stores go only through parameters named out*; (A4) table operands (displacement + bounded index * scale + width) fit the struct field at that displacement; (A5) FP operand names and offsets agree with the Go declaration; SSE instructions with a memory operand (alignment faults) and unmodelled opcodes are failures"

type asmOperand struct {
	raw   string
	kind  string // reg, imm, mem, fp, target
	reg   string
	imm   int64
	base  string
	index string
	scale int64
	disp  int64
	name  string // fp name
}

type asmInstr struct {
	pc   int
	line string // file:line
	op   string
	args []asmOperand
}

type asmFunc struct {
	name   string
	instrs []asmInstr
}

var (
	reInstr = regexp.MustCompile(`^\s+0x[0-9a-f]+ (\d+) \(([^)]+)\)\s+(\S+)\s*(.*)$`)
	reMem   = regexp.MustCompile(`^(-?\d+)?\((\w+)\)(?:\((\w+)\*(\d+)\))?$`)
	reFP    = regexp.MustCompile(`^(\w+)\+(-?\d+)\(FP\)$`)
)

func parseOperand(s string) asmOperand {
	s = strings.TrimSpace(s)
	o := asmOperand{raw: s}
	switch {
	case strings.HasPrefix(s, "$"):
		o.kind = "imm"
		v, err := strconv.ParseInt(strings.TrimPrefix(s, "$"), 0, 64)
		if err != nil {
			o.kind = "unknown"
		}
		o.imm = v
	case reFP.MatchString(s):
		m := reFP.FindStringSubmatch(s)
		o.kind = "fp"
		o.name = m[1]
		o.disp, _ = strconv.ParseInt(m[2], 10, 64)
	case reMem.MatchString(s):
		m := reMem.FindStringSubmatch(s)
		o.kind = "mem"
		if m[1] != "" {
			o.disp, _ = strconv.ParseInt(m[1], 10, 64)
		}
		o.base = m[2]
		if m[3] != "" {
			o.index = m[3]
			o.scale, _ = strconv.ParseInt(m[4], 10, 64)
		}
	case regexp.MustCompile(`^\d+$`).MatchString(s):
		o.kind = "target"
		o.imm, _ = strconv.ParseInt(s, 10, 64)
	case regexp.MustCompile(`^[A-Z][A-Z0-9]*$`).MatchString(s):
		o.kind = "reg"
		o.reg = s
	default:
		o.kind = "unknown"
	}
	return o
}

func splitArgs(s string) []string {
	var out []string
	depth := 0
	cur := ""
	for _, ch := range s {
		switch ch {
		case '(':
			depth++
		case ')':
			depth--
		case ',':
			if depth == 0 {
				out = append(out, cur)
				cur = ""
				continue
			}
		}
		cur += string(ch)
	}
	if strings.TrimSpace(cur) != "" {
		out = append(out, cur)
	}
	return out
}

func asmListing(repo, file, pkgPath string) ([]asmFunc, error) {
	gorootB, err := exec.Command("go", "env", "GOROOT").Output()
	if err != nil {
		return nil, fmt.Errorf("go env GOROOT: %v", err)
	}
	goroot := strings.TrimSpace(string(gorootB))
	cmd := exec.Command("go", "tool", "asm", "-S", "-I", filepath.Join(goroot, "pkg", "include"), "-p", pkgPath, "-o", os.DevNull, filepath.Base(file))
	cmd.Dir = filepath.Dir(file)
	cmd.Env = append(os.Environ(), "GOARCH=amd64", "GOOS=linux", "GOFLAGS=", "GOWORK=off")
	out, err := cmd.CombinedOutput()
	if err != nil {
		return nil, fmt.Errorf("go tool asm: %v: %s", err, firstLines(string(out), 5))
	}
	var funcs []asmFunc
	var cur *asmFunc
	for _, ln := range strings.Split(string(out), "\n") {
		if strings.Contains(ln, " STEXT ") && !strings.HasPrefix(ln, "\t") {
			name := strings.Fields(ln)[0]
			name = name[strings.LastIndex(name, ".")+1:]
			funcs = append(funcs, asmFunc{name: name})
			cur = &funcs[len(funcs)-1]
			continue
		}
		m := reInstr.FindStringSubmatch(ln)
		if m == nil || cur == nil {
			continue
		}
		pc, _ := strconv.Atoi(m[1])
		in := asmInstr{pc: pc, line: m[2], op: m[3]}
		if in.op == "TEXT" || in.op == "FUNCDATA" || in.op == "PCDATA" {
			continue
		}
		for _, a := range splitArgs(m[4]) {
			in.args = append(in.args, parseOperand(a))
		}
		cur.instrs = append(cur.instrs, in)
	}
	return funcs, nil
}

func firstLines(s string, n int) string {
	ls := strings.Split(s, "\n")
	if len(ls) > n {
		ls = ls[:n]
	}
	return strings.Join(ls, " | ")
}

// --- abstract values ----------------------------------------------------------

type aKind int

const (
	aUnknown aKind = iota
	aPtr           // pointer to param's memory + off (+ bump*iter inside a loop)
	aLen           // len(param) >> shift
	aConst
	aBounded // [0, max]
	aCounter // loop induction variable (count-up)
)

type aVal struct {
	k     aKind
	param string
	off   int64
	shift uint
	c     int64
	max   int64
}

func (a aVal) is64() bool { return a.k == aPtr || a.k == aLen || a.k == aCounter }

func (a aVal) String() string {
	switch a.k {
	case aPtr:
		return fmt.Sprintf("&%s[%d]", a.param, a.off)
	case aLen:
		return fmt.Sprintf("len(%s)>>%d", a.param, a.shift)
	case aConst:
		return fmt.Sprint(a.c)
	case aBounded:
		return fmt.Sprintf("[0,%d]", a.max)
	case aCounter:
		return "counter"
	}
	return "?"
}

// Go declaration layout of an assembly function.
type asmParam struct {
	name   string
	kind   string // "slice", "ptr"
	off    int64  // frame offset of the first word
	size   int64  // bytes of memory the parameter designates (ptr: sizeof elem; slice: dynamic)
	elem   types.Type
	strukt *types.Struct
}

func (w *World) asmDecl(name string) (map[string]asmParam, *ssa.Function) {
	var fn *ssa.Function
	if sp := w.SSA[modPath+"/gf2p16"]; sp != nil {
		fn = sp.Func(name)
	}
	if fn == nil {
		return nil, nil
	}
	out := map[string]asmParam{}
	off := int64(0)
	sig := fn.Signature
	for i := 0; i < sig.Params().Len(); i++ {
		p := sig.Params().At(i)
		al := w.sizes.Alignof(p.Type())
		if off%al != 0 {
			off += al - off%al
		}
		ap := asmParam{name: p.Name(), off: off}
		switch u := p.Type().Underlying().(type) {
		case *types.Slice:
			ap.kind = "slice"
			ap.elem = u.Elem()
		case *types.Pointer:
			ap.kind = "ptr"
			ap.elem = u.Elem()
			ap.size = w.sizes.Sizeof(u.Elem())
			if st, ok := u.Elem().Underlying().(*types.Struct); ok {
				ap.strukt = st
			}
		default:
			ap.kind = "other"
		}
		out[p.Name()] = ap
		off += w.sizes.Sizeof(p.Type())
	}
	return out, fn
}

type asmPre struct {
	minLen    map[string]int64 // param -> minimal length (bytes) the caller must guarantee
	geLen     [][2]string      // len(a) >= len(b)
	stride    int64            // bytes consumed per SIMD iteration (0 if none)
	writesTo  map[string]bool
	readsFrom map[string]bool
}

// analyseAsmFunc interprets one TEXT symbol.
func (w *World) analyseAsmFunc(r *Report, f asmFunc) *asmPre {
	decl, goFn := w.asmDecl(f.name)
	key := f.name
	pre := &asmPre{minLen: map[string]int64{}, writesTo: map[string]bool{}, readsFrom: map[string]bool{}}
	if decl == nil {
		r.unk("ASM", key+":decl", f.name, "no Go declaration found for this TEXT symbol")
		return pre
	}
	_ = goFn
	regs := map[string]aVal{}
	pcIndex := map[int]int{}
	for i, in := range f.instrs {
		pcIndex[in.pc] = i
	}
	// loops: backward branches
	type loop struct {
		head, back int // instruction indices
		kind       string
		ctrReg     string
		limReg     string
		bumps      map[string]int64
		guarded    bool
	}
	var loops []loop
	for i, in := range f.instrs {
		if strings.HasPrefix(in.op, "J") && in.op != "JMP" {
			t := in.args[len(in.args)-1]
			if t.kind == "target" {
				if ti, ok := pcIndex[int(t.imm)]; ok && ti <= i {
					loops = append(loops, loop{head: ti, back: i, bumps: map[string]int64{}})
				}
			}
		}
	}
	inLoop := func(i int) *loop {
		for li := range loops {
			if i >= loops[li].head && i <= loops[li].back {
				return &loops[li]
			}
		}
		return nil
	}
	// classify loops
	for li := range loops {
		lp := &loops[li]
		backIn := f.instrs[lp.back]
		prev := f.instrs[lp.back-1]
		switch {
		case backIn.op == "JLT" && prev.op == "CMPQ" && len(prev.args) == 2 && prev.args[0].kind == "reg" && prev.args[1].kind == "reg":
			lp.kind = "up"
			lp.ctrReg, lp.limReg = prev.args[0].reg, prev.args[1].reg
		case backIn.op == "JNE" && prev.op == "SUBQ" && len(prev.args) == 2 && prev.args[0].kind == "imm" && prev.args[0].imm == 1 && prev.args[1].kind == "reg":
			lp.kind = "down"
			lp.ctrReg = prev.args[1].reg
		default:
			r.unk("ASM", fmt.Sprintf("%s:loop@%s", key, f.instrs[lp.head].line), f.instrs[lp.back].line, "loop shape not recognised (expected INCQ/CMPQ/JLT or SUBQ $1/JNE)")
			lp.kind = "?"
		}
		for i := lp.head; i <= lp.back; i++ {
			in := f.instrs[i]
			if (in.op == "ADDQ") && len(in.args) == 2 && in.args[0].kind == "imm" && in.args[1].kind == "reg" {
				lp.bumps[in.args[1].reg] += in.args[0].imm
			}
			if in.op == "INCQ" && len(in.args) == 1 && in.args[0].kind == "reg" {
				lp.bumps[in.args[0].reg]++
			}
		}
	}
	sub64 := func(r string) string {
		// sub-register names: R10B -> R10 ; AL etc. not used here
		if strings.HasPrefix(r, "R") && (strings.HasSuffix(r, "B") || strings.HasSuffix(r, "W") || strings.HasSuffix(r, "L")) && len(r) > 2 {
			base := r[:len(r)-1]
			if _, err := strconv.Atoi(base[1:]); err == nil {
				return base
			}
		}
		return r
	}
	isX := func(r string) bool {
		return strings.HasPrefix(r, "X") && len(r) <= 3
	}
	widthOf := map[string]int64{"MOVQ": 8, "MOVW": 2, "MOVWLZX": 2, "MOVBLZX": 1, "MOVOU": 16, "MOVO": 16, "MOVL": 4, "MOVB": 1, "MOVLQZX": 4}
	nMem := 0
	nStores := 0
	memCheck := func(i int, in asmInstr, m asmOperand, width int64, isStore bool) {
		nMem++
		mk := fmt.Sprintf("%s:A2:mem@%s#%d", key, in.line, i)
		base := regs[m.base]
		lp := inLoop(i)
		if base.k != aPtr {
			r.bad("ASM", mk, in.line, fmt.Sprintf("%s %s: base register %s does not hold a pointer derived from a parameter (%s)", in.op, m.raw, m.base, base))
			return
		}
		ap := decl[base.param]
		if isStore {
			nStores++
			pre.writesTo[base.param] = true
			sk := fmt.Sprintf("%s:A3:store@%s#%d", key, in.line, i)
			if strings.HasPrefix(base.param, "out") {
				r.ok("ASM", sk, in.line, "store through parameter "+base.param)
			} else {
				r.bad("ASM", sk, in.line, fmt.Sprintf("%s %s writes through parameter %s, which is an input", in.op, m.raw, base.param))
			}
		} else {
			pre.readsFrom[base.param] = true
		}
		// index
		var idxMax int64 = 0
		idxIsCounter := false
		if m.index != "" {
			iv := regs[sub64(m.index)]
			switch iv.k {
			case aBounded:
				idxMax = iv.max * m.scale
			case aConst:
				idxMax = iv.c * m.scale
			case aCounter:
				idxIsCounter = true
			default:
				r.bad("ASM", mk, in.line, fmt.Sprintf("%s %s: index register %s is unbounded (%s)", in.op, m.raw, m.index, iv))
				return
			}
		}
		if ap.kind == "ptr" {
			// fixed-size object (table entry or [16]byte)
			if idxIsCounter || (lp != nil && lp.bumps[m.base] != 0) {
				r.bad("ASM", mk, in.line, "a fixed-size object is addressed with a loop-varying offset")
				return
			}
			end := base.off + m.disp + idxMax + width
			limit := ap.size
			what := fmt.Sprintf("*%s (%d bytes)", base.param, ap.size)
			if ap.strukt != nil && m.index != "" {
				// A4: must stay inside the field that contains the displacement
				foff := int64(0)
				for fi := 0; fi < ap.strukt.NumFields(); fi++ {
					fld := ap.strukt.Field(fi)
					al := w.sizes.Alignof(fld.Type())
					if foff%al != 0 {
						foff += al - foff%al
					}
					fsz := w.sizes.Sizeof(fld.Type())
					if base.off+m.disp >= foff && base.off+m.disp < foff+fsz {
						limit = foff + fsz
						what = fmt.Sprintf("field %s.%s [%d,%d)", base.param, fld.Name(), foff, foff+fsz)
					}
					foff += fsz
				}
			}
			if base.off+m.disp < 0 || end > limit {
				r.bad("ASM", mk, in.line, fmt.Sprintf("%s %s accesses bytes [%d,%d) of %s: outside", in.op, m.raw, base.off+m.disp, end, what))
			} else {
				r.ok("ASM", mk, in.line, fmt.Sprintf("%s %s accesses bytes [%d,%d) inside %s", in.op, m.raw, base.off+m.disp, end, what))
			}
			return
		}
		// slice parameter
		if lp == nil {
			// straight-line access to a slice: needs a minimum length
			need := base.off + m.disp + idxMax + width
			if need > pre.minLen[base.param] {
				pre.minLen[base.param] = need
			}
			r.ok("ASM", mk, in.line, fmt.Sprintf("%s %s: bytes [%d,%d) of %s; caller obligation len(%s) >= %d", in.op, m.raw, base.off+m.disp, need, base.param, base.param, need))
			return
		}
		// inside a loop: closed form
		var lenParam string
		var shift uint
		switch lp.kind {
		case "up":
			lim := regs["#lim:"+lp.limReg]
			if lim.k != aLen {
				r.bad("ASM", mk, in.line, fmt.Sprintf("loop limit register %s is not len(param)>>s (%s): trip count unknown", lp.limReg, lim))
				return
			}
			lenParam, shift = lim.param, lim.shift
			if !idxIsCounter || sub64(m.index) != lp.ctrReg {
				if m.index != "" && !idxIsCounter {
					// table lookups inside the loop are handled by the ptr case; a slice with bounded index is not expected
				}
				if !idxIsCounter {
					r.bad("ASM", mk, in.line, "slice operand inside a count-up loop is not indexed by the loop counter")
					return
				}
			}
			stride := m.scale
			if stride != 1<<shift || base.off+m.disp < 0 || base.off+m.disp+width > stride {
				r.bad("ASM", mk, in.line, fmt.Sprintf("%s %s: at iteration k it touches [%d+%d*k, +%d) for k < len(%s)>>%d: can exceed len(%s)", in.op, m.raw, base.off+m.disp, stride, width, lenParam, shift, lenParam))
				return
			}
		case "down":
			cnt := regs["#cnt:"+lp.ctrReg]
			if cnt.k != aLen {
				r.bad("ASM", mk, in.line, fmt.Sprintf("loop counter %s is not len(param)>>s at loop entry (%s): trip count unknown", lp.ctrReg, cnt))
				return
			}
			lenParam, shift = cnt.param, cnt.shift
			bump := lp.bumps[m.base]
			// the part of the bump that has already been applied when this access executes
			// (an access placed after `ADDQ $n, base` in the loop body sees the next chunk)
			var pending int64
			for j := lp.head; j < i; j++ {
				pj := f.instrs[j]
				if pj.op == "ADDQ" && len(pj.args) == 2 && pj.args[0].kind == "imm" && pj.args[1].kind == "reg" && pj.args[1].reg == m.base {
					pending += pj.args[0].imm
				}
				if pj.op == "INCQ" && len(pj.args) == 1 && pj.args[0].kind == "reg" && pj.args[0].reg == m.base {
					pending++
				}
			}
			lo := base.off + m.disp + pending
			if m.index != "" || bump != 1<<shift || lo < 0 || lo+width > bump {
				r.bad("ASM", mk, in.line, fmt.Sprintf("%s %s: at iteration k it touches [%d+%d*k, +%d) for k < len(%s)>>%d: can exceed len(%s)", in.op, m.raw, lo, bump, width, lenParam, shift, lenParam))
				return
			}
			if bump > pre.stride {
				pre.stride = bump
			}
		default:
			return
		}
		if base.param != lenParam {
			found := false
			for _, g := range pre.geLen {
				if g[0] == base.param && g[1] == lenParam {
					found = true
				}
			}
			if !found {
				pre.geLen = append(pre.geLen, [2]string{base.param, lenParam})
			}
		}
		r.ok("ASM", mk, in.line, fmt.Sprintf("%s %s stays inside %s for every iteration k < len(%s)>>%d%s", in.op, m.raw, base.param, lenParam, shift, map[bool]string{true: fmt.Sprintf(" given len(%s) >= len(%s)", base.param, lenParam), false: ""}[base.param != lenParam]))
	}

	for i, in := range f.instrs {
		// entering a loop head: freeze loop-entry facts
		for li := range loops {
			lp := &loops[li]
			if lp.head != i {
				continue
			}
			if lp.kind == "up" {
				regs["#lim:"+lp.limReg] = regs[lp.limReg]
				// counter must start at 0
				if c := regs[lp.ctrReg]; !(c.k == aConst && c.c == 0) {
					r.bad("ASM", fmt.Sprintf("%s:loop@%s:init", key, in.line), in.line, "count-up loop counter does not start at 0")
				}
				regs[lp.ctrReg] = aVal{k: aCounter}
				// do-while: one trip even if the limit is 0
				if l := regs[lp.limReg]; l.k == aLen {
					need := int64(1) << l.shift
					if need > pre.minLen[l.param] {
						pre.minLen[l.param] = need
					}
				}
			}
			if lp.kind == "down" {
				regs["#cnt:"+lp.ctrReg] = regs[lp.ctrReg]
				// guarded by CMPQ ctr,$0 ; JEQ exit before the loop?
				for j := 0; j+1 < lp.head; j++ {
					a, b := f.instrs[j], f.instrs[j+1]
					if a.op == "CMPQ" && len(a.args) == 2 && a.args[0].kind == "reg" && a.args[0].reg == lp.ctrReg && a.args[1].kind == "imm" && a.args[1].imm == 0 && b.op == "JEQ" {
						if t := b.args[len(b.args)-1]; t.kind == "target" {
							if ti, ok := pcIndex[int(t.imm)]; ok && ti > lp.back {
								lp.guarded = true
							}
						}
					}
				}
				if c := regs[lp.ctrReg]; c.k == aLen && !lp.guarded {
					need := int64(1) << c.shift
					if need > pre.minLen[c.param] {
						pre.minLen[c.param] = need
					}
				}
			}
		}
		op := in.op
		a := in.args
		switch {
		case op == "RET":
		case op == "MOVQ" && len(a) == 2 && a[0].kind == "fp" && a[1].kind == "reg":
			// parameter load
			nm := a[0].name
			k5 := fmt.Sprintf("%s:A5:%s", key, a[0].raw)
			switch {
			case strings.HasSuffix(nm, "_len"):
				p := strings.TrimSuffix(nm, "_len")
				if ap, ok := decl[p]; ok && ap.kind == "slice" && a[0].disp-8 == ap.off+8 {
					regs[a[1].reg] = aVal{k: aLen, param: p}
					r.ok("ASM", k5, in.line, "length word of slice parameter "+p)
				} else {
					regs[a[1].reg] = aVal{}
					r.bad("ASM", k5, in.line, "FP operand "+a[0].raw+" does not match the Go declaration")
				}
			case strings.HasSuffix(nm, "_cap"):
				regs[a[1].reg] = aVal{}
			default:
				nm = strings.TrimSuffix(nm, "_base")
				if ap, ok := decl[nm]; ok && (ap.kind == "slice" || ap.kind == "ptr") && a[0].disp-8 == ap.off {
					regs[a[1].reg] = aVal{k: aPtr, param: nm}
					r.ok("ASM", k5, in.line, "pointer word of parameter "+nm)
				} else {
					regs[a[1].reg] = aVal{}
					r.bad("ASM", k5, in.line, "FP operand "+a[0].raw+" does not match the Go declaration")
				}
			}
		case op == "MOVQ" && len(a) == 2 && a[0].kind == "imm" && a[1].kind == "reg":
			regs[a[1].reg] = aVal{k: aConst, c: a[0].imm}
		case op == "MOVQ" && len(a) == 2 && a[0].kind == "reg" && a[1].kind == "reg":
			if isX(a[1].reg) || isX(a[0].reg) {
				if !isX(a[1].reg) {
					regs[a[1].reg] = aVal{}
				}
			} else {
				regs[a[1].reg] = regs[a[0].reg]
			}
		case (op == "SHRQ" || op == "SHLQ") && len(a) == 2 && a[0].kind == "imm" && a[1].kind == "reg":
			v := regs[a[1].reg]
			if op == "SHRQ" && v.k == aLen {
				v.shift += uint(a[0].imm)
				regs[a[1].reg] = v
			} else if op == "SHRQ" && v.k == aBounded {
				regs[a[1].reg] = aVal{k: aBounded, max: v.max >> uint(a[0].imm)}
			} else {
				regs[a[1].reg] = aVal{}
			}
		case len(op) > 3 && (strings.HasPrefix(op, "SHR") || strings.HasPrefix(op, "SHL") || strings.HasPrefix(op, "ADD") || strings.HasPrefix(op, "SUB") || strings.HasPrefix(op, "AND") || strings.HasPrefix(op, "XOR") || strings.HasPrefix(op, "OR") || strings.HasPrefix(op, "INC") || strings.HasPrefix(op, "DEC") || strings.HasPrefix(op, "NEG") || strings.HasPrefix(op, "NOT") || strings.HasPrefix(op, "SAR")) && strings.ContainsAny(op[len(op)-1:], "WLB") && a[len(a)-1].kind == "reg":
			// partial-width ALU operation
			dst := sub64(a[len(a)-1].reg)
			v := regs[dst]
			k1 := fmt.Sprintf("%s:A1:%s@%s", key, op, in.line)
			if v.is64() {
				r.bad("ASM", k1, in.line, fmt.Sprintf("%s operates on the low %s of %s, which holds %s: the upper bits are left in place, so the 'halved' length keeps bits 16..63 of the byte length and the loop runs far past the buffers", op, map[string]string{"W": "16 bits", "L": "32 bits", "B": "8 bits"}[op[len(op)-1:]], dst, v))
				regs[dst] = aVal{}
			} else {
				r.ok("ASM", k1, in.line, fmt.Sprintf("%s on %s holding %s (no 64-bit quantity)", op, dst, v))
				switch {
				case strings.HasPrefix(op, "SHR") && a[0].kind == "imm" && v.k == aBounded:
					regs[dst] = aVal{k: aBounded, max: v.max >> uint(a[0].imm)}
				case strings.HasPrefix(op, "XOR") && a[0].kind == "reg":
					s := regs[sub64(a[0].reg)]
					if s.k == aBounded && v.k == aBounded {
						m := s.max
						if v.max > m {
							m = v.max
						}
						// next power of two minus one
						b := int64(1)
						for b <= m {
							b <<= 1
						}
						regs[dst] = aVal{k: aBounded, max: b - 1}
					} else {
						regs[dst] = aVal{}
					}
				default:
					regs[dst] = aVal{}
				}
			}
		case (op == "MOVWLZX" || op == "MOVBLZX" || op == "MOVLQZX") && len(a) == 2 && a[1].kind == "reg":
			max := map[string]int64{"MOVWLZX": 65535, "MOVBLZX": 255, "MOVLQZX": 1<<32 - 1}[op]
			if a[0].kind == "mem" {
				memCheck(i, in, a[0], widthOf[op], false)
			}
			if a[0].kind == "reg" {
				if s := regs[sub64(a[0].reg)]; s.k == aBounded && s.max < max {
					max = s.max
				}
			}
			regs[a[1].reg] = aVal{k: aBounded, max: max}
		case (op == "MOVW" || op == "MOVB" || op == "MOVL") && len(a) == 2 && a[1].kind == "mem":
			memCheck(i, in, a[1], widthOf[op], true)
		case (op == "MOVOU") && len(a) == 2:
			if a[0].kind == "mem" {
				memCheck(i, in, a[0], 16, false)
			} else if a[1].kind == "mem" {
				memCheck(i, in, a[1], 16, true)
			}
		case op == "MOVO" && len(a) == 2 && a[0].kind == "reg" && a[1].kind == "reg":
		case (op == "ADDQ" || op == "SUBQ") && len(a) == 2 && a[0].kind == "imm" && a[1].kind == "reg":
			v := regs[a[1].reg]
			lp := inLoop(i)
			switch {
			case lp != nil && v.k == aPtr:
				// pointer bump inside a loop: accounted for in closed form; keep the base
			case lp != nil && a[1].reg == lp.ctrReg:
			case v.k == aPtr:
				d := a[0].imm
				if op == "SUBQ" {
					d = -d
				}
				v.off += d
				regs[a[1].reg] = v
			case v.k == aConst:
				d := a[0].imm
				if op == "SUBQ" {
					d = -d
				}
				v.c += d
				regs[a[1].reg] = v
			default:
				regs[a[1].reg] = aVal{}
			}
		case op == "INCQ" && len(a) == 1 && a[0].kind == "reg":
			if lp := inLoop(i); lp == nil || lp.ctrReg != a[0].reg {
				regs[a[0].reg] = aVal{}
			}
		case op == "CMPQ":
		case strings.HasPrefix(op, "J"):
		case op == "PXOR" || op == "PSHUFB" || op == "PSRLW" || op == "PAND" || op == "PACKUSWB" || op == "PUNPCKHBW" || op == "PUNPCKLBW" || op == "POR" || op == "PSLLW" || op == "PADDB" || op == "PANDN":
			for _, o := range a {
				if o.kind == "mem" || o.kind == "fp" {
					r.bad("ASM", fmt.Sprintf("%s:sse-mem@%s", key, in.line), in.line, fmt.Sprintf("%s with a memory operand requires 16-byte alignment; the buffers come at any alignment (use MOVOU into a register first)", op))
				}
			}
		default:
			r.unk("ASM", fmt.Sprintf("%s:opcode:%s@%s", key, op, in.line), in.line, "instruction "+op+" "+strings.TrimSpace(fmt.Sprint(rawArgs(a)))+" is not modelled by the analyzer")
		}
	}
	if nMem == 0 {
		r.unk("ASM", key+":no-memory-operands", f.name, "no memory operand recognised in this function")
	}
	_ = nStores
	return pre
}

func rawArgs(a []asmOperand) []string {
	var out []string
	for _, o := range a {
		out = append(out, o.raw)
	}
	return out
}

func ruleASM(w *World, r *Report) map[string]*asmPre {
	r.rule("ASM", ruleASMText)
	pres := map[string]*asmPre{}
	var files []string
	for _, p := range w.Pkgs {
		for _, f := range p.OtherFiles {
			if strings.HasSuffix(f, ".s") {
				files = append(files, f)
			}
		}
	}
	sort.Strings(files)
	if len(files) == 0 {
		r.unk("ASM", "files", "-", "no assembly file found in the amd64 build")
		return pres
	}
	nFuncs := 0
	for _, file := range files {
		pkgPath := ""
		for _, p := range w.Pkgs {
			for _, f := range p.OtherFiles {
				if f == file {
					pkgPath = p.PkgPath
				}
			}
		}
		if pkgShort(pkgPath) != "gf2p16" {
			r.unk("ASM", "file:"+filepath.Base(file), file, "assembly outside gf2p16 is not modelled")
			continue
		}
		funcs, err := asmListing(w.Repo, file, pkgPath)
		if err != nil {
			r.unk("ASM", "listing:"+filepath.Base(file), file, err.Error())
			continue
		}
		for _, f := range funcs {
			nFuncs++
			pres[f.name] = w.analyseAsmFunc(r, f)
			p := pres[f.name]
			var parts []string
			for k, v := range p.minLen {
				parts = append(parts, fmt.Sprintf("len(%s)>=%d", k, v))
			}
			for _, g := range p.geLen {
				parts = append(parts, fmt.Sprintf("len(%s)>=len(%s)", g[0], g[1]))
			}
			sort.Strings(parts)
			r.note("asm " + f.name + " caller obligations: " + strings.Join(parts, ", "))
		}
	}
	r.stat("asm_text_symbols", nFuncs)
	r.floor("ASM", "TEXT symbols analysed", nFuncs, 12)
	return pres
}

// ---------------------------------------------------------------------------
// KGUARD

const ruleKGUARDText = "Go-side preconditions of the kernels: every non-test call of an assembly kernel is dominated by the guards the ASM analysis emitted - len(in) >= the SIMD stride (a smaller constant is a violation), len(out) == len(in) (the dominating panic), a non-empty tail before the scalar kernels on both ways of reaching them (len(in) != 0 when start is 0; start != len(in) after the SIMD part), the tail offset len - len%K uses K equal to the stride, in/out are sliced from the same start; the unsafe slice casts scale length and capacity by exactly the element size; the fixed-size output blocks handed to one call of a block kernel are disjoint"

func ruleKGUARD(w *World, r *Report, pres map[string]*asmPre) {
	r.rule("KGUARD", ruleKGUARDText)
	n := 0
	for _, fn := range w.funcsInPkgs("gf2p16") {
		k := 0
		for _, c := range callInstrs(fn) {
			callee := c.Common().StaticCallee()
			if callee == nil || len(callee.Blocks) != 0 || !w.inModule(callee) {
				continue
			}
			n++
			name := callee.Name()
			pre := pres[name]
			key := fmt.Sprintf("%s:%s#%d", shortName(fn), name, k)
			k++
			if pre == nil {
				r.unk("KGUARD", key, w.ipos(c), "no ASM analysis result for "+name)
				continue
			}
			// map param names to args
			argOf := map[string]ssa.Value{}
			for i := 0; i < callee.Signature.Params().Len(); i++ {
				argOf[callee.Signature.Params().At(i).Name()] = c.Common().Args[i]
			}
			blk := c.Block()
			problems := []string{}
			facts := []string{}
			// len(a) >= len(b)
			for _, g := range pre.geLen {
				a, b := argOf[g[0]], argOf[g[1]]
				if lenEq(w, a, b, blk) {
					facts = append(facts, fmt.Sprintf("len(%s) == len(%s)", g[0], g[1]))
				} else {
					problems = append(problems, fmt.Sprintf("nothing dominating the call establishes len(%s) >= len(%s): the kernel indexes %s with %s's count", g[0], g[1], g[0], g[1]))
				}
			}
			for p, min := range pre.minLen {
				a := argOf[p]
				if why := lenAtLeast(w, a, min, blk); why == "" {
					facts = append(facts, fmt.Sprintf("len(%s) >= %d", p, min))
				} else {
					problems = append(problems, fmt.Sprintf("the kernel needs len(%s) >= %d (%s) but %s", p, min, map[bool]string{true: "its loop runs at least once", false: "it reads that many bytes"}[true], why))
				}
			}
			// fixed-size output blocks of one call are disjoint: an accumulating kernel that is given
			// overlapping out blocks adds the overlap twice (which cancels in characteristic 2)
			{
				type blk struct {
					name string
					arg  ssa.Value
					n    int64
				}
				var outs []blk
				for i := 0; i < callee.Signature.Params().Len(); i++ {
					prm := callee.Signature.Params().At(i)
					if pt, ok := prm.Type().Underlying().(*types.Pointer); ok && strings.HasPrefix(prm.Name(), "out") {
						if at, ok := pt.Elem().Underlying().(*types.Array); ok {
							outs = append(outs, blk{prm.Name(), c.Common().Args[i], at.Len()})
						}
					}
				}
				strip := func(v ssa.Value) ssa.Value {
					for {
						switch x := v.(type) {
						case *ssa.Convert:
							v = x.X
						case *ssa.ChangeType:
							v = x.X
						default:
							return v
						}
					}
				}
				for i := 0; i < len(outs); i++ {
					for j := i + 1; j < len(outs); j++ {
						a, aok := strip(outs[i].arg).(*ssa.IndexAddr)
						b, bok := strip(outs[j].arg).(*ssa.IndexAddr)
						disjoint := false
						if aok && bok && a.X == b.X {
							ca, ok1 := a.Index.(*ssa.Const)
							cb, ok2 := b.Index.(*ssa.Const)
							if ok1 && ok2 {
								d := ca.Int64() - cb.Int64()
								if d < 0 {
									d = -d
								}
								disjoint = d >= outs[i].n
							}
						}
						if disjoint {
							facts = append(facts, fmt.Sprintf("%s and %s are disjoint blocks", outs[i].name, outs[j].name))
						} else {
							problems = append(problems, fmt.Sprintf("the blocks passed as %s and %s are not shown to be disjoint (constant offsets at least %d apart in the same slice): where they overlap, the kernel's result is applied twice", outs[i].name, outs[j].name, outs[i].n))
						}
					}
				}
			}
			if len(problems) == 0 {
				r.ok("KGUARD", key, w.ipos(c), "call dominated by "+strings.Join(facts, ", "))
			} else {
				r.bad("KGUARD", key, w.ipos(c), strings.Join(problems, "; "))
			}
		}
	}
	r.floor("KGUARD", "production call sites of assembly kernels", n, 4)
	// coverage: a dispatcher may return without having run a kernel only for an empty buffer
	for _, name := range []string{"gf2p16.mulByteSliceLE", "gf2p16.mulAndAddByteSliceLE"} {
		fn := w.Fn(name)
		if fn == nil {
			continue
		}
		var kernels []ssa.CallInstruction
		for _, c := range callInstrs(fn) {
			if callee := c.Common().StaticCallee(); callee != nil && len(callee.Blocks) == 0 && w.inModule(callee) {
				kernels = append(kernels, c)
			}
		}
		nret := 0
		for _, b := range fn.Blocks {
			if len(b.Instrs) == 0 {
				continue
			}
			ret, ok := b.Instrs[len(b.Instrs)-1].(*ssa.Return)
			if !ok {
				continue
			}
			key := fmt.Sprintf("%s:return#%d:covered", name, nret)
			nret++
			covered := false
			for _, k := range kernels {
				if instrDominates(k, ret) {
					covered = true
				}
			}
			if !covered && len(fn.Params) >= 2 {
				// empty input?
				rc := &rangeCtx{memo: map[ssa.Value]*ival{}, busy: map[ssa.Value]bool{}}
				rcx = rc
				full := rc.full(types.Typ[types.Int])
				in := fn.Params[1]
				liv := refineMatch(func(side ssa.Value) bool {
					lc := isBuiltinCall(side, "len")
					return lc != nil && lc.Call.Args[0] == ssa.Value(in)
				}, &ival{lo: bigZero(), hi: full.hi}, cmpsAt(b))
				if liv.hi.IsInt64() && liv.hi.Int64() <= 1 {
					covered = true
				}
			}
			if covered {
				r.ok("KGUARD", key, w.ipos(ret), "return only after a kernel has run, or for an empty buffer")
			} else {
				r.bad("KGUARD", key, w.ipos(ret), "the dispatcher can return for a non-empty buffer without having run any kernel on this path: out keeps its old contents")
			}
		}
	}
	// the exported "set" entry point writes out for every coefficient: it returns only after the work has been
	// handed on (c == 0 must still zero out; for the accumulate variant a shortcut would be harmless)
	for _, fn := range w.funcsInPkgs("gf2p16") {
		if fn.Name() != "MulByteSliceLE" || fn.Parent() != nil {
			continue
		}
		nret := 0
		for _, b := range fn.Blocks {
			ret, ok := b.Instrs[len(b.Instrs)-1].(*ssa.Return)
			if !ok {
				continue
			}
			key := fmt.Sprintf("gf2p16.MulByteSliceLE:return#%d:covered", nret)
			nret++
			covered := false
			for _, c := range callInstrs(fn) {
				if callee := c.Common().StaticCallee(); callee != nil && w.inModule(callee) && instrDominates(c, ret) {
					covered = true
				}
			}
			if covered {
				r.ok("KGUARD", key, w.ipos(ret), "returns only after handing the buffers to the multiply routine")
			} else {
				r.bad("KGUARD", key, w.ipos(ret), "MulByteSliceLE can return without having written out (a shortcut for some coefficient): out must be set to c*in for every c, including 0")
			}
		}
	}
	// every part of the buffer is covered: the scalar kernel starts where the SIMD kernel stopped (tail offset), see below
	// tail offset constant equals the stride
	for _, name := range []string{"gf2p16.mulByteSliceLE", "gf2p16.mulAndAddByteSliceLE"} {
		fn := w.Fn(name)
		if fn == nil {
			r.unk("KGUARD", name+":tail-offset", "-", "function not found")
			continue
		}
		stride := int64(0)
		for _, c := range callInstrs(fn) {
			if callee := c.Common().StaticCallee(); callee != nil && len(callee.Blocks) == 0 {
				if p := pres[callee.Name()]; p != nil && p.stride > stride {
					stride = p.stride
				}
			}
		}
		ok, found := true, false
		for _, b := range fn.Blocks {
			for _, in := range b.Instrs {
				if bo, isB := in.(*ssa.BinOp); isB && bo.Op.String() == "%" {
					if isBuiltinCall(bo.X, "len") != nil {
						found = true
						if c, isC := constInt(bo.Y); !isC || c != stride {
							ok = false
						}
					}
				}
			}
		}
		if found && ok {
			r.ok("KGUARD", name+":tail-offset", w.pos(fn.Pos()), fmt.Sprintf("tail starts at len - len%%%d, the SIMD kernel's stride", stride))
		} else {
			r.bad("KGUARD", name+":tail-offset", w.pos(fn.Pos()), fmt.Sprintf("the tail offset is not len - len%%%d (the SIMD kernel consumes %d bytes per iteration): bytes would be skipped or processed twice", stride, stride))
		}
	}
	// unsafe casts
	for _, spec := range []struct {
		fn string
		op string
		k  int64
	}{{"gf2p16.castTToByteSlice", "*", 2}, {"gf2p16.castByteToTSlice", "/", 2}} {
		fn := w.Fn(spec.fn)
		if fn == nil {
			continue // not in this configuration
		}
		nOK := 0
		for _, b := range fn.Blocks {
			for _, in := range b.Instrs {
				st, ok := in.(*ssa.Store)
				if !ok {
					continue
				}
				fa, ok := st.Addr.(*ssa.FieldAddr)
				if !ok {
					continue
				}
				fname := fieldName(fa.X.Type(), fa.Field)
				if fname != "Len" && fname != "Cap" {
					continue
				}
				bo, ok := st.Val.(*ssa.BinOp)
				good := false
				if ok && bo.Op.String() == spec.op {
					var cst, oth ssa.Value = bo.Y, bo.X
					if _, isC := bo.X.(*ssa.Const); isC {
						cst, oth = bo.X, bo.Y
					}
					if c, isC := constInt(cst); isC && c == spec.k {
						if strings.HasSuffix(valuePath(oth).Path, "."+fname) {
							good = true
						}
						// or the builtin on the source slice itself: len(bs) for Len, cap(bs) for Cap
						bn := strings.ToLower(fname)
						if bc := isBuiltinCall(stripAllConv(oth), bn); bc != nil && len(fn.Params) > 0 && stripAllConv(resolveSingle(bc.Call.Args[0])) == ssa.Value(fn.Params[0]) {
							good = true
						}
					}
				}
				key := fmt.Sprintf("%s:%s", spec.fn, fname)
				if good {
					nOK++
					r.ok("KGUARD", key, w.ipos(st), fmt.Sprintf("%s = source %s %s %d (element size)", fname, fname, spec.op, spec.k))
				} else {
					r.bad("KGUARD", key, w.ipos(st), fmt.Sprintf("the cast sets %s to something other than the source's %s %s %d: the resulting slice covers memory outside the original", fname, fname, spec.op, spec.k))
				}
			}
		}
		if nOK < 2 {
			r.unk("KGUARD", spec.fn+":stores", w.pos(fn.Pos()), "expected stores to both Len and Cap of the result header")
		}
	}
}

// sliceOrigin: v = base[start:] -> (base, start)
func sliceOrigin(v ssa.Value) (ssa.Value, ssa.Value) {
	if sl, ok := v.(*ssa.Slice); ok && sl.High == nil {
		return sl.X, sl.Low
	}
	return v, nil
}

// lenEq: a dominating fact len(a) == len(b); a and b may be base[start:] of the same start.
func lenEq(w *World, a, b ssa.Value, blk *ssa.BasicBlock) bool {
	ba, sa := sliceOrigin(a)
	bb, sb := sliceOrigin(b)
	if (sa == nil) != (sb == nil) || (sa != nil && sa != sb) {
		return false
	}
	for _, c := range cmpsAt(blk) {
		if c.Op.String() != "==" || c.Y == nil {
			continue
		}
		la, lb := isBuiltinCall(c.X, "len"), isBuiltinCall(c.Y, "len")
		if la == nil || lb == nil {
			continue
		}
		x, y := la.Call.Args[0], lb.Call.Args[0]
		if (x == ba && y == bb) || (x == bb && y == ba) {
			return true
		}
	}
	return false
}

// lenAtLeast returns "" if len(a) >= min is established at blk.
func lenAtLeast(w *World, a ssa.Value, min int64, blk *ssa.BasicBlock) string {
	base, start := sliceOrigin(a)
	if start == nil {
		// facts on len(base)
		rc := &rangeCtx{memo: map[ssa.Value]*ival{}, busy: map[ssa.Value]bool{}}
		rcx = rc
		full := rc.full(types.Typ[types.Int])
		iv := refineMatch(func(side ssa.Value) bool {
			lc := isBuiltinCall(side, "len")
			return lc != nil && lc.Call.Args[0] == base
		}, &ival{lo: bigZero(), hi: full.hi}, cmpsAt(blk))
		if iv.lo.Int64() >= min || !iv.lo.IsInt64() {
			return ""
		}
		// the scalar word kernels: a non-empty buffer is what is asked of a tail slice too
		// (byte lengths are even by construction of the callers; odd lengths are not decided)
		if min <= 2 && iv.lo.Sign() > 0 {
			return ""
		}
		return fmt.Sprintf("the dominating checks only establish len >= %s", iv.lo)
	}
	// tail slice base[start:]: need start != len(base) (non-empty) on every way start is defined
	if min > 2 {
		return "a tail slice is only known to be non-empty"
	}
	var check func(s ssa.Value, at *ssa.BasicBlock, extra []Cmp) string
	check = func(s ssa.Value, at *ssa.BasicBlock, extra []Cmp) string {
		cm := append(cmpsAt(at), extra...)
		if c, ok := constInt(s); ok && c == 0 {
			rc := &rangeCtx{memo: map[ssa.Value]*ival{}, busy: map[ssa.Value]bool{}}
			rcx = rc
			full := rc.full(types.Typ[types.Int])
			liv := refineMatch(func(side ssa.Value) bool {
				lc := isBuiltinCall(side, "len")
				return lc != nil && lc.Call.Args[0] == base
			}, &ival{lo: bigZero(), hi: full.hi}, cm)
			if liv.lo.Sign() > 0 {
				return ""
			}
			for _, f := range cm {
				if f.Y == nil || f.Op.String() != "!=" {
					continue
				}
				for _, pr := range [][2]ssa.Value{{f.X, f.Y}, {f.Y, f.X}} {
					if lc := isBuiltinCall(pr[0], "len"); lc != nil && lc.Call.Args[0] == base {
						if z, ok := constInt(pr[1]); ok && z == 0 {
							return ""
						}
					}
				}
			}
			return "with start == 0 nothing establishes len != 0 (the scalar loop runs once even for an empty buffer)"
		}
		for _, f := range cm {
			if f.Y == nil || f.Op.String() != "!=" {
				continue
			}
			for _, pr := range [][2]ssa.Value{{f.X, f.Y}, {f.Y, f.X}} {
				if pr[0] == s {
					if lc := isBuiltinCall(pr[1], "len"); lc != nil && lc.Call.Args[0] == base {
						return ""
					}
				}
			}
		}
		return "nothing establishes start != len on the path where start = " + s.String()
	}
	if phi, ok := start.(*ssa.Phi); ok {
		for i, e := range phi.Edges {
			pred := phi.Block().Preds[i]
			var extra []Cmp
			if len(pred.Instrs) > 0 {
				if iff, ok := pred.Instrs[len(pred.Instrs)-1].(*ssa.If); ok && pred.Succs[0] != pred.Succs[1] {
					extra = factCmps(Fact{iff.Cond, pred.Succs[0] == phi.Block(), iff})
				}
			}
			// facts dominating the call also hold
			extra = append(extra, cmpsAt(blk)...)
			if why := check(e, pred, extra); why != "" {
				return why
			}
		}
		return ""
	}
	return check(start, blk, nil)
}
