package main

import (
	"embed"
	"regexp"
	"sync"

	"golang.org/x/tools/go/ssa"
)

// The rules name the functions they are anchored in ("(*par2.Decoder).Repair",
// "par2.readFile", ...). When a maintainer extracts part of such a function into a
// new helper, the construct a rule looks for moves into the helper. A rule's
// *region* is therefore the anchor function, its function literals, and the
// unexported functions of the same package that it calls (transitively, to a small
// depth) - except functions that are anchors themselves: a rule about LoadParityData
// must not wander into readFile, which has rules of its own.

//go:embed *.go
var checkerSource embed.FS

var (
	anchorOnce sync.Once
	anchorSet  map[string]bool
)

func anchorNames() map[string]bool {
	anchorOnce.Do(func() {
		anchorSet = map[string]bool{}
		re := regexp.MustCompile(`"(\(\*?[a-z0-9/]+\.[A-Za-z0-9_]+\)\.[A-Za-z0-9_]+|[a-z0-9/]+\.[A-Za-z_][A-Za-z0-9_]*)"`)
		ents, _ := checkerSource.ReadDir(".")
		for _, e := range ents {
			if e.Name() == "region.go" {
				continue
			}
			b, err := checkerSource.ReadFile(e.Name())
			if err != nil {
				continue
			}
			for _, m := range re.FindAllSubmatch(b, -1) {
				anchorSet[string(m[1])] = true
			}
		}
	})
	return anchorSet
}

// region returns fn, its function literals and its private helpers (see above).
func region(fn *ssa.Function) []*ssa.Function {
	if fn == nil {
		return nil
	}
	anchors := anchorNames()
	seen := map[*ssa.Function]bool{}
	var out []*ssa.Function
	var add func(f *ssa.Function, depth int)
	add = func(f *ssa.Function, depth int) {
		if f == nil || seen[f] || len(f.Blocks) == 0 {
			return
		}
		seen[f] = true
		out = append(out, f)
		for _, a := range f.AnonFuncs {
			add(a, depth)
		}
		if depth >= 3 {
			return
		}
		for _, c := range callInstrs(f) {
			g := c.Common().StaticCallee()
			if g == nil || g.Pkg == nil || fn.Pkg == nil || g.Pkg != fn.Pkg || g.Parent() != nil {
				continue
			}
			if g.Object() != nil && g.Object().Exported() {
				continue
			}
			if anchors[shortName(g)] {
				continue
			}
			add(g, depth+1)
		}
	}
	add(fn, 0)
	return out
}

// helperOf reports whether g is part of fn's region (fn itself included).
func inRegion(fn, g *ssa.Function) bool {
	for _, f := range region(fn) {
		if f == g {
			return true
		}
	}
	return false
}

// ---------------------------------------------------------------------------
// looking through a private helper that has exactly one call site

var callSiteIndex map[*World]map[*ssa.Function][]ssa.CallInstruction

// callSites returns the static call sites of fn in the module (go and defer included).
func (w *World) callSites(fn *ssa.Function) []ssa.CallInstruction {
	if callSiteIndex == nil {
		callSiteIndex = map[*World]map[*ssa.Function][]ssa.CallInstruction{}
	}
	idx := callSiteIndex[w]
	if idx == nil {
		idx = map[*ssa.Function][]ssa.CallInstruction{}
		for _, g := range w.Funcs {
			for _, f := range withAnon(g) {
				for _, c := range callInstrs(f) {
					if callee := c.Common().StaticCallee(); callee != nil {
						idx[callee] = append(idx[callee], c)
					}
				}
			}
		}
		callSiteIndex[w] = idx
	}
	return idx[fn]
}

// uniqueSite returns the only call site of an unexported function, or nil.
func (w *World) uniqueSite(fn *ssa.Function) ssa.CallInstruction {
	if fn == nil || fn.Parent() != nil || (fn.Object() != nil && fn.Object().Exported()) {
		return nil
	}
	cs := w.callSites(fn)
	if len(cs) != 1 {
		return nil
	}
	return cs[0]
}

// up replaces a parameter of a single-call-site private function by the argument passed for
// it, repeatedly, looking through value-preserving conversions: values are then comparable
// across the helper boundary as if the helper had been written inline.
func (w *World) up(v ssa.Value) ssa.Value {
	for i := 0; i < 6; i++ {
		v = stripConv(v)
		p, ok := v.(*ssa.Parameter)
		if !ok {
			return v
		}
		site := w.uniqueSite(p.Parent())
		if site == nil {
			return v
		}
		idx := -1
		for j, q := range p.Parent().Params {
			if q == p {
				idx = j
			}
		}
		if idx < 0 || idx >= len(site.Common().Args) {
			return v
		}
		v = site.Common().Args[idx]
	}
	return v
}

// factsAt: the comparisons that hold at an instruction - those dominating its block and, if
// its function is a single-call-site private helper, those that hold at the call.
func (w *World) factsAt(in ssa.Instruction) []Cmp {
	out := cmpsAt(in.Block())
	fn := in.Parent()
	for i := 0; i < 4 && fn != nil; i++ {
		site := w.uniqueSite(fn)
		if site == nil {
			break
		}
		out = append(out, cmpsAt(site.Block())...)
		fn = site.Parent()
	}
	return out
}
