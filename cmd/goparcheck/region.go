package main

import (
	"embed"
	"regexp"
	"sync"

	"golang.org/x/tools/go/ssa"
)

// The rules name the functions they are anchored in ("(*par2.Decoder).Repair",
// "par2.readFile", ...). When a maintainer extracts part of such a function into a
// new helper, the construct a rule looks for moves into the helper. A rule's
// *region* is therefore the anchor function, its function literals, and the
// unexported functions of the same package that it calls (transitively, to a small
// depth) - except functions that are anchors themselves: a rule about LoadParityData
// must not wander into readFile, which has rules of its own.

//go:embed *.go
var checkerSource embed.FS

var (
	anchorOnce sync.Once
	anchorSet  map[string]bool
)

func anchorNames() map[string]bool {
	anchorOnce.Do(func() {
		anchorSet = map[string]bool{}
		re := regexp.MustCompile(`"(\(\*?[a-z0-9/]+\.[A-Za-z0-9_]+\)\.[A-Za-z0-9_]+|[a-z0-9/]+\.[A-Za-z_][A-Za-z0-9_]*)"`)
		ents, _ := checkerSource.ReadDir(".")
		for _, e := range ents {
			if e.Name() == "region.go" {
				continue
			}
			b, err := checkerSource.ReadFile(e.Name())
			if err != nil {
				continue
			}
			for _, m := range re.FindAllSubmatch(b, -1) {
				anchorSet[string(m[1])] = true
			}
		}
	})
	return anchorSet
}

// region returns fn, its function literals and its private helpers (see above).
func region(fn *ssa.Function) []*ssa.Function {
	if fn == nil {
		return nil
	}
	anchors := anchorNames()
	seen := map[*ssa.Function]bool{}
	var out []*ssa.Function
	var add func(f *ssa.Function, depth int)
	add = func(f *ssa.Function, depth int) {
		if f == nil || seen[f] || len(f.Blocks) == 0 {
			return
		}
		seen[f] = true
		out = append(out, f)
		for _, a := range f.AnonFuncs {
			add(a, depth)
		}
		if depth >= 3 {
			return
		}
		for _, c := range callInstrs(f) {
			g := c.Common().StaticCallee()
			if g == nil || g.Pkg == nil || fn.Pkg == nil || g.Pkg != fn.Pkg || g.Parent() != nil {
				continue
			}
			if g.Object() != nil && g.Object().Exported() {
				continue
			}
			if anchors[shortName(g)] {
				continue
			}
			add(g, depth+1)
		}
	}
	add(fn, 0)
	return out
}

// helperOf reports whether g is part of fn's region (fn itself included).
func inRegion(fn, g *ssa.Function) bool {
	for _, f := range region(fn) {
		if f == g {
			return true
		}
	}
	return false
}
