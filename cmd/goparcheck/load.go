package main

import (
	"fmt"
	"go/token"
	"go/types"
	"os"
	"path/filepath"
	"sort"
	"strings"

	"golang.org/x/tools/go/callgraph"
	"golang.org/x/tools/go/callgraph/cha"
	"golang.org/x/tools/go/callgraph/vta"
	"golang.org/x/tools/go/packages"
	"golang.org/x/tools/go/ssa"
	"golang.org/x/tools/go/ssa/ssautil"
)

const modPath = "github.com/akalin/gopar"

// World is one loaded build configuration of the repository: type-checked
// packages, SSA form and call graph.
type World struct {
	Repo   string
	GOARCH string

	Fset    *token.FileSet
	Pkgs    []*packages.Package // module packages only
	AllPkgs map[string]*packages.Package
	Prog    *ssa.Program
	SSA     map[string]*ssa.Package // by import path (module packages)
	CG      *callgraph.Graph
	CHA     *callgraph.Graph

	// every source-level function of the module (incl. anonymous), sorted
	Funcs []*ssa.Function
	// by short name
	funcByName map[string]*ssa.Function

	sizes types.Sizes
}

// loadWorld loads /repo/... for the given GOARCH. Tests are excluded. Any
// load or type error is fatal (exit 2): a tree that does not build is not a
// verdict.
func loadWorld(repo, goarch string, needCG bool) (*World, error) {
	env := []string{}
	for _, e := range os.Environ() {
		if strings.HasPrefix(e, "GOFLAGS=") || strings.HasPrefix(e, "GOWORK=") || strings.HasPrefix(e, "GOARCH=") || strings.HasPrefix(e, "GOOS=") || strings.HasPrefix(e, "GOPROXY=") || strings.HasPrefix(e, "GOSUMDB=") || strings.HasPrefix(e, "GOTOOLCHAIN=") {
			continue
		}
		env = append(env, e)
	}
	env = append(env, "GOFLAGS=-mod=readonly", "GOWORK=off", "GOARCH="+goarch, "GOOS=linux", "GOPROXY=off", "GOSUMDB=off", "GOTOOLCHAIN=local", "CGO_ENABLED=0")
	cfg := &packages.Config{
		Mode:  packages.LoadAllSyntax,
		Dir:   repo,
		Env:   env,
		Tests: false,
	}
	initial, err := packages.Load(cfg, "./...")
	if err != nil {
		return nil, fmt.Errorf("load: %v", err)
	}
	if len(initial) < 8 {
		return nil, fmt.Errorf("load: only %d module packages found (want >= 8)", len(initial))
	}
	var errs []string
	packages.Visit(initial, nil, func(p *packages.Package) {
		for _, e := range p.Errors {
			errs = append(errs, e.Error())
		}
	})
	if len(errs) > 0 {
		return nil, fmt.Errorf("load: %d package errors, first: %s", len(errs), errs[0])
	}
	w := &World{Repo: repo, GOARCH: goarch, AllPkgs: map[string]*packages.Package{}, SSA: map[string]*ssa.Package{}, funcByName: map[string]*ssa.Function{}}
	packages.Visit(initial, nil, func(p *packages.Package) { w.AllPkgs[p.PkgPath] = p })
	sort.Slice(initial, func(i, j int) bool { return initial[i].PkgPath < initial[j].PkgPath })
	w.Pkgs = initial
	w.Fset = initial[0].Fset
	w.sizes = types.SizesFor("gc", goarch)

	prog, _ := ssautil.AllPackages(initial, ssa.BuilderMode(0))
	prog.Build()
	w.Prog = prog
	for _, p := range initial {
		sp := prog.Package(p.Types)
		if sp == nil {
			return nil, fmt.Errorf("no SSA package for %s", p.PkgPath)
		}
		w.SSA[p.PkgPath] = sp
	}
	// collect module functions
	all := ssautil.AllFunctions(prog)
	for fn := range all {
		if fn.Pkg == nil && fn.Parent() == nil {
			// wrappers / synthetic without package: attribute by receiver below
		}
		if w.inModule(fn) && fn.Blocks != nil && fn.Synthetic == "" {
			w.Funcs = append(w.Funcs, fn)
		}
	}
	sort.Slice(w.Funcs, func(i, j int) bool { return w.Funcs[i].String() < w.Funcs[j].String() })
	for _, fn := range w.Funcs {
		w.funcByName[shortName(fn)] = fn
	}
	if needCG {
		w.CHA = cha.CallGraph(prog)
		w.CG = vta.CallGraph(all, w.CHA)
	}
	return w, nil
}

func (w *World) inModule(fn *ssa.Function) bool {
	p := fn.Package()
	if p == nil {
		// anonymous function or wrapper
		if fn.Parent() != nil {
			return w.inModule(fn.Parent())
		}
		if fn.Object() != nil && fn.Object().Pkg() != nil {
			return isModPath(fn.Object().Pkg().Path())
		}
		return false
	}
	return isModPath(p.Pkg.Path())
}

func isModPath(p string) bool {
	return p == modPath || strings.HasPrefix(p, modPath+"/")
}

// isLibPath reports the library packages whose behaviour the properties are about.
func pkgShort(path string) string {
	return strings.TrimPrefix(strings.TrimPrefix(path, modPath), "/")
}

// shortName is the stable, line-independent name of a function:
// "par2.(*Decoder).Repair", "par2.repair", "par1.(*Decoder).LoadFileData$1".
func shortName(fn *ssa.Function) string {
	s := fn.String()
	s = strings.ReplaceAll(s, modPath+"/", "")
	return s
}

// Fn returns the module function with the given short name or nil.
func (w *World) Fn(name string) *ssa.Function { return w.funcByName[name] }

func (w *World) fnPkg(fn *ssa.Function) string {
	for fn.Parent() != nil {
		fn = fn.Parent()
	}
	if fn.Pkg != nil {
		return pkgShort(fn.Pkg.Pkg.Path())
	}
	if fn.Object() != nil && fn.Object().Pkg() != nil {
		return pkgShort(fn.Object().Pkg().Path())
	}
	return ""
}

// pos renders a position relative to the repository root.
func (w *World) pos(p token.Pos) string {
	if !p.IsValid() {
		return "-"
	}
	pp := w.Fset.Position(p)
	rel, err := filepath.Rel(w.Repo, pp.Filename)
	if err != nil || strings.HasPrefix(rel, "..") {
		rel = pp.Filename
	}
	return fmt.Sprintf("%s:%d", rel, pp.Line)
}

// instrPos finds the best position for an instruction (some have NoPos).
func (w *World) ipos(in ssa.Instruction) string {
	if in == nil {
		return "-"
	}
	if p := in.Pos(); p.IsValid() {
		return w.pos(p)
	}
	// fall back: nearest instruction in the block with a position
	b := in.Block()
	if b != nil {
		for _, o := range b.Instrs {
			if o.Pos().IsValid() {
				return w.pos(o.Pos()) + "~"
			}
		}
		if b.Parent() != nil {
			return w.pos(b.Parent().Pos()) + "~"
		}
	}
	return "-"
}

// funcsInPkgs returns module functions (incl. closures) in the given short package names.
func (w *World) funcsInPkgs(pkgs ...string) []*ssa.Function {
	set := map[string]bool{}
	for _, p := range pkgs {
		set[p] = true
	}
	var out []*ssa.Function
	for _, fn := range w.Funcs {
		if set[w.fnPkg(fn)] {
			out = append(out, fn)
		}
	}
	return out
}
