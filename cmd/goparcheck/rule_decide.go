package main

import (
	"fmt"
	"go/token"
	"go/types"
	"strings"

	"golang.org/x/tools/go/ssa"
)

// ---------------------------------------------------------------------------
// DECIDE: decision-table equivalence of the verdict functions.

const ruleDECIDEText = "decision-table equivalence: the verdict predicates touch their inputs only through comparisons, so they are evaluated inside the analyzer (abstract interpretation of the SSA with concrete field values) over the grid counts in {0,1,2}^n and compared with the table the property states (needed <=> unusable data > 0 [par2: or a wrong file with all slices found]; possible <=> usable parity >= unusable data; all usable <=> no unusable data and no unusable parity); processRepairChecker maps (needed, possible) to 0/1/2; the counting loops increment the usable counter exactly on the '!= nil' edge of the element they range over and the unusable one on the '== nil' edge"

// concrete mini-interpreter for loop-free functions over ints/bools/structs.
type cval struct {
	isBool   bool
	b        bool
	i        int64
	fields   map[string]cval // struct
	isStruct bool
}

type cinterp struct {
	fn     *ssa.Function
	params map[*ssa.Parameter]cval
	invoke func(method string) (cval, bool)
	mem    map[ssa.Value]cval // Alloc contents
	vals   map[ssa.Value]cval
	err    string
}

func (ci *cinterp) get(v ssa.Value) cval {
	if c, ok := v.(*ssa.Const); ok {
		if b, ok := constBool(c); ok {
			return cval{isBool: true, b: b}
		}
		if i, ok := constInt(c); ok {
			return cval{i: i}
		}
		if s, ok := constString(c); ok {
			_ = s
			return cval{}
		}
		ci.err = "unsupported constant " + c.String()
		return cval{}
	}
	if p, ok := v.(*ssa.Parameter); ok {
		return ci.params[p]
	}
	if x, ok := ci.vals[v]; ok {
		return x
	}
	ci.err = "value not computed: " + v.Name() + " = " + v.String()
	return cval{}
}

func (ci *cinterp) run() (cval, bool) {
	ci.mem = map[ssa.Value]cval{}
	ci.vals = map[ssa.Value]cval{}
	b := ci.fn.Blocks[0]
	var prev *ssa.BasicBlock
	steps := 0
	for {
		steps++
		if steps > 200 {
			ci.err = "too many steps (loop?)"
			return cval{}, false
		}
		var next *ssa.BasicBlock
		for _, in := range b.Instrs {
			if ci.err != "" {
				return cval{}, false
			}
			switch x := in.(type) {
			case *ssa.Phi:
				for pi, p := range b.Preds {
					if p == prev {
						ci.vals[x] = ci.get(x.Edges[pi])
					}
				}
			case *ssa.Alloc:
				ci.mem[x] = cval{isStruct: true, fields: map[string]cval{}}
			case *ssa.Store:
				switch a := x.Addr.(type) {
				case *ssa.Alloc:
					ci.mem[a] = ci.get(x.Val)
				case *ssa.FieldAddr:
					if al, ok := a.X.(*ssa.Alloc); ok {
						m := ci.mem[al]
						if m.fields == nil {
							m = cval{isStruct: true, fields: map[string]cval{}}
						}
						m.fields[fieldName(a.X.Type(), a.Field)] = ci.get(x.Val)
						ci.mem[al] = m
					} else {
						ci.err = "store through unsupported address"
					}
				default:
					ci.err = "store through unsupported address"
				}
			case *ssa.FieldAddr:
				// handled at load
			case *ssa.UnOp:
				switch x.Op {
				case token.MUL:
					switch a := x.X.(type) {
					case *ssa.Alloc:
						ci.vals[x] = ci.mem[a]
					case *ssa.FieldAddr:
						var base cval
						if al, ok := a.X.(*ssa.Alloc); ok {
							base = ci.mem[al]
						} else {
							ci.err = "load through unsupported address"
						}
						ci.vals[x] = base.fields[fieldName(a.X.Type(), a.Field)]
					default:
						ci.err = "load through unsupported address"
					}
				case token.NOT:
					v := ci.get(x.X)
					ci.vals[x] = cval{isBool: true, b: !v.b}
				default:
					ci.err = "unsupported unary op " + x.Op.String()
				}
			case *ssa.Field:
				base := ci.get(x.X)
				ci.vals[x] = base.fields[fieldName(x.X.Type(), x.Field)]
			case *ssa.BinOp:
				a, c := ci.get(x.X), ci.get(x.Y)
				switch x.Op {
				case token.ADD:
					ci.vals[x] = cval{i: a.i + c.i}
				case token.SUB:
					ci.vals[x] = cval{i: a.i - c.i}
				case token.EQL:
					if a.isBool {
						ci.vals[x] = cval{isBool: true, b: a.b == c.b}
					} else {
						ci.vals[x] = cval{isBool: true, b: a.i == c.i}
					}
				case token.NEQ:
					if a.isBool {
						ci.vals[x] = cval{isBool: true, b: a.b != c.b}
					} else {
						ci.vals[x] = cval{isBool: true, b: a.i != c.i}
					}
				case token.LSS:
					ci.vals[x] = cval{isBool: true, b: a.i < c.i}
				case token.LEQ:
					ci.vals[x] = cval{isBool: true, b: a.i <= c.i}
				case token.GTR:
					ci.vals[x] = cval{isBool: true, b: a.i > c.i}
				case token.GEQ:
					ci.vals[x] = cval{isBool: true, b: a.i >= c.i}
				default:
					ci.err = "unsupported binary op " + x.Op.String()
				}
			case *ssa.Call:
				if x.Call.IsInvoke() && ci.invoke != nil {
					if v, ok := ci.invoke(x.Call.Method.Name()); ok {
						ci.vals[x] = v
						continue
					}
				}
				if f := x.Call.StaticCallee(); f != nil && strings.HasPrefix(f.String(), "fmt.Print") {
					continue
				}
				ci.err = "unsupported call " + x.String()
			case *ssa.MakeInterface, *ssa.Slice, *ssa.IndexAddr, *ssa.ChangeType:
				// only feeding fmt.Print*: ignore
			case *ssa.DebugRef:
			case *ssa.If:
				c := ci.get(x.Cond)
				if c.b {
					next = b.Succs[0]
				} else {
					next = b.Succs[1]
				}
			case *ssa.Jump:
				next = b.Succs[0]
			case *ssa.Return:
				if len(x.Results) != 1 {
					ci.err = "unexpected result count"
					return cval{}, false
				}
				v := ci.get(x.Results[0])
				return v, ci.err == ""
			default:
				ci.err = fmt.Sprintf("unsupported instruction %T", in)
			}
		}
		if ci.err != "" || next == nil {
			if ci.err == "" {
				ci.err = "fell off block"
			}
			return cval{}, false
		}
		prev, b = b, next
	}
}

type predicateSpec struct {
	fn     string
	fields []string
	want   func(f map[string]int64) bool
	text   string
}

var predicateSpecs = []predicateSpec{
	{"(par2.ShardCounts).RepairNeeded", []string{"UsableDataShardCount", "UnusableDataShardCount", "MisplacedDataFileCount", "UsableParityShardCount", "UnusableParityShardCount"},
		func(f map[string]int64) bool {
			return f["UnusableDataShardCount"] > 0 || f["MisplacedDataFileCount"] > 0
		},
		"needed <=> UnusableDataShardCount > 0 || MisplacedDataFileCount > 0"},
	{"(par2.ShardCounts).RepairPossible", []string{"UsableDataShardCount", "UnusableDataShardCount", "MisplacedDataFileCount", "UsableParityShardCount", "UnusableParityShardCount"},
		func(f map[string]int64) bool { return f["UsableParityShardCount"] >= f["UnusableDataShardCount"] },
		"possible <=> UsableParityShardCount >= UnusableDataShardCount"},
	{"(par1.FileCounts).RepairNeeded", []string{"UsableDataFileCount", "UnusableDataFileCount", "UsableParityFileCount", "UnusableParityFileCount"},
		func(f map[string]int64) bool { return f["UnusableDataFileCount"] > 0 },
		"needed <=> UnusableDataFileCount > 0"},
	{"(par1.FileCounts).RepairPossible", []string{"UsableDataFileCount", "UnusableDataFileCount", "UsableParityFileCount", "UnusableParityFileCount"},
		func(f map[string]int64) bool { return f["UsableParityFileCount"] >= f["UnusableDataFileCount"] },
		"possible <=> UsableParityFileCount >= UnusableDataFileCount"},
	{"(par1.FileCounts).AllFilesUsable", []string{"UsableDataFileCount", "UnusableDataFileCount", "UsableParityFileCount", "UnusableParityFileCount"},
		func(f map[string]int64) bool {
			return f["UnusableDataFileCount"] == 0 && f["UnusableParityFileCount"] == 0
		},
		"all usable <=> UnusableDataFileCount == 0 && UnusableParityFileCount == 0"},
}

func structFieldNames(t types.Type) []string {
	var out []string
	if s, ok := t.Underlying().(*types.Struct); ok {
		for i := 0; i < s.NumFields(); i++ {
			out = append(out, s.Field(i).Name())
		}
	}
	return out
}

func ruleDECIDEPredicates(w *World, r *Report, pkgs map[string]bool) {
	r.rule("DECIDE", ruleDECIDEText)
	n := 0
	for _, ps := range predicateSpecs {
		pkg := "par1"
		if strings.Contains(ps.fn, "par2.") {
			pkg = "par2"
		}
		if !pkgs[pkg] {
			continue
		}
		fn := w.Fn(ps.fn)
		if fn == nil || len(fn.Params) != 1 {
			r.unk("DECIDE", ps.fn, "-", "predicate not found")
			continue
		}
		n++
		actual := structFieldNames(fn.Params[0].Type())
		// the grid ranges over the struct's actual int fields; spec fields missing from the struct are undecided
		have := map[string]bool{}
		for _, f := range actual {
			have[f] = true
		}
		missing := ""
		for _, f := range ps.fields {
			if !have[f] {
				missing = f
			}
		}
		if missing != "" {
			r.unk("DECIDE", ps.fn, w.pos(fn.Pos()), "the counts struct has no field "+missing+" named by the specification table")
			continue
		}
		total := 1
		for range actual {
			total *= 3
		}
		bad := ""
		evals := 0
		for code := 0; code < total && bad == ""; code++ {
			vals := map[string]int64{}
			fields := map[string]cval{}
			c := code
			for _, f := range actual {
				vals[f] = int64(c % 3)
				fields[f] = cval{i: int64(c % 3)}
				c /= 3
			}
			ci := &cinterp{fn: fn, params: map[*ssa.Parameter]cval{fn.Params[0]: {isStruct: true, fields: fields}}}
			got, ok := ci.run()
			evals++
			if !ok {
				r.unk("DECIDE", ps.fn, w.pos(fn.Pos()), "cannot evaluate the predicate: "+ci.err)
				bad = "-"
				break
			}
			if got.b != ps.want(vals) {
				bad = fmt.Sprintf("for %v the predicate returns %v but the table (%s) says %v", vals, got.b, ps.text, ps.want(vals))
			}
		}
		r.stat("decide_evaluations", evals)
		if bad == "" {
			r.ok("DECIDE", ps.fn, w.pos(fn.Pos()), fmt.Sprintf("agrees with '%s' on all %d grid points", ps.text, total))
		} else if bad != "-" {
			r.bad("DECIDE", ps.fn, w.pos(fn.Pos()), bad)
		}
	}
	want := 0
	for _, ps := range predicateSpecs {
		pkg := "par1"
		if strings.Contains(ps.fn, "par2.") {
			pkg = "par2"
		}
		if pkgs[pkg] {
			want++
		}
	}
	r.floor("DECIDE", "verdict predicates", n, want)
}

func ruleDECIDEChecker(w *World, r *Report) {
	r.rule("DECIDE", ruleDECIDEText)
	fn := w.Fn("cmd/par.processRepairChecker")
	if fn == nil {
		r.unk("DECIDE", "cmd/par.processRepairChecker", "-", "not found")
		return
	}
	table := map[[2]bool]int64{{false, false}: 0, {false, true}: 0, {true, true}: 1, {true, false}: 2}
	bad := ""
	for k, want := range table {
		k := k
		ci := &cinterp{fn: fn, params: map[*ssa.Parameter]cval{}, invoke: func(m string) (cval, bool) {
			switch m {
			case "RepairNeeded":
				return cval{isBool: true, b: k[0]}, true
			case "RepairPossible":
				return cval{isBool: true, b: k[1]}, true
			}
			return cval{}, false
		}}
		got, ok := ci.run()
		if !ok {
			r.unk("DECIDE", "cmd/par.processRepairChecker", w.pos(fn.Pos()), "cannot evaluate: "+ci.err)
			return
		}
		if got.i != want {
			bad = fmt.Sprintf("needed=%v possible=%v yields exit status %d, the property requires %d", k[0], k[1], got.i, want)
		}
	}
	if bad != "" {
		r.bad("DECIDE", "cmd/par.processRepairChecker", w.pos(fn.Pos()), bad)
	} else {
		r.ok("DECIDE", "cmd/par.processRepairChecker", w.pos(fn.Pos()), "(needed,possible) -> {(F,*):0, (T,T):1, (T,F):2} on all 4 combinations")
	}
}

// ---------------------------------------------------------------------------
// counting loops

// deepPath resolves an access path through local copies: an Alloc that is
// assigned exactly once as a whole is replaced by the path of the assigned value.
func deepPath(v ssa.Value) accessPath {
	p := valuePath(v)
	for depth := 0; depth < 6; depth++ {
		al, ok := p.Root.(*ssa.Alloc)
		if !ok {
			break
		}
		var whole []ssa.Value
		for _, ref := range referrersOf(al) {
			if st, ok := ref.(*ssa.Store); ok && st.Addr == ssa.Value(al) {
				whole = append(whole, st.Val)
			}
		}
		if len(whole) != 1 {
			break
		}
		q := valuePath(whole[0])
		q.Path += p.Path
		p = q
	}
	return p
}

// throughCountingHelper follows a counter that is computed by a module helper
// (`usable, unusable := countParityShards(d.parityShards)`): it returns the value
// the helper returns in that position and a mapping from access paths rooted at the
// helper's parameters to paths in the caller.
func throughCountingHelper(w *World, val ssa.Value) (ssa.Value, func(accessPath) accessPath) {
	mapPath := func(p accessPath) accessPath { return p }
	for depth := 0; depth < 3; depth++ {
		idx := 0
		var call *ssa.Call
		switch x := val.(type) {
		case *ssa.Extract:
			call, _ = x.Tuple.(*ssa.Call)
			idx = x.Index
		case *ssa.Call:
			call = x
		}
		if call == nil {
			break
		}
		g := call.Call.StaticCallee()
		if g == nil || len(g.Blocks) == 0 || g.Pkg == nil || !isModPath(g.Pkg.Pkg.Path()) {
			break
		}
		var rets []ssa.Value
		for _, b := range g.Blocks {
			if ret, ok := b.Instrs[len(b.Instrs)-1].(*ssa.Return); ok && idx < len(ret.Results) {
				dup := false
				for _, v := range rets {
					if v == ret.Results[idx] {
						dup = true
					}
				}
				if !dup {
					rets = append(rets, ret.Results[idx])
				}
			}
		}
		if len(rets) != 1 {
			break
		}
		outer := mapPath
		args := call.Call.Args
		params := g.Params
		mapPath = func(p accessPath) accessPath {
			for j, prm := range params {
				if p.Root == ssa.Value(prm) && j < len(args) {
					q := deepPath(args[j])
					q.Path += p.Path
					return outer(q)
				}
			}
			return outer(p)
		}
		val = rets[0]
	}
	return val, mapPath
}

type countSpec struct {
	fn     string
	field  string
	op     token.Token // NEQ: element != nil ; EQL: element == nil
	suffix string      // access path suffix of the tested element
}

var countSpecs = []countSpec{
	{"(*par1.Decoder).FileCounts", "UsableDataFileCount", token.NEQ, ".fileData[*]"},
	{"(*par1.Decoder).FileCounts", "UnusableDataFileCount", token.EQL, ".fileData[*]"},
	{"(*par1.Decoder).FileCounts", "UsableParityFileCount", token.NEQ, ".parityData[*]"},
	{"(*par1.Decoder).FileCounts", "UnusableParityFileCount", token.EQL, ".parityData[*]"},
	{"(*par2.Decoder).ShardCounts", "UsableDataShardCount", token.NEQ, ".fileIntegrityInfos[*].shardInfos[*].data"},
	{"(*par2.Decoder).ShardCounts", "UnusableDataShardCount", token.EQL, ".fileIntegrityInfos[*].shardInfos[*].data"},
	{"(*par2.Decoder).ShardCounts", "UsableParityShardCount", token.NEQ, ".parityShards[*]"},
	{"(*par2.Decoder).ShardCounts", "UnusableParityShardCount", token.EQL, ".parityShards[*]"},
}

// incPathMap: for an increment found inside a counting helper, the mapping from the helper's
// access paths to the caller's.
var incPathMap = map[*ssa.BinOp]func(accessPath) accessPath{}

// incComplement: the increment belongs to a counter k used as len(xs) - k; the value is xs.
var incComplement = map[*ssa.BinOp]ssa.Value{}

// helperCount: v is result #k of a call of a module function with a single value returned in that
// position; returns that value and the parameter-to-argument path mapping.
func helperCount(v ssa.Value) (ssa.Value, func(accessPath) accessPath, bool) {
	switch v.(type) {
	case *ssa.Extract, *ssa.Call:
	default:
		return nil, nil, false
	}
	if c, ok := v.(*ssa.Call); ok {
		if _, isB := c.Call.Value.(*ssa.Builtin); isB {
			return nil, nil, false
		}
	}
	hv, mp := throughCountingHelper(nil, v)
	if hv == v {
		return nil, nil, false
	}
	return hv, mp, true
}

// incrementsOf collects the "+1" operations in the phi web feeding v.
func incrementsOf(v ssa.Value) (incs []*ssa.BinOp, other []ssa.Value) {
	seen := map[ssa.Value]bool{}
	var walk func(v ssa.Value)
	walk = func(v ssa.Value) {
		if seen[v] {
			return
		}
		seen[v] = true
		switch x := v.(type) {
		case *ssa.Phi:
			for _, e := range x.Edges {
				walk(e)
			}
		case *ssa.BinOp:
			if x.Op == token.ADD {
				if c, ok := constInt(x.Y); ok && c == 1 {
					incs = append(incs, x)
					walk(x.X)
					return
				}
				// total += k, with k an inner counter (a per-file tally added to the total)
				for _, pr := range [][2]ssa.Value{{x.X, x.Y}, {x.Y, x.X}} {
					ip, ok := pr[1].(*ssa.Phi)
					if !ok || seen[ip] {
						continue
					}
					// the inner web must not contain this addition (that would be the total itself)
					inner := map[ssa.Value]bool{}
					var reach func(v ssa.Value) bool
					reach = func(v ssa.Value) bool {
						if v == ssa.Value(x) {
							return true
						}
						if inner[v] {
							return false
						}
						inner[v] = true
						switch y := v.(type) {
						case *ssa.Phi:
							for _, e := range y.Edges {
								if reach(e) {
									return true
								}
							}
						case *ssa.BinOp:
							return reach(y.X) || reach(y.Y)
						}
						return false
					}
					if reach(ip) {
						continue
					}
					kincs, kother := incrementsOf(ip)
					if len(kother) == 0 && len(kincs) > 0 {
						incs = append(incs, kincs...)
						walk(pr[0])
						return
					}
				}
				// total += len(xs) - k, with k a counter over xs: the complement, counted per batch
				for _, pr := range [][2]ssa.Value{{x.X, x.Y}, {x.Y, x.X}} {
					sb, ok := pr[1].(*ssa.BinOp)
					if !ok || sb.Op != token.SUB {
						continue
					}
					lc := isBuiltinCall(stripAllConv(sb.X), "len")
					if lc == nil {
						continue
					}
					cincs, cother := incrementsOf(sb.Y)
					if len(cother) == 0 && len(cincs) > 0 {
						for _, ci := range cincs {
							incComplement[ci] = lc.Call.Args[0]
						}
						incs = append(incs, cincs...)
						walk(pr[0])
						return
					}
				}
				// total += helper(...): the helper's own count, with its parameters mapped to the arguments
				for _, pr := range [][2]ssa.Value{{x.X, x.Y}, {x.Y, x.X}} {
					if hv, mp, ok := helperCount(pr[1]); ok {
						hincs, hother := incrementsOf(hv)
						if len(hother) == 0 && len(hincs) > 0 {
							for _, hi := range hincs {
								outer := incPathMap[hi]
								mp2 := mp
								if outer != nil {
									o := outer
									mp2 = func(p accessPath) accessPath { return mp(o(p)) }
								}
								incPathMap[hi] = mp2
							}
							incs = append(incs, hincs...)
							walk(pr[0])
							return
						}
					}
				}
			}
			other = append(other, v)
		case *ssa.Const:
			if c, ok := constInt(x); !ok || c != 0 {
				other = append(other, v)
			}
		case *ssa.UnOp:
			// a counter kept in a field of a local struct (`var counts ShardCounts; counts.X++`):
			// its value is the zero value plus whatever is stored into that field
			if x.Op == token.MUL {
				if fa, ok := x.X.(*ssa.FieldAddr); ok {
					if al, ok := fa.X.(*ssa.Alloc); ok {
						for _, ref := range referrersOf(al) {
							fa2, ok := ref.(*ssa.FieldAddr)
							if !ok || fa2.Field != fa.Field {
								if st, isSt := ref.(*ssa.Store); isSt && st.Addr == ssa.Value(al) {
									other = append(other, st.Val) // whole-struct assignment
								}
								continue
							}
							for _, r2 := range referrersOf(fa2) {
								if st, ok := r2.(*ssa.Store); ok && st.Addr == ssa.Value(fa2) {
									walk(st.Val)
								}
							}
						}
						return
					}
				}
			}
			other = append(other, v)
		default:
			other = append(other, v)
		}
	}
	walk(v)
	return
}

func ruleDECIDECounts(w *World, r *Report, pkgs map[string]bool) {
	r.rule("DECIDE", ruleDECIDEText)
	n := 0
	for _, cs := range countSpecs {
		pkg := "par1"
		if strings.Contains(cs.fn, "par2.") {
			pkg = "par2"
		}
		if !pkgs[pkg] {
			continue
		}
		fn := w.Fn(cs.fn)
		key := cs.fn + ":" + cs.field
		if fn == nil {
			r.unk("DECIDE", key, "-", "function not found")
			continue
		}
		// value stored into the result's field
		var val ssa.Value
		for _, b := range fn.Blocks {
			for _, in := range b.Instrs {
				if st, ok := in.(*ssa.Store); ok {
					if fa, ok := st.Addr.(*ssa.FieldAddr); ok && fieldName(fa.X.Type(), fa.Field) == cs.field {
						val = st.Val
					}
				}
			}
		}
		if val == nil {
			r.unk("DECIDE", key, w.pos(fn.Pos()), "no store into result field "+cs.field)
			continue
		}
		n++
		incComplement = map[*ssa.BinOp]ssa.Value{}
		incPathMap = map[*ssa.BinOp]func(accessPath) accessPath{}
		val, mapPath := throughCountingHelper(w, val)
		wantOp := cs.op
		// `unusable := len(d.fileData) - usable`: the complement within the very slice the other counter ranges over
		if sb, ok := val.(*ssa.BinOp); ok && sb.Op == token.SUB {
			if lc := isBuiltinCall(stripAllConv(sb.X), "len"); lc != nil {
				lp := mapPath(deepPath(lc.Call.Args[0]))
				if isReceiver(fn, lp.Root) && lp.Path+"[*]" == cs.suffix {
					val = sb.Y
					wantOp = negate(cs.op)
					v2, mp2 := throughCountingHelper(w, val)
					if v2 != val {
						val = v2
						outer := mapPath
						mapPath = func(p accessPath) accessPath { return outer(mp2(p)) }
					}
				}
			}
		}
		incs, other := incrementsOf(val)
		if len(other) > 0 {
			r.bad("DECIDE", key, w.pos(fn.Pos()), fmt.Sprintf("%s is not a pure counter (0 plus increments): it also depends on %s", cs.field, other[0].String()))
			continue
		}
		if len(incs) != 1 {
			r.bad("DECIDE", key, w.pos(fn.Pos()), fmt.Sprintf("%s has %d increment sites, expected exactly one", cs.field, len(incs)))
			continue
		}
		inc := incs[0]
		if xs, isComp := incComplement[inc]; isComp {
			// counted as the complement within xs: xs must be the slice whose elements the suffix names
			lp := deepPath(xs)
			if mp := incPathMap[inc]; mp != nil {
				lp = mp(lp)
			}
			lp = mapPath(lp)
			if isReceiver(fn, lp.Root) && strings.HasPrefix(cs.suffix, lp.Path+"[*]") {
				wantOp = negate(wantOp)
			} else {
				r.bad("DECIDE", key, w.ipos(inc), fmt.Sprintf("%s is computed as a length minus a count, but the length is not that of the slice whose elements are counted (d%s)", cs.field, cs.suffix))
				continue
			}
		}
		found := false
		desc := ""
		for _, c := range cmpsAt(inc.Block()) {
			if c.Y == nil || !(isNilConst(c.X) || isNilConst(c.Y)) {
				continue
			}
			el := c.X
			if isNilConst(el) {
				el = c.Y
			}
			p := deepPath(el)
			if mp := incPathMap[inc]; mp != nil {
				p = mp(p)
			}
			p = mapPath(p)
			if isReceiver(fn, p.Root) && p.Path == cs.suffix {
				desc = fmt.Sprintf("d%s %s nil", p.Path, c.Op)
				if c.Op == wantOp {
					found = true
				}
			}
		}
		opText := map[token.Token]string{token.NEQ: "!=", token.EQL: "=="}[cs.op]
		if found {
			r.ok("DECIDE", key, w.ipos(inc), fmt.Sprintf("incremented exactly where d%s %s nil holds", cs.suffix, opText))
		} else if desc != "" {
			r.bad("DECIDE", key, w.ipos(inc), fmt.Sprintf("%s is incremented where %s holds, the property needs d%s %s nil", cs.field, desc, cs.suffix, opText))
		} else {
			r.bad("DECIDE", key, w.ipos(inc), fmt.Sprintf("the increment of %s is not guarded by a nil test of d%s", cs.field, cs.suffix))
		}
	}
	// par2: the misplaced-file counter must be guarded by !info.ok(...)
	if pkgs["par2"] {
		fn := w.Fn("(*par2.Decoder).ShardCounts")
		key := "(*par2.Decoder).ShardCounts:MisplacedDataFileCount"
		if fn != nil {
			var val ssa.Value
			for _, b := range fn.Blocks {
				for _, in := range b.Instrs {
					if st, ok := in.(*ssa.Store); ok {
						if fa, ok := st.Addr.(*ssa.FieldAddr); ok && fieldName(fa.X.Type(), fa.Field) == "MisplacedDataFileCount" {
							val = st.Val
						}
					}
				}
			}
			if val == nil {
				r.unk("DECIDE", key, w.pos(fn.Pos()), "no store into MisplacedDataFileCount")
			} else {
				n++
				incs, other := incrementsOf(val)
				okc := len(other) == 0 && len(incs) == 1
				if okc {
					okc = false
					for _, c := range cmpsAt(incs[0].Block()) {
						if c.Op == token.EQL && c.Y == nil && callOf(c.X, "(par2.fileIntegrityInfo).ok") != nil {
							okc = true
						}
					}
				}
				if okc {
					r.ok("DECIDE", key, w.ipos(incs[0]), "counted exactly for files where (fileIntegrityInfo).ok is false (and all slices were found)")
				} else {
					r.bad("DECIDE", key, w.pos(fn.Pos()), "MisplacedDataFileCount is not incremented under !info.ok(...): per-file damage that leaves every slice findable would not make Verify report that repair is needed")
				}
			}
		}
	}
	want := 0
	for _, cs := range countSpecs {
		if pkgs["par1"] && strings.Contains(cs.fn, "par1.") || pkgs["par2"] && strings.Contains(cs.fn, "par2.") {
			want++
		}
	}
	if pkgs["par2"] {
		want++
	}
	r.floor("DECIDE", "counter fields", n, want)
}
