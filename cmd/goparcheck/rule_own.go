package main

import (
	"fmt"
	"go/token"
	"go/types"
	"sort"
	"strings"

	"golang.org/x/tools/go/ssa"
)

// ---------------------------------------------------------------------------
// OWN: which parameters a function can write through, and at what depth.
//
// A "source" is a parameter (index >= 0) or a free variable (index -1-k) of a
// function. Values derived from a source carry a level: the source's own
// header is level 0; the address of an element of a level-L slice/pointer is a
// location at level L+1; loading it yields a level-(L+1) value. A store to a
// level-d location is a "write at depth d" through the source.

const ruleOWNText = "parameter mutability, computed bottom-up over the module (stores, copy, binary.Read, assembly kernels by their out* parameters, result-aliases-argument summaries incl. the unsafe slice casts, closures through their captured cells): the exported surface must match this table - gf2p16.Mul*ByteSliceLE(c, in, out): in never written, out written at byte depth only; rsec16.Coder.GenerateParity(data): data never written; ReconstructData(data, parity): parity never written, data written at most at depth 1 (nil rows replaced) and never at byte depth; every exported gf2p16.Matrix constructor and method: receiver, matrix and slice arguments never written"

type srcKey struct {
	idx   int // param index, or -1-k for free var k
	level int
}

type ownSummary struct {
	writes  map[int]map[int]bool // source idx -> depths written
	returns map[srcKey]bool      // (source idx, level) that a result may alias
	escapes map[int]bool         // source stored to non-local memory (unknown)
}

type ownAnalysis struct {
	w   *World
	sum map[*ssa.Function]*ownSummary
}

func isRefType(t types.Type) bool {
	switch u := t.Underlying().(type) {
	case *types.Slice, *types.Pointer, *types.Map, *types.Chan, *types.Signature, *types.Interface:
		return true
	case *types.Struct:
		for i := 0; i < u.NumFields(); i++ {
			if isRefType(u.Field(i).Type()) {
				return true
			}
		}
	case *types.Array:
		return isRefType(u.Elem())
	}
	return false
}

func (oa *ownAnalysis) get(fn *ssa.Function) *ownSummary {
	if s, ok := oa.sum[fn]; ok {
		return s
	}
	s := &ownSummary{writes: map[int]map[int]bool{}, returns: map[srcKey]bool{}, escapes: map[int]bool{}}
	oa.sum[fn] = s
	return s
}

func (s *ownSummary) addWrite(idx, depth int) bool {
	if depth > 4 {
		depth = 4
	}
	if s.writes[idx] == nil {
		s.writes[idx] = map[int]bool{}
	}
	if s.writes[idx][depth] {
		return false
	}
	s.writes[idx][depth] = true
	return true
}

// asmWrites: assembly function: parameters whose name starts with "out" are written (cross-checked by ASM A3).
func asmParamWritten(fn *ssa.Function, i int) bool {
	if i < len(fn.Params) {
		return strings.HasPrefix(fn.Params[i].Name(), "out")
	}
	if fn.Signature != nil && i < fn.Signature.Params().Len() {
		return strings.HasPrefix(fn.Signature.Params().At(i).Name(), "out")
	}
	return false
}

func usesUnsafe(fn *ssa.Function) bool {
	for _, b := range fn.Blocks {
		for _, in := range b.Instrs {
			if cv, ok := in.(*ssa.Convert); ok {
				if bt, ok := cv.Type().Underlying().(*types.Basic); ok && bt.Kind() == types.UnsafePointer {
					return true
				}
			}
		}
	}
	return false
}

// analyse runs one pass over fn, returns whether its summary grew.
func (oa *ownAnalysis) analyse(fn *ssa.Function) bool {
	s := oa.get(fn)
	changed := false
	// derived: value -> set of srcKey
	der := map[ssa.Value]map[srcKey]bool{}
	add := func(v ssa.Value, k srcKey) bool {
		if k.level > 4 {
			k.level = 4
		}
		if der[v] == nil {
			der[v] = map[srcKey]bool{}
		}
		if der[v][k] {
			return false
		}
		der[v][k] = true
		return true
	}
	for i, p := range fn.Params {
		if isRefType(p.Type()) {
			add(p, srcKey{i, 0})
		}
	}
	for k, fv := range fn.FreeVars {
		// a free variable is the address of the captured cell: the cell's content is level 0
		add(fv, srcKey{-1 - k, -1})
	}
	unsafeAlias := usesUnsafe(fn)
	// fresh containers (local arrays, slices of them, append results built from nil/make):
	// cont[v] = keys of the values stored in v's own (fresh) backing memory
	cont := map[ssa.Value]map[srcKey]bool{}
	contAddr := map[ssa.Value]ssa.Value{} // element address -> container
	contAdd := func(v ssa.Value, k srcKey) bool {
		if cont[v] == nil {
			cont[v] = map[srcKey]bool{}
		}
		if cont[v][k] {
			return false
		}
		cont[v][k] = true
		return true
	}
	// memory cells (Alloc and address chains rooted at Alloc): content keys
	mem := map[ssa.Value]map[srcKey]bool{}
	memAdd := func(a ssa.Value, k srcKey) bool {
		if mem[a] == nil {
			mem[a] = map[srcKey]bool{}
		}
		if mem[a][k] {
			return false
		}
		mem[a][k] = true
		return true
	}
	allocRoot := func(addr ssa.Value) *ssa.Alloc {
		for {
			switch x := addr.(type) {
			case *ssa.Alloc:
				return x
			case *ssa.FieldAddr:
				addr = x.X
			case *ssa.IndexAddr:
				// index into an array held in an alloc
				if _, isPtrToArr := x.X.Type().Underlying().(*types.Pointer); isPtrToArr {
					addr = x.X
				} else {
					return nil
				}
			default:
				return nil
			}
		}
	}
	for iter := 0; iter < 20; iter++ {
		grew := false
		for _, b := range fn.Blocks {
			for _, in := range b.Instrs {
				switch x := in.(type) {
				case *ssa.Phi:
					for _, e := range x.Edges {
						for k := range der[e] {
							if add(x, k) {
								grew = true
							}
						}
						for k := range cont[e] {
							if contAdd(x, k) {
								grew = true
							}
						}
					}
				case *ssa.ChangeType:
					for k := range der[x.X] {
						if add(x, k) {
							grew = true
						}
					}
				case *ssa.MakeInterface:
					for k := range der[x.X] {
						if add(x, k) {
							grew = true
						}
					}
				case *ssa.Convert:
					for k := range der[x.X] {
						if add(x, k) {
							grew = true
						}
					}
				case *ssa.Slice:
					for k := range der[x.X] {
						if add(x, k) {
							grew = true
						}
					}
					// slicing an array held in an alloc: a fresh container holding the array's content
					if al := allocRoot(x.X); al != nil {
						for k := range mem[al] {
							if contAdd(x, k) {
								grew = true
							}
						}
					}
					for k := range cont[x.X] {
						if contAdd(x, k) {
							grew = true
						}
					}
				case *ssa.Field:
					for k := range der[x.X] {
						if isRefType(x.Type()) && add(x, k) {
							grew = true
						}
					}
				case *ssa.FieldAddr:
					if allocRoot(x) == nil {
						// field of a struct reached through a pointer derived from a source
						for k := range der[x.X] {
							if add(x, srcKey{k.idx, k.level}) {
								grew = true
							}
						}
					}
				case *ssa.IndexAddr:
					if allocRoot(x) == nil {
						if _, isCont := cont[x.X]; isCont {
							contAddr[x] = x.X
						}
						for k := range der[x.X] {
							// address of an element: location at level+1; mark the address value with level (location level = level+1)
							if add(x, srcKey{k.idx, k.level}) {
								grew = true
							}
						}
					}
				case *ssa.Extract:
					// results of calls handled at the call
				case *ssa.UnOp:
					if x.Op != token.MUL {
						continue
					}
					if al := allocRoot(x.X); al != nil {
						for k := range mem[al] {
							if isRefType(x.Type()) && add(x, k) {
								grew = true
							}
						}
						continue
					}
					if c, ok := contAddr[x.X]; ok && isRefType(x.Type()) {
						for k := range cont[c] {
							if add(x, k) {
								grew = true
							}
						}
					}
					// load through a derived address
					for k := range der[x.X] {
						if !isRefType(x.Type()) {
							continue
						}
						nl := k.level + 1
						switch x.X.(type) {
						case *ssa.FieldAddr:
							nl = k.level // field of the same object level
							if k.level < 0 {
								nl = 0
							}
						case *ssa.FreeVar:
							nl = 0
						}
						if add(x, srcKey{k.idx, nl}) {
							grew = true
						}
					}
				case *ssa.Store:
					// value flow into local memory
					if al := allocRoot(x.Addr); al != nil {
						for k := range der[x.Val] {
							if memAdd(al, k) {
								grew = true
							}
						}
						continue
					}
					if c, ok := contAddr[x.Addr]; ok {
						for k := range der[x.Val] {
							if contAdd(c, k) {
								grew = true
							}
						}
					}
					// write through a derived address
					for k := range der[x.Addr] {
						depth := k.level + 1
						switch x.Addr.(type) {
						case *ssa.FieldAddr:
							depth = k.level
							if depth < 1 {
								depth = 1
							}
						case *ssa.FreeVar:
							depth = 0 // assignment to the captured variable itself
						}
						if s.addWrite(k.idx, depth) {
							changed = true
						}
					}
					// a derived value stored into non-local memory escapes
					if _, isContElem := contAddr[x.Addr]; len(der[x.Val]) > 0 && len(der[x.Addr]) == 0 && !isContElem {
						if _, isGlobal := x.Addr.(*ssa.Global); isGlobal || true {
							for k := range der[x.Val] {
								if !s.escapes[k.idx] {
									s.escapes[k.idx] = true
									changed = true
								}
							}
						}
					}
					// storing a derived value into memory reachable from another source: aliasing (data[r] = x)
				case *ssa.MapUpdate:
					for k := range der[x.Map] {
						if s.addWrite(k.idx, k.level+1) {
							changed = true
						}
					}
				case *ssa.MakeClosure:
					lit := x.Fn.(*ssa.Function)
					ls := oa.get(lit)
					for bi, bnd := range x.Bindings {
						al, _ := bnd.(*ssa.Alloc)
						keys := map[srcKey]bool{}
						if al != nil {
							for k := range mem[al] {
								keys[k] = true
							}
						}
						for k := range der[bnd] {
							keys[k] = true
						}
						for d := range ls.writes[-1-bi] {
							if d == 0 {
								continue // reassigning the captured variable is not a write through the caller's parameter
							}
							for k := range keys {
								if s.addWrite(k.idx, k.level+d) {
									changed = true
								}
							}
						}
					}
				case ssa.CallInstruction:
					cc := x.Common()
					val := x.Value()
					if bi, isB := cc.Value.(*ssa.Builtin); isB {
						switch bi.Name() {
						case "copy":
							for k := range der[cc.Args[0]] {
								if s.addWrite(k.idx, k.level+1) {
									changed = true
								}
							}
						case "append":
							if val != nil {
								for k := range der[cc.Args[0]] {
									if add(val, k) {
										grew = true
									}
									// append may write into spare capacity of the first argument
									if s.addWrite(k.idx, k.level+1) {
										changed = true
									}
								}
								if _, ok := cont[val]; !ok {
									cont[val] = map[srcKey]bool{}
								}
								for k := range cont[cc.Args[0]] {
									if contAdd(val, k) {
										grew = true
									}
								}
								if len(cc.Args) > 1 {
									for k := range cont[cc.Args[1]] {
										if contAdd(val, k) {
											grew = true
										}
									}
									// elements of a derived slice of references are copied in
									if sl, ok := cc.Args[1].Type().Underlying().(*types.Slice); ok && isRefType(sl.Elem()) {
										for k := range der[cc.Args[1]] {
											if contAdd(val, srcKey{k.idx, k.level + 1}) {
												grew = true
											}
										}
									}
								}
							}
						}
						continue
					}
					var callees []*ssa.Function
					if f := cc.StaticCallee(); f != nil {
						callees = []*ssa.Function{f}
					} else if n := oa.w.CG.Nodes[fn]; n != nil {
						for _, e := range n.Out {
							if e.Site == x && e.Callee.Func != nil {
								callees = append(callees, e.Callee.Func)
							}
						}
					}
					args := cc.Args
					if cc.IsInvoke() {
						args = append([]ssa.Value{cc.Value}, cc.Args...)
					}
					for _, callee := range callees {
						if !oa.w.inModule(callee) {
							name := callee.String()
							// std callees that write through an argument
							switch {
							case name == "encoding/binary.Read" && len(args) == 3:
								for k := range der[args[2]] {
									if s.addWrite(k.idx, k.level+1) {
										changed = true
									}
								}
							case strings.HasPrefix(name, "sort.") && len(args) >= 1:
								for k := range der[args[0]] {
									if s.addWrite(k.idx, k.level+1) {
										changed = true
									}
								}
							case strings.Contains(name, "PutUint") && len(args) >= 2:
								for k := range der[args[1]] {
									if s.addWrite(k.idx, k.level+1) {
										changed = true
									}
								}
							case name == "(*bytes.Buffer).Read" || name == "io.ReadFull":
								for _, a := range args[1:] {
									for k := range der[a] {
										if s.addWrite(k.idx, k.level+1) {
											changed = true
										}
									}
								}
							case strings.HasPrefix(name, "github.com/klauspost/reedsolomon"):
								// Encode/Reconstruct write into the shards they are given
								for _, a := range args {
									for k := range der[a] {
										if s.addWrite(k.idx, k.level+1) {
											changed = true
										}
										if s.addWrite(k.idx, k.level+2) {
											changed = true
										}
									}
								}
							}
							continue
						}
						if len(callee.Blocks) == 0 {
							// assembly
							for i, a := range args {
								if asmParamWritten(callee, i) {
									for k := range der[a] {
										d := k.level + 1
										if _, isPtr := a.Type().Underlying().(*types.Pointer); isPtr {
											d = k.level + 1
										}
										if s.addWrite(k.idx, d) {
											changed = true
										}
									}
								}
							}
							continue
						}
						cs := oa.get(callee)
						for i, a := range args {
							if i >= len(callee.Params) {
								break
							}
							// a fresh container: the callee's depth-1 writes replace its elements (harmless),
							// deeper writes go through the elements
							for k := range cont[a] {
								for d := range cs.writes[i] {
									if d >= 2 {
										if s.addWrite(k.idx, k.level+d-1) {
											changed = true
										}
									}
								}
							}
							for k := range der[a] {
								for d := range cs.writes[i] {
									if s.addWrite(k.idx, k.level+d) {
										changed = true
									}
								}
								if cs.escapes[i] && !s.escapes[k.idx] {
									s.escapes[k.idx] = true
									changed = true
								}
							}
						}
						if val != nil {
							for rk := range cs.returns {
								if rk.idx < 0 || rk.idx >= len(args) {
									continue
								}
								if rk.level >= 1 {
									for k := range cont[args[rk.idx]] {
										nk := srcKey{k.idx, k.level + rk.level - 1}
										if _, isTuple := val.Type().(*types.Tuple); !isTuple {
											if add(val, nk) {
												grew = true
											}
										}
									}
								}
								for k := range der[args[rk.idx]] {
									nk := srcKey{k.idx, k.level + rk.level}
									if val.Type() != nil {
										if _, isTuple := val.Type().(*types.Tuple); isTuple {
											for _, ref := range referrersOf(val) {
												if ex, ok := ref.(*ssa.Extract); ok && isRefType(ex.Type()) {
													if add(ex, nk) {
														grew = true
													}
												}
											}
											continue
										}
									}
									if add(val, nk) {
										grew = true
									}
								}
							}
						}
					}
				case *ssa.Return:
					for _, res := range x.Results {
						for k := range der[res] {
							if !s.returns[k] {
								s.returns[k] = true
								changed = true
							}
						}
					}
				}
			}
		}
		if !grew {
			break
		}
	}
	if unsafeAlias {
		// result aliases every reference argument (the two slice-cast helpers)
		for i, p := range fn.Params {
			if isRefType(p.Type()) {
				k := srcKey{i, 0}
				if !s.returns[k] {
					s.returns[k] = true
					changed = true
				}
			}
		}
	}
	return changed
}

func (w *World) ownSummaries() *ownAnalysis {
	oa := &ownAnalysis{w: w, sum: map[*ssa.Function]*ownSummary{}}
	for round := 0; round < 30; round++ {
		changed := false
		for _, fn := range w.Funcs {
			if oa.analyse(fn) {
				changed = true
			}
		}
		if !changed {
			break
		}
	}
	return oa
}

func depthsString(m map[int]bool) string {
	var ds []int
	for d := range m {
		ds = append(ds, d)
	}
	sort.Ints(ds)
	return fmt.Sprint(ds)
}

type ownSpec struct {
	fn      string
	param   string
	allowed map[int]bool // allowed depths (nil = none)
	need    map[int]bool // depths that must be present
}

type ownOpts struct{ kernels, coder, matrix bool }

func ruleOWN(w *World, r *Report, o ownOpts) {
	r.rule("OWN", ruleOWNText)
	oa := w.ownSummaries()
	r.stat("own_summaries", len(oa.sum))
	check := func(fnName string, paramName string, allowed map[int]bool, need map[int]bool) {
		fn := w.Fn(fnName)
		key := fnName + ":" + paramName
		if fn == nil {
			r.unk("OWN", key, "-", "function not found")
			return
		}
		idx := -1
		for i, p := range fn.Params {
			if p.Name() == paramName {
				idx = i
			}
		}
		if idx < 0 {
			r.unk("OWN", key, w.pos(fn.Pos()), "parameter not found")
			return
		}
		s := oa.get(fn)
		got := s.writes[idx]
		for d := range got {
			if !allowed[d] {
				what := "written"
				if d >= 2 && len(allowed) > 0 {
					what = "written at byte depth"
				}
				r.bad("OWN", key, w.pos(fn.Pos()), fmt.Sprintf("%s of %s is %s (write depths %s); the property requires it to stay untouched%s", paramName, fnName, what, depthsString(got), map[bool]string{true: " beyond depth " + depthsString(allowed), false: ""}[len(allowed) > 0]))
				return
			}
		}
		for d := range need {
			if !got[d] {
				r.unk("OWN", key, w.pos(fn.Pos()), fmt.Sprintf("expected %s to be written at depth %d but no write was found: the summary no longer sees the kernel's store", paramName, d))
				return
			}
		}
		if s.escapes[idx] && len(allowed) == 0 {
			r.bad("OWN", key, w.pos(fn.Pos()), paramName+" is stored into memory that outlives the call: it can be modified later")
			return
		}
		r.ok("OWN", key, w.pos(fn.Pos()), fmt.Sprintf("write depths %s (allowed %s)", depthsString(got), depthsString(allowed)))
	}
	none := map[int]bool{}
	if o.kernels {
		for _, f := range []string{"gf2p16.MulByteSliceLE", "gf2p16.MulAndAddByteSliceLE"} {
			check(f, "in", none, nil)
			check(f, "out", map[int]bool{1: true}, map[int]bool{1: true})
		}
	}
	if o.coder {
		check("(rsec16.Coder).GenerateParity", "data", none, nil)
		check("(rsec16.Coder).ReconstructData", "parity", none, nil)
		check("(rsec16.Coder).ReconstructData", "data", map[int]bool{1: true}, nil)
		check("(rsec16.Coder).GenerateParity", "c", none, nil)
		check("(rsec16.Coder).ReconstructData", "c", none, nil)
	}
	if o.coder {
		// no partial effects on error: data rows are filled in only on paths that end in success
		if fn := w.Fn("(rsec16.Coder).ReconstructData"); fn != nil && len(fn.Params) >= 2 {
			data := fn.Params[1]
			nst := 0
			for _, b := range fn.Blocks {
				for _, in := range b.Instrs {
					var st ssa.Instruction
					if s0, ok := in.(*ssa.Store); ok {
						ia, ok := s0.Addr.(*ssa.IndexAddr)
						if !ok || ia.X != ssa.Value(data) {
							continue
						}
						st = s0
					} else if ci, ok := in.(ssa.CallInstruction); ok {
						// a private helper that is handed data and stores rows into it
						g := ci.Common().StaticCallee()
						if g == nil || len(g.Blocks) == 0 || g == fn || !inRegion(fn, g) {
							continue
						}
						writes := false
						for pi, a := range ci.Common().Args {
							if a != ssa.Value(data) || pi >= len(g.Params) {
								continue
							}
							for _, gb := range g.Blocks {
								for _, gi := range gb.Instrs {
									if gs, ok := gi.(*ssa.Store); ok {
										if gia, ok := gs.Addr.(*ssa.IndexAddr); ok && gia.X == ssa.Value(g.Params[pi]) {
											writes = true
										}
									}
								}
							}
						}
						if !writes {
							continue
						}
						st = in
					} else {
						continue
					}
					nst++
					key := fmt.Sprintf("(rsec16.Coder).ReconstructData:data-store#%d:only-on-success", nst-1)
					bad := ""
					for rb := range reachableBlocks(b, nil) {
						if len(rb.Instrs) == 0 {
							continue
						}
						if ret, ok := rb.Instrs[len(rb.Instrs)-1].(*ssa.Return); ok && len(ret.Results) == 1 && !isNilConst(ret.Results[0]) {
							bad = w.ipos(ret)
						}
					}
					if bad == "" {
						r.ok("OWN", key, w.ipos(st), "rows of data are replaced only on paths that return nil")
					} else {
						r.bad("OWN", key, w.ipos(st), "a row of data is filled in before an error return at "+bad+" can still happen: after a failed reconstruction the caller's nil rows are no longer nil, so a retry sees nothing missing")
					}
				}
			}
			r.floor("OWN", "stores into rows of data in ReconstructData", nst, 1)
		}
	}
	if o.matrix {
		n := 0
		for _, fn := range w.funcsInPkgs("gf2p16") {
			if fn.Parent() != nil || fn.Object() == nil || !fn.Object().Exported() {
				continue
			}
			isMatrixFn := false
			if fn.Signature.Recv() != nil && namedTypeName(fn.Signature.Recv().Type()) == "gf2p16.Matrix" {
				isMatrixFn = true
			}
			res := fn.Signature.Results()
			for i := 0; i < res.Len(); i++ {
				if namedTypeName(res.At(i).Type()) == "gf2p16.Matrix" {
					isMatrixFn = true
				}
			}
			if !isMatrixFn {
				continue
			}
			for _, p := range fn.Params {
				if !isRefType(p.Type()) {
					continue
				}
				if _, isFunc := p.Type().Underlying().(*types.Signature); isFunc {
					continue
				}
				n++
				check(shortName(fn), p.Name(), none, nil)
			}
		}
		r.floor("OWN", "reference parameters of exported Matrix constructors/methods", n, 6)
	}
}
