package main

import (
	"fmt"
	"go/token"
	"go/types"
	"strings"

	"golang.org/x/tools/go/ssa"
)

// ---------------------------------------------------------------------------
// helpers shared by WGUARD / REPORT / SKIPOK / CREATE-PATHS

// repairWriteSites returns the fileIO.WriteFile invoke sites inside the two
// Decoder.Repair functions.
func (w *World) repairWriteSites() []ioSite {
	var out []ioSite
	for _, s := range w.fileIOSites() {
		if s.Method != "WriteFile" {
			continue
		}
		n := shortName(s.Fn)
		if n == "(*par1.Decoder).Repair" || n == "(*par2.Decoder).Repair" {
			out = append(out, s)
			continue
		}
		// the write may have been moved into a private helper that Repair calls once
		owner := w.writerOwner(s.Fn)
		if owner != "(*par1.Decoder).Repair" && owner != "(*par2.Decoder).Repair" {
			continue
		}
		if ls := w.liftWrite(s, w.Fn(owner)); ls != nil {
			s2 := s
			s2.Fn = w.Fn(owner)
			s2.Lift = ls
			out = append(out, s2)
		}
	}
	return out
}

// liftWrite expresses a WriteFile(path, data) invoke inside helper h (called exactly once, directly
// from the writer) in the writer's terms. The helper must hand the write's error back unchanged:
// every return after the write returns the write's error value, or nil where that value is known nil.
func (w *World) liftWrite(s ioSite, owner *ssa.Function) *liftedSite {
	h := s.Fn
	site := w.uniqueSite(h)
	if site == nil || owner == nil || site.Parent() != owner || len(s.Call.Common().Args) != 2 {
		return nil
	}
	wv := s.Call.Value()
	if wv == nil {
		return nil
	}
	eidx := errResultIndex(h.Signature)
	if len(eidx) != 1 {
		return nil
	}
	for _, b := range h.Blocks {
		ret, ok := b.Instrs[len(b.Instrs)-1].(*ssa.Return)
		if !ok || !instrDominates(s.Call, ret) {
			continue
		}
		ev := ret.Results[eidx[0]]
		if ev == ssa.Value(wv) {
			continue
		}
		okNil := false
		if isNilConst(ev) {
			for _, c := range cmpsAt(b) {
				if c.Op == token.EQL && c.Y != nil && ((c.X == ssa.Value(wv) && isNilConst(c.Y)) || (c.Y == ssa.Value(wv) && isNilConst(c.X))) {
					okNil = true
				}
			}
		}
		if !okNil {
			return nil
		}
	}
	ls := &liftedSite{Inner: h, At: site}
	for _, ref := range referrersOf(site.Value()) {
		if ex, ok := ref.(*ssa.Extract); ok && ex.Index == eidx[0] {
			ls.Errv = ex
		}
	}
	if h.Signature.Results().Len() == 1 {
		ls.Errv = site.Value()
	}
	argOf := func(v ssa.Value) ssa.Value {
		v = stripConv(v)
		for j, prm := range h.Params {
			if v == ssa.Value(prm) && j < len(site.Common().Args) {
				return site.Common().Args[j]
			}
		}
		return nil
	}
	ls.Data = argOf(s.Call.Common().Args[1])
	ls.Path = argOf(s.Call.Common().Args[0])
	if ls.Path == nil {
		// the path is computed in the helper: does the helper return it on success?
		inner := stripConv(s.Call.Common().Args[0])
		res := h.Signature.Results()
		for k := 0; k < res.Len(); k++ {
			all, n := true, 0
			for _, ret := range successReturns(h) {
				n++
				if k >= len(ret.Results) || stripConv(ret.Results[k]) != inner {
					all = false
				}
			}
			if all && n > 0 {
				for _, ref := range referrersOf(site.Value()) {
					if ex, ok := ref.(*ssa.Extract); ok && ex.Index == k {
						ls.Path = ex
					}
				}
			}
		}
	}
	if ls.Data == nil || ls.Errv == nil {
		return nil
	}
	return ls
}

func (w *World) encoderWriteSites() []ioSite {
	var out []ioSite
	for _, s := range w.fileIOSites() {
		n := w.writerOwner(s.Fn)
		if s.Method == "WriteFile" && (n == "(*par1.Encoder).Write" || n == "(*par2.Encoder).Write") {
			out = append(out, s)
		}
	}
	return out
}

// callOf returns v as a static call to a function whose short name has the given suffix.
func callOf(v ssa.Value, names ...string) *ssa.Call {
	c, ok := stripConv(v).(*ssa.Call)
	if !ok {
		return nil
	}
	var n string
	if f := c.Call.StaticCallee(); f != nil {
		n = f.String()
		n = strings.ReplaceAll(n, modPath+"/", "")
	}
	for _, want := range names {
		if n == want {
			return c
		}
	}
	return nil
}

// blockReturnsError reports whether block b ends in a return whose last
// (error) result is not the nil constant.
func blockReturnsError(b *ssa.BasicBlock) bool {
	if len(b.Instrs) == 0 {
		return false
	}
	ret, ok := b.Instrs[len(b.Instrs)-1].(*ssa.Return)
	if !ok || len(ret.Results) == 0 {
		return false
	}
	last := ret.Results[len(ret.Results)-1]
	if !isErrorType(last.Type()) {
		return false
	}
	return !isNilConst(last)
}

func lastField(p accessPath) string {
	s := p.Path
	if i := strings.LastIndex(s, "."); i >= 0 {
		s = s[i+1:]
	}
	return strings.ToLower(s)
}

// sameRoot reports whether two access paths are rooted at the same object.
func sameRoot(a, b accessPath) bool {
	return a.Root != nil && a.Root == b.Root
}

// hashGuard describes one dominating comparison hashfn(D) == H.
type hashGuard struct {
	fact    Fact
	hashArg ssa.Value  // D
	other   ssa.Value  // H
	path    accessPath // access path of H
	failBlk *ssa.BasicBlock
}

// findHashGuards finds dominating equality facts at block b where one side is
// a call to one of the given hash functions.
func findHashGuards(b *ssa.BasicBlock, hashFns ...string) []hashGuard {
	var out []hashGuard
	for _, f := range domFacts(b) {
		for _, c := range factCmps(f) {
			if c.Op != token.EQL || c.Y == nil {
				continue
			}
			for _, pair := range [][2]ssa.Value{{c.X, c.Y}, {c.Y, c.X}} {
				call := callOf(pair[0], hashFns...)
				if call == nil || len(call.Call.Args) != 1 {
					continue
				}
				g := hashGuard{fact: f, hashArg: stripConv(call.Call.Args[0]), other: pair[1], path: valuePath(pair[1])}
				// the mismatch edge is the one not taken
				blk := f.If.Block()
				if f.Truth {
					g.failBlk = blk.Succs[1]
				} else {
					g.failBlk = blk.Succs[0]
				}
				out = append(out, g)
			}
		}
	}
	return out
}

// sameElem: do a and b denote the same element - the same SSA value, loads of the same cell, or
// loads of the same slice element X[i]?
func sameElem(a, b ssa.Value) bool {
	a, b = stripConv(a), stripConv(b)
	if a == b {
		return true
	}
	la, ok1 := a.(*ssa.UnOp)
	lb, ok2 := b.(*ssa.UnOp)
	if !ok1 || !ok2 || la.Op != token.MUL || lb.Op != token.MUL {
		return false
	}
	if la.X == lb.X {
		return true
	}
	ia, ok1 := la.X.(*ssa.IndexAddr)
	ib, ok2 := lb.X.(*ssa.IndexAddr)
	if ok1 && ok2 && ia.Index == ib.Index {
		pa, pb := valuePath(ia.X), valuePath(ib.X)
		return pa.Root == pb.Root && pa.Path == pb.Path
	}
	return false
}

// writeGuards finds the hash comparisons that protect a write of `data` at block blk: those that
// dominate blk directly, and - when data is the result of a private helper whose success the
// write depends on - those that dominate every success return of the helper on the value it
// returns there. For the latter the compared hash field is re-rooted at the caller's argument
// (entry) so that "same entry" questions can be asked in the caller.
func (w *World) writeGuards(blk *ssa.BasicBlock, data ssa.Value, hashFns ...string) (gs []hashGuard, entry ssa.Value) {
	gs = findHashGuards(blk, hashFns...)
	var direct []hashGuard
	for _, g := range gs {
		if g.hashArg == data {
			direct = append(direct, g)
		}
	}
	if len(direct) > 0 {
		return gs, nil
	}
	idx := 0
	var hc *ssa.Call
	switch x := data.(type) {
	case *ssa.Extract:
		hc, _ = x.Tuple.(*ssa.Call)
		idx = x.Index
	case *ssa.Call:
		hc = x
	}
	if hc == nil {
		return gs, nil
	}
	g := hc.Call.StaticCallee()
	if g == nil || len(g.Blocks) == 0 || !w.inModule(g) || !instrDominatesBlock(hc, blk) {
		return gs, nil
	}
	// the write must be on the helper's success side (if it returns an error)
	if eidx := errResultIndex(g.Signature); len(eidx) > 0 {
		onSuccess := false
		for _, c := range cmpsAt(blk) {
			if c.Op != token.EQL || c.Y == nil {
				continue
			}
			for _, pr := range [][2]ssa.Value{{c.X, c.Y}, {c.Y, c.X}} {
				if ex, ok := pr[0].(*ssa.Extract); ok && ex.Tuple == ssa.Value(hc) && isNilConst(pr[1]) {
					onSuccess = true
				}
			}
		}
		if !onSuccess {
			return gs, nil
		}
	}
	rets := successReturns(g)
	if len(rets) == 0 {
		return gs, nil
	}
	var out []hashGuard
	for ri, ret := range rets {
		if idx >= len(ret.Results) {
			return gs, nil
		}
		rv := stripConv(ret.Results[idx])
		found := false
		for _, ig := range findHashGuards(ret.Block(), hashFns...) {
			if ig.hashArg != rv {
				continue
			}
			ip := deepPath(ig.other)
			for j, prm := range g.Params {
				if ip.Root == ssa.Value(prm) && j < len(hc.Call.Args) {
					ap := valuePath(hc.Call.Args[j])
					ng := ig
					ng.hashArg = data
					ng.path = accessPath{Root: ap.Root, Path: ap.Path + ip.Path}
					if ri == 0 {
						out = append(out, ng)
					}
					entry = hc.Call.Args[j]
					found = true
				}
			}
		}
		if !found {
			return gs, nil // some success return of the helper is not guarded
		}
	}
	return out, entry
}

func instrDominatesBlock(in ssa.Instruction, b *ssa.BasicBlock) bool {
	return in.Block() == b || in.Block().Dominates(b)
}

// ---------------------------------------------------------------------------
// WGUARD

const ruleWGUARDText = "hash-gated repair writes: every fileIO.WriteFile(path, data) in a Repair function is dominated by sixteenKHash(D)==H16 and md5.Sum(D)==H with D the same value as data, H16/H the hash fields of the same archive entry that path is derived from via getFilePath(entry); (with -errors) the mismatch edges lead to a return with a non-nil error"

func ruleWGUARD(w *World, r *Report, requireErrorReturn bool) {
	r.rule("WGUARD", ruleWGUARDText)
	sites := w.repairWriteSites()
	r.floor("WGUARD", "WriteFile sites in Repair functions", len(sites), 2)
	for _, s := range sites {
		args := s.Call.Common().Args
		key := s.key()
		pos := w.ipos(s.at())
		if len(args) != 2 {
			r.unk("WGUARD", key, pos, "WriteFile call does not have (path, data) arguments")
			continue
		}
		// the path as the write receives it (its derivation from the entry is looked at through a helper's
		// parameters), the data as the Repair function sees it
		pathArg, data := stripConv(args[0]), stripConv(s.dataVal())
		pkg := w.fnPkg(s.Fn)
		blk := s.at().Block()

		var entryVal ssa.Value // the caller-side value of the entry when the checks live in a helper
		check := func(kind string, fieldWant string, fns ...string) (hashGuard, bool) {
			gs, ev := w.writeGuards(blk, data, fns...)
			if ev != nil {
				entryVal = ev
			}
			if len(gs) == 0 {
				r.bad("WGUARD", key+":"+kind, pos, fmt.Sprintf("no dominating %s equality check before this write: nothing guarantees the written bytes match the archive's %s", kind, fieldWant))
				return hashGuard{}, false
			}
			// one of them must be on the written buffer
			for _, g := range gs {
				if g.hashArg == data {
					if lastField(g.path) != fieldWant {
						r.bad("WGUARD", key+":"+kind, pos, fmt.Sprintf("%s of the written buffer is compared with %s, not with the entry's %s field", kind, g.path, fieldWant))
						return g, false
					}
					r.ok("WGUARD", key+":"+kind, pos, fmt.Sprintf("write dominated by %s(%s) == %s (check at %s)", kind, data.Name(), g.path, w.ipos(g.fact.If)))
					return g, true
				}
			}
			r.bad("WGUARD", key+":"+kind, pos, fmt.Sprintf("the %s check at %s hashes %s, but the buffer written is %s: the checked buffer is not the written buffer", kind, w.ipos(gs[0].fact.If), gs[0].hashArg.Name(), data.Name()))
			return gs[0], false
		}
		g16, ok16 := check("sixteenKHash", "sixteenkhash", pkg+".sixteenKHash")
		gmd, okmd := check("md5", "hash", "crypto/md5.Sum")
		if ok16 && okmd {
			if sameRoot(g16.path, gmd.path) {
				r.ok("WGUARD", key+":same-entry", pos, "both hashes are fields of the same entry "+g16.path.Root.Name())
			} else {
				r.bad("WGUARD", key+":same-entry", pos, fmt.Sprintf("16k hash is taken from %s but MD5 from %s: not the same archive entry", g16.path, gmd.path))
			}
			// the path must come from getFilePath(entry) with the same entry
			pc := callOf(pathArg, "(*"+pkg+".Decoder).getFilePath")
			if pc == nil {
				if ex, ok := pathArg.(*ssa.Extract); ok {
					pc = callOf(ex.Tuple, "(*"+pkg+".Decoder).getFilePath")
				}
			}
			if pc == nil || len(pc.Call.Args) < 2 {
				r.bad("WGUARD", key+":path-entry", pos, "the path written is not the result of getFilePath(entry)")
			} else {
				entryArg := w.up(pc.Call.Args[1])
				ep := valuePath(entryArg)
				// getFilePath may be handed the entry's filename field instead of the entry
				if strings.HasSuffix(ep.Path, ".filename") {
					ep.Path = strings.TrimSuffix(ep.Path, ".filename")
				}
				if entryVal != nil && sameElem(entryArg, entryVal) {
					r.ok("WGUARD", key+":path-entry", pos, "path = getFilePath(e) with e the entry handed to the helper that checked the hashes")
				} else if sameRoot(ep, gmd.path) && ep.Path == "" {
					r.ok("WGUARD", key+":path-entry", pos, "path = getFilePath("+ep.String()+"), the entry whose hashes were checked")
				} else {
					r.bad("WGUARD", key+":path-entry", pos, fmt.Sprintf("path is derived from %s but the hashes checked belong to %s", ep, gmd.path.Root.Name()))
				}
			}
			if requireErrorReturn {
				for _, g := range []hashGuard{g16, gmd} {
					k := key + ":mismatch-returns-error:" + lastField(g.path)
					if blockReturnsError(g.failBlk) {
						r.ok("WGUARD", k, w.ipos(g.fact.If), "the mismatch edge returns a non-nil error")
					} else {
						r.bad("WGUARD", k, w.ipos(g.fact.If), "the hash-mismatch edge does not return an error: Repair can report success for a file it could not restore")
					}
				}
			}
		}
	}
}

// ---------------------------------------------------------------------------
// REPORT

const ruleREPORTText = "path reported <=> write completed: in Repair functions every append to the slice returned as result 0 is dominated by the err==nil edge of a WriteFile whose path operand is the appended value, and from every WriteFile success edge the append is reached before the loop back-edge or a return"

// appendedValues returns the values appended by an append call whose variadic
// argument is a freshly built array slice (`new [N]T` + stores + slice).
func appendedValues(c *ssa.Call) ([]ssa.Value, bool) {
	if len(c.Call.Args) != 2 {
		return nil, false
	}
	sl, ok := c.Call.Args[1].(*ssa.Slice)
	if !ok {
		return nil, false
	}
	al, ok := sl.X.(*ssa.Alloc)
	if !ok {
		return nil, false
	}
	var vals []ssa.Value
	for _, ref := range referrersOf(al) {
		ia, ok := ref.(*ssa.IndexAddr)
		if !ok {
			continue
		}
		for _, r2 := range referrersOf(ia) {
			if st, ok := r2.(*ssa.Store); ok && st.Addr == ia {
				vals = append(vals, st.Val)
			}
		}
	}
	return vals, len(vals) > 0
}

func isBuiltinCall(v ssa.Value, name string) *ssa.Call {
	c, ok := v.(*ssa.Call)
	if !ok {
		return nil
	}
	if b, ok := c.Call.Value.(*ssa.Builtin); ok && b.Name() == name {
		return c
	}
	return nil
}

// resultAppends collects the append calls that can flow into result #0 of fn.
func resultAppends(fn *ssa.Function) (apps []*ssa.Call, other []ssa.Value) {
	seen := map[ssa.Value]bool{}
	var visit func(v ssa.Value)
	visit = func(v ssa.Value) {
		if seen[v] {
			return
		}
		seen[v] = true
		switch x := v.(type) {
		case *ssa.Phi:
			for _, e := range x.Edges {
				visit(e)
			}
		case *ssa.Const:
		case *ssa.Call:
			if c := isBuiltinCall(x, "append"); c != nil {
				apps = append(apps, c)
				visit(c.Call.Args[0])
			} else {
				other = append(other, v)
			}
		default:
			other = append(other, v)
		}
	}
	for _, b := range fn.Blocks {
		if len(b.Instrs) == 0 {
			continue
		}
		if ret, ok := b.Instrs[len(b.Instrs)-1].(*ssa.Return); ok && len(ret.Results) > 0 {
			visit(ret.Results[0])
		}
	}
	return
}

func ruleREPORT(w *World, r *Report) {
	r.rule("REPORT", ruleREPORTText)
	sites := w.repairWriteSites()
	r.floor("REPORT", "WriteFile sites in Repair functions", len(sites), 2)
	byFn := map[*ssa.Function][]ioSite{}
	for _, s := range sites {
		byFn[s.Fn] = append(byFn[s.Fn], s)
	}
	for _, name := range []string{"(*par1.Decoder).Repair", "(*par2.Decoder).Repair"} {
		fn := w.Fn(name)
		if fn == nil {
			r.unk("REPORT", name, "-", "function not found")
			continue
		}
		apps, other := resultAppends(fn)
		for i, o := range other {
			r.bad("REPORT", fmt.Sprintf("%s:result-source#%d", name, i), w.pos(fn.Pos()), fmt.Sprintf("result 0 may come from %s, which is not an append of a written path", o.String()))
		}
		r.floor("REPORT", "appends feeding result 0 of "+name, len(apps), 1)
		for i, a := range apps {
			key := fmt.Sprintf("%s:append#%d", name, i)
			vals, ok := appendedValues(a)
			if !ok {
				r.unk("REPORT", key, w.ipos(a), "cannot determine the appended elements")
				continue
			}
			// find a WriteFile whose success edge dominates the append and whose path is the appended value
			okAll := true
			for _, v := range vals {
				found := false
				for _, s := range byFn[fn] {
					wc := s.errVal()
					if wc == nil || s.pathVal() == nil {
						continue
					}
					if stripConv(s.pathVal()) != stripConv(v) {
						continue
					}
					for _, c := range cmpsAt(a.Block()) {
						if c.Op == token.EQL && ((c.X == wc && isNilConst(c.Y)) || (c.Y == wc && isNilConst(c.X))) {
							found = true
						}
					}
				}
				if !found {
					okAll = false
					r.bad("REPORT", key, w.ipos(a), fmt.Sprintf("%s is appended to the result although no WriteFile(%s, ...) == nil edge dominates the append: a path can be reported that was not written", v.Name(), v.Name()))
				}
			}
			if okAll {
				r.ok("REPORT", key, w.ipos(a), "append dominated by the err==nil edge of the WriteFile of the same path")
			}
		}
		// a return that a write may precede hands back the list, never nil: files written before a later
		// failure (a failed double check after the loop) stay reported
		nr := 0
		for _, b := range fn.Blocks {
			ret, ok := b.Instrs[len(b.Instrs)-1].(*ssa.Return)
			if !ok || len(ret.Results) == 0 || !isNilConst(ret.Results[0]) {
				continue
			}
			for _, s := range byFn[fn] {
				if instrReaches(s.at(), ret) {
					nr++
					r.bad("REPORT", fmt.Sprintf("%s:nil-after-write#%d", name, nr-1), w.ipos(ret), "this return can follow a WriteFile but returns nil as the list of repaired paths: files that were written are not reported")
					break
				}
			}
		}
		if nr == 0 {
			r.ok("REPORT", name+":nil-after-write", w.pos(fn.Pos()), "no return reachable from a write drops the list of written paths")
		}
		// converse: success edge must reach an append before back-edge/return
		for _, s := range byFn[fn] {
			key := s.key() + ":success-reported"
			wc := s.errVal()
			if wc == nil {
				r.unk("REPORT", key, w.ipos(s.at()), "WriteFile used as a statement (go/defer): result unobservable")
				continue
			}
			// find the If testing wc
			var succ *ssa.BasicBlock
			var iff *ssa.If
			for _, ref := range referrersOf(wc) {
				bo, ok := ref.(*ssa.BinOp)
				if !ok || !(isNilConst(bo.X) || isNilConst(bo.Y)) {
					continue
				}
				for _, r2 := range referrersOf(bo) {
					if i2, ok := r2.(*ssa.If); ok {
						iff = i2
						if bo.Op == token.NEQ {
							succ = i2.Block().Succs[1]
						} else if bo.Op == token.EQL {
							succ = i2.Block().Succs[0]
						}
					}
				}
			}
			if succ == nil {
				r.bad("REPORT", key, w.ipos(s.at()), "the error returned by WriteFile is not tested: success cannot be told from failure")
				continue
			}
			// appended path blocks
			appBlocks := map[*ssa.BasicBlock]bool{}
			for _, a := range apps {
				vals, _ := appendedValues(a)
				for _, v := range vals {
					if s.pathVal() != nil && stripConv(v) == stripConv(s.pathVal()) {
						appBlocks[a.Block()] = true
					}
				}
			}
			wb := s.at().Block()
			bad := ""
			seen := map[*ssa.BasicBlock]bool{}
			var dfs func(b *ssa.BasicBlock)
			dfs = func(b *ssa.BasicBlock) {
				if seen[b] || bad != "" {
					return
				}
				seen[b] = true
				if appBlocks[b] {
					return
				}
				if len(b.Instrs) > 0 {
					if _, ok := b.Instrs[len(b.Instrs)-1].(*ssa.Return); ok {
						bad = "a return at " + w.ipos(b.Instrs[len(b.Instrs)-1])
						return
					}
				}
				for _, n := range b.Succs {
					if n.Dominates(wb) && n != wb {
						bad = "the loop back-edge to block " + fmt.Sprint(n.Index)
						return
					}
					dfs(n)
				}
			}
			dfs(succ)
			if bad != "" {
				r.bad("REPORT", key, w.ipos(iff), "after a successful WriteFile control can reach "+bad+" without appending the path to the result: a written file would not be listed")
			} else {
				r.ok("REPORT", key, w.ipos(iff), "every path from the success edge appends the written path before the next iteration or return")
			}
		}
	}
}

// ---------------------------------------------------------------------------
// SKIPOK

const ruleSKIPOKText = "intact files are skipped: each Repair write is control-dependent on the per-file damage predicate - par1: the d.fileData element of the same index is nil; par2: !wasOK[i] where every store into wasOK is the result of (fileIntegrityInfo).ok evaluated before that iteration overwrites shardInfos, and wasOK is indexed like recoverySet"

func ruleSKIPOK(w *World, r *Report) {
	r.rule("SKIPOK", ruleSKIPOKText)
	sites := w.repairWriteSites()
	r.floor("SKIPOK", "WriteFile sites in Repair functions", len(sites), 2)
	for _, s := range sites {
		key := s.key()
		pos := w.ipos(s.at())
		switch w.fnPkg(s.Fn) {
		case "par1":
			found := false
			for _, c := range cmpsAt(s.at().Block()) {
				if c.Op != token.EQL {
					continue
				}
				for _, pair := range [][2]ssa.Value{{c.X, c.Y}, {c.Y, c.X}} {
					if pair[1] == nil || !isNilConst(pair[1]) {
						continue
					}
					p := valuePath(pair[0])
					if strings.HasSuffix(p.Path, ".fileData[*]") && isReceiver(s.Fn, p.Root) {
						found = true
					}
				}
			}
			if found {
				r.ok("SKIPOK", key, pos, "write dominated by d.fileData[i] == nil (file was found missing or corrupt by LoadFileData)")
			} else {
				r.bad("SKIPOK", key, pos, "write is not guarded by d.fileData[i] == nil: an intact file can be rewritten")
			}
		case "par2":
			// find dominating fact "X is false" where X is a load of an element of a []bool
			var wasOK ssa.Value
			var idx ssa.Value
			for _, c := range cmpsAt(s.at().Block()) {
				if c.Op != token.EQL || c.Y != nil {
					continue
				}
				ld, ok := c.X.(*ssa.UnOp)
				if !ok || ld.Op != token.MUL {
					continue
				}
				ia, ok := ld.X.(*ssa.IndexAddr)
				if !ok {
					continue
				}
				if sl, ok := ia.X.Type().Underlying().(*types.Slice); ok {
					if b, ok := sl.Elem().Underlying().(*types.Basic); ok && b.Kind() == types.Bool {
						wasOK = ia.X
						idx = ia.Index
					}
				}
			}
			if wasOK == nil {
				r.bad("SKIPOK", key, pos, "write is not guarded by a per-file 'was OK' flag being false: an intact file can be rewritten")
				continue
			}
			r.ok("SKIPOK", key, pos, "write dominated by !"+wasOK.Name()+"[i]")
			// every store into wasOK elements must be the result of fileIntegrityInfo.ok
			nst := 0
			for _, ref := range referrersOf(wasOK) {
				ia, ok := ref.(*ssa.IndexAddr)
				if !ok {
					continue
				}
				for _, r2 := range referrersOf(ia) {
					st, ok := r2.(*ssa.Store)
					if !ok || st.Addr != ia {
						continue
					}
					nst++
					k := fmt.Sprintf("%s:flag-store#%d", key, nst-1)
					okc := callOf(st.Val, "(par2.fileIntegrityInfo).ok")
					if okc == nil {
						r.bad("SKIPOK", k, w.ipos(st), "the 'was OK' flag is not the result of (fileIntegrityInfo).ok: "+st.Val.String())
						continue
					}
					// ok() must be evaluated before shardInfos elements are overwritten in this function
					viol := ""
					for _, b := range s.Fn.Blocks {
						for _, in := range b.Instrs {
							st2, ok := in.(*ssa.Store)
							if !ok {
								continue
							}
							p := addrPath(st2.Addr)
							if strings.HasSuffix(p.Path, ".shardInfos[*]") {
								// fine: ok() precedes the store in the same pass, or all ok() calls are over
								// before any store happens (two passes); wrong: ok() can run after a store
								if !instrDominates(okc, st2) && instrReaches(st2, okc) {
									viol = w.ipos(st2)
								}
							}
						}
					}
					if viol != "" {
						r.bad("SKIPOK", k, w.ipos(st), "the flag is computed by ok() after shardInfos is overwritten with reconstructed data (store at "+viol+"): every file would look intact or damaged regardless of its state on disk")
					} else {
						r.ok("SKIPOK", k, w.ipos(st), "flag = (fileIntegrityInfo).ok(...) evaluated before shardInfos is overwritten")
					}
				}
			}
			r.floor("SKIPOK", "stores into the was-OK flags", nst, 1)
			// index agreement with the entry whose path is written
			pc := callOf(s.Call.Common().Args[0], "(*par2.Decoder).getFilePath")
			if pc != nil && len(pc.Call.Args) == 2 {
				ep := valuePath(w.up(pc.Call.Args[1]))
				agree := false
				if ld, ok := w.up(pc.Call.Args[1]).(*ssa.UnOp); ok && ld.Op == token.MUL {
					if ia, ok := ld.X.(*ssa.IndexAddr); ok && ia.Index == idx {
						agree = true // the entry is read straight from the set with the loop index
					}
				}
				if al, ok := ep.Root.(*ssa.Alloc); ok {
					for _, ref := range referrersOf(al) {
						if st, ok := ref.(*ssa.Store); ok && st.Addr == al {
							if ld, ok := st.Val.(*ssa.UnOp); ok {
								if ia, ok := ld.X.(*ssa.IndexAddr); ok && ia.Index == idx {
									agree = true
								}
							}
						}
					}
				}
				if agree {
					r.ok("SKIPOK", key+":index", pos, "the flag and the written entry are selected by the same loop index")
				} else {
					r.bad("SKIPOK", key+":index", pos, "the 'was OK' flag is read with a different index than the entry being written")
				}
			}
		}
	}
}

func isReceiver(fn *ssa.Function, v ssa.Value) bool {
	return len(fn.Params) > 0 && fn.Signature.Recv() != nil && fn.Params[0] == v
}

// ---------------------------------------------------------------------------
// CREATE-PATHS

const ruleCREATEPATHSText = "Create cannot overwrite an input through a name derived from the inputs: the path operand of each WriteFile in Encoder.Write depends (backward slice through values, phis, calls and local arrays) only on the indexPath parameter, integers and constants - never on a string-carrying field of the encoder (filePaths, relFilePaths, basePath)"

// backSlice visits every value v depends on. Memory: for an Alloc all stored values are followed.
func backSlice(v ssa.Value, visit func(v ssa.Value) bool) {
	seen := map[ssa.Value]bool{}
	var walk func(v ssa.Value)
	walk = func(v ssa.Value) {
		if v == nil || seen[v] {
			return
		}
		seen[v] = true
		if !visit(v) {
			return
		}
		switch x := v.(type) {
		case *ssa.Alloc:
			for _, ref := range referrersOf(x) {
				switch y := ref.(type) {
				case *ssa.Store:
					if y.Addr == x {
						walk(y.Val)
					}
				case *ssa.IndexAddr:
					for _, r2 := range referrersOf(y) {
						if st, ok := r2.(*ssa.Store); ok && st.Addr == y {
							walk(st.Val)
						}
					}
				case *ssa.FieldAddr:
					for _, r2 := range referrersOf(y) {
						if st, ok := r2.(*ssa.Store); ok && st.Addr == y {
							walk(st.Val)
						}
					}
				}
			}
		case ssa.Instruction:
			for _, op := range x.Operands(nil) {
				if *op != nil {
					walk(*op)
				}
			}
		}
	}
	walk(v)
}

func typeCarriesString(t types.Type) bool {
	switch u := t.Underlying().(type) {
	case *types.Basic:
		return u.Info()&types.IsString != 0
	case *types.Slice:
		return typeCarriesString(u.Elem())
	case *types.Array:
		return typeCarriesString(u.Elem())
	case *types.Map:
		return typeCarriesString(u.Key()) || typeCarriesString(u.Elem())
	case *types.Pointer:
		return typeCarriesString(u.Elem())
	case *types.Struct:
		for i := 0; i < u.NumFields(); i++ {
			if typeCarriesString(u.Field(i).Type()) {
				return true
			}
		}
	case *types.Interface:
		return true
	}
	return false
}

func ruleCREATEPATHS(w *World, r *Report) {
	r.rule("CREATE-PATHS", ruleCREATEPATHSText)
	sites := w.encoderWriteSites()
	r.floor("CREATE-PATHS", "WriteFile sites in Encoder.Write", len(sites), 2)
	for _, s := range sites {
		key := s.key()
		pos := w.ipos(s.Call)
		bad := ""
		usesParam := false
		var slice func(v ssa.Value, in *ssa.Function, depth int)
		slice = func(v ssa.Value, in *ssa.Function, depth int) {
			backSlice(v, func(v ssa.Value) bool {
				switch x := v.(type) {
				case *ssa.Parameter:
					if isReceiver(in, x) {
						return true
					}
					if b, ok := x.Type().Underlying().(*types.Basic); ok && b.Info()&types.IsString != 0 {
						owner := w.writerOwner(in)
						if shortName(in) == owner || depth > 2 {
							usesParam = true // the writer's own indexPath parameter
							return true
						}
						// a helper's parameter: what the writer passes for it
						idx := -1
						for i, p := range in.Params {
							if p == x {
								idx = i
							}
						}
						for _, cf := range region(w.Fn(owner)) {
							for _, c := range callInstrs(cf) {
								if c.Common().StaticCallee() == in && idx >= 0 && idx < len(c.Common().Args) {
									slice(c.Common().Args[idx], cf, depth+1)
								}
							}
						}
					}
					return true
				case *ssa.UnOp:
					if x.Op == token.MUL {
						p := valuePath(x)
						if p.Root != nil && isReceiver(in, p.Root) && typeCarriesString(x.Type()) {
							bad = fmt.Sprintf("field %s of the encoder (loaded at %s)", p.Path, w.ipos(x))
							return false
						}
					}
				case *ssa.Global:
					if typeCarriesString(x.Type()) {
						bad = "package-level variable " + x.Name()
						return false
					}
				case *ssa.FreeVar:
					bad = "captured variable " + x.Name()
					return false
				}
				return true
			})
		}
		slice(s.Call.Common().Args[0], s.Fn, 0)
		if bad != "" {
			r.bad("CREATE-PATHS", key, pos, "the output path depends on "+bad+": Create could write over one of its inputs")
		} else if !usesParam {
			r.bad("CREATE-PATHS", key, pos, "the output path does not depend on the indexPath parameter")
		} else {
			r.ok("CREATE-PATHS", key, pos, "output path is a function of the indexPath parameter, integers and constants only")
		}
	}
}

// ---------------------------------------------------------------------------
// REPORT-PROP: the exported Repair must hand on what Decoder.Repair reported.

const ruleREPORTPROPText = "the paths reported by Decoder.Repair reach the caller on every path: in parN.repair every return after the call of (*Decoder).Repair returns a result built from that call's first result, also when the call failed (files written before a later failure stay listed)"

func ruleREPORTPROP(w *World, r *Report) {
	r.rule("REPORT-PROP", ruleREPORTPROPText)
	n := 0
	for _, pkg := range []string{"par1", "par2"} {
		fn := w.Fn(pkg + ".repair")
		if fn == nil {
			r.unk("REPORT-PROP", pkg+".repair", "-", "function not found")
			continue
		}
		for _, c := range callInstrs(fn) {
			if staticCalleeShort(c.Common()) != "(*"+pkg+".Decoder).Repair" {
				continue
			}
			call, ok := c.(*ssa.Call)
			if !ok {
				continue
			}
			n++
			var paths ssa.Value
			for _, ref := range referrersOf(call) {
				if ex, ok := ref.(*ssa.Extract); ok && ex.Index == 0 {
					paths = ex
				}
			}
			nret := 0
			for _, b := range fn.Blocks {
				if len(b.Instrs) == 0 {
					continue
				}
				ret, ok := b.Instrs[len(b.Instrs)-1].(*ssa.Return)
				if !ok || !instrDominates(call, ret) {
					continue
				}
				key := fmt.Sprintf("%s.repair:return#%d", pkg, nret)
				nret++
				found := false
				if paths != nil && len(ret.Results) > 0 {
					backSlice(ret.Results[0], func(v ssa.Value) bool {
						if v == paths {
							found = true
						}
						return !found
					})
				}
				if found {
					r.ok("REPORT-PROP", key, w.ipos(ret), "returned result is built from the paths reported by Decoder.Repair")
				} else {
					r.bad("REPORT-PROP", key, w.ipos(ret), "this return after Decoder.Repair does not carry the repaired paths: files already written would not be listed")
				}
			}
			r.floor("REPORT-PROP", "returns after Decoder.Repair in "+pkg+".repair", nret, 1)
		}
	}
	r.floor("REPORT-PROP", "calls of Decoder.Repair in parN.repair", n, 2)
}

// ---------------------------------------------------------------------------
// ENTRY-SEQ: the operations declare success only through the decoder.

const ruleENTRYSEQText = "the entry points declare success only through the decoder's own verdict: in parN.verify every success return is dominated by newDecoder, LoadFileData and LoadParityData and returns counts taken from decoder.ShardCounts()/FileCounts(); in parN.repair every return whose error may be nil is dominated by those calls and by (*Decoder).Repair, and its error is that call's error - no fast path may report success from a partial view of the damage"

// mustPassCall: is `at` dominated by a call of target - directly, or by a call of a
// private helper every success return of which is itself dominated by such a call?
func mustPassCall(at ssa.Instruction, target string, depth int) bool {
	fn := at.Parent()
	for _, c := range callInstrs(fn) {
		if !instrDominates(c, at) {
			continue
		}
		if staticCalleeShort(c.Common()) == target {
			return true
		}
		if depth >= 3 {
			continue
		}
		g := c.Common().StaticCallee()
		if g == nil || len(g.Blocks) == 0 || g.Pkg == nil || g.Pkg != fn.Pkg || anchorNames()[shortName(g)] {
			continue
		}
		if g.Object() != nil && g.Object().Exported() {
			continue
		}
		all, n := true, 0
		for _, b := range g.Blocks {
			ret, ok := b.Instrs[len(b.Instrs)-1].(*ssa.Return)
			if !ok {
				continue
			}
			// returns that certainly carry an error are not success
			certainErr := false
			for _, res := range ret.Results {
				if isErrorType(res.Type()) && definitelyNonNilError(res) {
					certainErr = true
				}
				if isErrorType(res.Type()) && !isNilConst(res) {
					for _, cm := range cmpsAt(b) {
						if cm.Op == token.NEQ && cm.Y != nil && ((cm.X == res && isNilConst(cm.Y)) || (cm.Y == res && isNilConst(cm.X))) {
							certainErr = true
						}
					}
				}
			}
			if certainErr {
				continue
			}
			n++
			if !mustPassCall(ret, target, depth+1) {
				all = false
			}
		}
		if all && n > 0 {
			return true
		}
	}
	return false
}

func ruleENTRYSEQ(w *World, r *Report, pkgs ...string) {
	r.rule("ENTRY-SEQ", ruleENTRYSEQText)
	for _, pkg := range pkgs {
		for _, op := range []string{"verify", "repair"} {
			fn := w.Fn(pkg + "." + op)
			key := pkg + "." + op
			if fn == nil {
				r.unk("ENTRY-SEQ", key, "-", "function not found")
				continue
			}
			need := []string{pkg + ".newDecoder", "(*" + pkg + ".Decoder).LoadFileData", "(*" + pkg + ".Decoder).LoadParityData"}
			if op == "repair" {
				need = append(need, "(*"+pkg+".Decoder).Repair")
			}
			calls := map[string]ssa.CallInstruction{}
			for _, c := range callInstrs(fn) {
				calls[staticCalleeShort(c.Common())] = c
			}
			nret := 0
			for _, b := range fn.Blocks {
				if len(b.Instrs) == 0 {
					continue
				}
				ret, ok := b.Instrs[len(b.Instrs)-1].(*ssa.Return)
				if !ok || len(ret.Results) != 2 {
					continue
				}
				errv := ret.Results[1]
				// returns that certainly carry an error are not success declarations
				if !isNilConst(errv) {
					if op == "verify" {
						continue
					}
					// repair: `return result, err` with err the result of Decoder.Repair is the one allowed maybe-nil return
					rc := calls["(*"+pkg+".Decoder).Repair"]
					isRepairErr := false
					if rc != nil {
						if ex, ok := errv.(*ssa.Extract); ok && ex.Tuple == rc.Value() && ex.Index == 1 {
							isRepairErr = true
						}
					}
					if !isRepairErr {
						// an error known non-nil on this path?
						nonNil := false
						for _, c := range cmpsAt(b) {
							if c.Op == token.NEQ && c.Y != nil && ((c.X == errv && isNilConst(c.Y)) || (c.Y == errv && isNilConst(c.X))) {
								nonNil = true
							}
						}
						if nonNil || definitelyNonNilError(errv) {
							continue
						}
					}
				}
				k := fmt.Sprintf("%s:success-return#%d", key, nret)
				nret++
				missing := ""
				for _, n := range need {
					if !mustPassCall(ret, n, 0) {
						missing = n
					}
				}
				if missing != "" {
					r.bad("ENTRY-SEQ", k, w.ipos(ret), fmt.Sprintf("%s can report success on a path that does not go through %s: the verdict is taken from a partial view of the set", key, missing))
					continue
				}
				if op == "verify" {
					// result built from decoder counts
					want := "(*" + pkg + ".Decoder).ShardCounts"
					if pkg == "par1" {
						want = "(*" + pkg + ".Decoder).FileCounts"
					}
					found := false
					backSlice(ret.Results[0], func(v ssa.Value) bool {
						if cl, ok := v.(*ssa.Call); ok && staticCalleeShort(&cl.Call) == want {
							found = true
						}
						return !found
					})
					if !found {
						r.bad("ENTRY-SEQ", k, w.ipos(ret), key+" returns a result that is not built from "+want+"()")
						continue
					}
				}
				r.ok("ENTRY-SEQ", k, w.ipos(ret), "success declared only after "+strings.Join(need, ", "))
			}
			r.floor("ENTRY-SEQ", "success returns of "+key, nret, 1)
		}
	}
}
