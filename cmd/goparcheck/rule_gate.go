package main

import (
	"fmt"
	"go/token"
	"strings"

	"golang.org/x/tools/go/ssa"
)

// ---------------------------------------------------------------------------
// GATE: success returns / acceptance stores are dominated by the integrity
// comparison of what they accept.

const ruleGATEText = "acceptance gates: (G1) readNextPacket returns a body only when computePacketHash(h.RecoverySetID, h.Type, body) == h.Hash holds for that very body and the returned set id/type are h's; (G2) in readFile a packet whose set id differs from the expected one reaches neither a store into the result maps nor a return before the next packet is read; (G3) LoadParityData passes a non-nil expected set id; (G4) par1.readVolume succeeds only if md5(volumeBytes[0x20:]) == header.ControlHash; (G5) a PAR1 parity volume is accepted only if its set hash equals the index volume's and its volume number is i+1; (G6) a PAR1 data file counts as usable (non-nil data with nil error) only after both its 16k hash and MD5 matched the entry; (G7) PAR2 slice data is recorded only for a non-empty result of checksumToLocation.get(crc, slice) on the same slice, and get keys its second level by md5.Sum of that data"

func successReturns(fn *ssa.Function) []*ssa.Return {
	var out []*ssa.Return
	for _, b := range fn.Blocks {
		if len(b.Instrs) == 0 {
			continue
		}
		ret, ok := b.Instrs[len(b.Instrs)-1].(*ssa.Return)
		if !ok || len(ret.Results) == 0 {
			continue
		}
		last := ret.Results[len(ret.Results)-1]
		if isErrorType(last.Type()) && isNilConst(last) {
			out = append(out, ret)
		}
	}
	return out
}

func eqFacts(b *ssa.BasicBlock) [][2]ssa.Value {
	var out [][2]ssa.Value
	for _, c := range cmpsAt(b) {
		if c.Op == token.EQL && c.Y != nil {
			out = append(out, [2]ssa.Value{c.X, c.Y}, [2]ssa.Value{c.Y, c.X})
		}
	}
	return out
}

func gatePacketHash(w *World, r *Report) {
	fn := w.Fn("par2.readNextPacket")
	if fn == nil {
		r.unk("GATE", "G1:readNextPacket", "-", "function not found")
		return
	}
	rets := successReturns(fn)
	r.floor("GATE", "success returns of readNextPacket", len(rets), 1)
	for i, ret := range rets {
		key := fmt.Sprintf("G1:readNextPacket:return#%d", i)
		if len(ret.Results) < 3 {
			r.unk("GATE", key, w.ipos(ret), "unexpected result arity")
			continue
		}
		root, ok, why := packetHashGate(ret, ret.Results[2], 0)
		if ok {
			r0, r1 := deepPath(ret.Results[0]), deepPath(ret.Results[1])
			if r0.Root != root || lastField(r0) != "recoverysetid" || r1.Root != root || lastField(r1) != "type" {
				ok, why = false, "the returned set id / type are not the header fields that were hashed"
			}
		}
		if ok {
			r.ok("GATE", key, w.ipos(ret), "returned (setID, type, body) are exactly what computePacketHash(...) == h.Hash was checked on")
		} else {
			r.bad("GATE", key, w.ipos(ret), "a packet can be accepted without its MD5 having been verified: "+why)
		}
	}
}

// packetHashGate decides whether, at instruction `at`, the value `body` is the body
// (or a copy of the body) whose computePacketHash(h.SetID, h.Type, body) was compared
// with h.Hash on every path - directly, or inside a module helper whose result `body`
// is (then the helper's success returns are judged, and the header is mapped back to
// the caller's argument). It returns the root of the header the hash was checked on.
func packetHashGate(at ssa.Instruction, body ssa.Value, depth int) (ssa.Value, bool, string) {
	fn := at.Parent()
	why := "no dominating computePacketHash(...) == h.Hash comparison"
	rb := stripConv(body)
	for _, pr := range eqFacts(at.Block()) {
		call := callOf(pr[0], "par2.computePacketHash")
		if call == nil {
			continue
		}
		hp := deepPath(pr[1])
		if lastField(hp) != "hash" {
			why = "computePacketHash is compared with " + hp.String() + ", not the header's Hash field"
			continue
		}
		a0, a1 := deepPath(call.Call.Args[0]), deepPath(call.Call.Args[1])
		if lastField(a0) != "recoverysetid" || lastField(a1) != "type" || a0.Root != hp.Root || a1.Root != hp.Root {
			why = fmt.Sprintf("the hash is computed over (%s, %s), not the header's set id and type", a0, a1)
			continue
		}
		hashed := stripConv(call.Call.Args[2])
		bodyOK := rb == hashed
		if !bodyOK {
			for _, c := range callInstrs(fn) {
				if bc, isB := c.Common().Value.(*ssa.Builtin); isB && bc.Name() == "copy" {
					if stripConv(c.Common().Args[0]) == rb && stripConv(c.Common().Args[1]) == hashed && instrDominates(c, at) {
						bodyOK = true
					}
				}
			}
		}
		if !bodyOK {
			why = "the body returned is not the body whose hash was compared"
			continue
		}
		return hp.Root, true, ""
	}
	// the check may live in a helper that returns the body
	if depth < 2 {
		idx := 0
		var hc *ssa.Call
		switch x := rb.(type) {
		case *ssa.Extract:
			hc, _ = x.Tuple.(*ssa.Call)
			idx = x.Index
		case *ssa.Call:
			hc = x
		}
		if hc != nil && instrDominates(hc, at) {
			if g := hc.Call.StaticCallee(); g != nil && len(g.Blocks) > 0 && g.Pkg != nil && isModPath(g.Pkg.Pkg.Path()) {
				grets := successReturns(g)
				var root ssa.Value
				all := len(grets) > 0
				for _, gret := range grets {
					if idx >= len(gret.Results) {
						all = false
						break
					}
					rt, ok, w2 := packetHashGate(gret, gret.Results[idx], depth+1)
					if !ok {
						all, why = false, w2+" (in "+shortName(g)+")"
						break
					}
					// map the helper's header parameter to the caller's argument
					mapped := ssa.Value(nil)
					for j, prm := range g.Params {
						if rt == ssa.Value(prm) && j < len(hc.Call.Args) {
							mapped = deepPath(hc.Call.Args[j]).Root
						}
					}
					if mapped == nil {
						all, why = false, "the header checked in "+shortName(g)+" is not one of its parameters"
						break
					}
					if root != nil && root != mapped {
						all, why = false, "different headers on different paths of "+shortName(g)
						break
					}
					root = mapped
				}
				if all {
					return root, true, ""
				}
			}
		}
	}
	return nil, false, why
}

func gateSetID(w *World, r *Report) {
	fn := w.Fn("par2.readFile")
	if fn == nil {
		r.unk("GATE", "G2:readFile", "-", "function not found")
		return
	}
	var rn *ssa.Call
	for _, c := range callInstrs(fn) {
		if staticCalleeShort(c.Common()) == "par2.readNextPacket" {
			rn, _ = c.(*ssa.Call)
		}
	}
	if rn == nil {
		r.unk("GATE", "G2:readFile", w.pos(fn.Pos()), "no call of readNextPacket")
		return
	}
	var pktID ssa.Value
	for _, ref := range referrersOf(rn) {
		if ex, ok := ref.(*ssa.Extract); ok && ex.Index == 0 {
			pktID = ex
		}
	}
	// the comparison
	var iff *ssa.If
	var mismatch *ssa.BasicBlock
	for _, ref := range referrersOf(pktID) {
		bo, ok := ref.(*ssa.BinOp)
		if !ok || (bo.Op != token.NEQ && bo.Op != token.EQL) {
			continue
		}
		other := bo.X
		if other == pktID {
			other = bo.Y
		}
		// other must derive from *expectedSetID
		fromParam := false
		backSlice(other, func(v ssa.Value) bool {
			if ld, ok := v.(*ssa.UnOp); ok && ld.Op == token.MUL && len(fn.Params) >= 2 && ld.X == ssa.Value(fn.Params[1]) {
				fromParam = true
			}
			return true
		})
		if !fromParam {
			continue
		}
		for _, r2 := range referrersOf(bo) {
			if i2, ok := r2.(*ssa.If); ok {
				iff = i2
				if bo.Op == token.NEQ {
					mismatch = i2.Block().Succs[0]
				} else {
					mismatch = i2.Block().Succs[1]
				}
			}
		}
	}
	if iff == nil {
		r.bad("GATE", "G2:readFile:set-id-filter", w.pos(fn.Pos()), "packets are not filtered by comparing their recovery set id with the expected one")
		return
	}
	// explore from mismatch until the block of readNextPacket
	bad := ""
	seen := map[*ssa.BasicBlock]bool{}
	var dfs func(b *ssa.BasicBlock)
	dfs = func(b *ssa.BasicBlock) {
		if seen[b] || bad != "" {
			return
		}
		seen[b] = true
		for _, in := range b.Instrs {
			if in == ssa.Instruction(rn) {
				return
			}
			switch x := in.(type) {
			case *ssa.MapUpdate:
				bad = "a store into a result map at " + w.ipos(x)
				return
			case *ssa.Call:
				// a private helper that stores into a map it is handed
				if g := x.Call.StaticCallee(); g != nil && g != fn && inRegion(fn, g) {
					for _, gb := range g.Blocks {
						for _, gi := range gb.Instrs {
							if _, isMU := gi.(*ssa.MapUpdate); isMU {
								bad = "a store into a result map (through " + shortName(g) + ") at " + w.ipos(x)
							}
						}
					}
					if bad != "" {
						return
					}
				}
			case *ssa.Return:
				bad = "a return at " + w.ipos(x) + " (a foreign packet must be skipped, not end the file)"
				return
			}
		}
		for _, s := range b.Succs {
			dfs(s)
		}
	}
	dfs(mismatch)
	if bad != "" {
		r.bad("GATE", "G2:readFile:set-id-filter", w.ipos(iff), "a packet of another recovery set reaches "+bad+" before the next packet is read")
	} else {
		r.ok("GATE", "G2:readFile:set-id-filter", w.ipos(iff), "a packet whose set id differs from the expected one is skipped: no map store, no return until the next readNextPacket")
	}
	// all map updates are of the maps returned
	n := 0
	for _, rf := range region(fn) {
		for _, b := range rf.Blocks {
			for _, in := range b.Instrs {
				if _, ok := in.(*ssa.MapUpdate); ok {
					n++
				}
			}
		}
	}
	r.floor("GATE", "result-map stores in readFile", n, 4)
}

// gateRecoverySetComplete: every file id of the main packet needs its description and checksum packets - a missing one is an error, never skipped.
func gateRecoverySetComplete(w *World, r *Report) {
	fn := w.Fn("par2.makeDecoderInputFileInfos")
	if fn == nil {
		r.unk("GATE", "G8:recovery-set-complete", "-", "par2.makeDecoderInputFileInfos not found")
		return
	}
	n := 0
	for _, b := range fn.Blocks {
		for _, in := range b.Instrs {
			lk, ok := in.(*ssa.Lookup)
			if !ok || !lk.CommaOk {
				continue
			}
			n++
			key := fmt.Sprintf("G8:recovery-set-complete:lookup#%d", n-1)
			okEdge := false
			for _, ref := range referrersOf(lk) {
				ex, isEx := ref.(*ssa.Extract)
				if !isEx || ex.Index != 1 {
					continue
				}
				for _, r2 := range referrersOf(ex) {
					if iff, isIf := r2.(*ssa.If); isIf {
						if blockReturnsError(iff.Block().Succs[1]) {
							okEdge = true
						}
					}
				}
			}
			if okEdge {
				r.ok("GATE", key, w.ipos(lk), "a file id of the main packet without its packet is an error")
			} else {
				r.bad("GATE", key, w.ipos(lk), "a file listed in the main packet whose description or checksum packet is missing is not rejected: the decoder would silently verify a subset of the set and call it clean")
			}
		}
	}
	r.floor("GATE", "packet lookups in makeDecoderInputFileInfos", n, 2)
}

func gateExpectedSetID(w *World, r *Report) {
	fn := w.Fn("(*par2.Decoder).LoadParityData")
	if fn == nil {
		r.unk("GATE", "G3:LoadParityData", "-", "function not found")
		return
	}
	n := 0
	for _, c := range callsIn(fn, "par2.readFile") {
		n++
		a := c.Common().Args[1]
		p := addrPath(a)
		switch {
		case isNilConst(a):
			r.bad("GATE", "G3:LoadParityData:expected-set-id", w.ipos(c), "volume files are read without an expected recovery set id: packets of foreign sets would be accepted")
		case strings.HasSuffix(p.Path, ".setID"):
			r.ok("GATE", "G3:LoadParityData:expected-set-id", w.ipos(c), "volume files are read with &d.setID as the expected set id")
		default:
			r.bad("GATE", "G3:LoadParityData:expected-set-id", w.ipos(c), "the expected set id passed to readFile is not the decoder's set id")
		}
	}
	r.floor("GATE", "readFile calls in LoadParityData", n, 1)
}

func gatePar1(w *World, r *Report, probe bool) {
	// G4
	if fn := w.Fn("par1.readVolume"); fn != nil {
		rets := successReturns(fn)
		r.floor("GATE", "success returns of par1.readVolume", len(rets), 1)
		for i, ret := range rets {
			key := fmt.Sprintf("G4:readVolume:return#%d", i)
			ok := false
			for _, pr := range eqFacts(ret.Block()) {
				call := callOf(pr[0], "crypto/md5.Sum")
				if call == nil {
					continue
				}
				sl, isSl := stripConv(call.Call.Args[0]).(*ssa.Slice)
				if !isSl || sl.X != ssa.Value(fn.Params[0]) || sl.Low == nil {
					continue
				}
				if lo, isC := constInt(sl.Low); !isC || lo != 0x20 || sl.High != nil {
					continue
				}
				if lastField(deepPath(pr[1])) == "controlhash" {
					ok = true
				}
			}
			if !ok {
				// the comparison made by a private helper: check(volumeBytes, header.ControlHash) == nil
				for _, cm := range cmpsAt(ret.Block()) {
					if cm.Op != token.EQL || cm.Y == nil {
						continue
					}
					for _, pr := range [][2]ssa.Value{{cm.X, cm.Y}, {cm.Y, cm.X}} {
						hc, isCall := stripConv(pr[0]).(*ssa.Call)
						if !isCall || !isNilConst(pr[1]) {
							continue
						}
						h := hc.Call.StaticCallee()
						if h == nil || !inRegion(fn, h) || h == fn {
							continue
						}
						good := true
						nsucc := 0
						for _, hret := range successReturns(h) {
							nsucc++
							found := false
							for _, hp := range eqFacts(hret.Block()) {
								call := callOf(hp[0], "crypto/md5.Sum")
								if call == nil {
									continue
								}
								sl, isSl := stripConv(call.Call.Args[0]).(*ssa.Slice)
								if !isSl || sl.Low == nil || sl.High != nil {
									continue
								}
								if lo, isC := constInt(sl.Low); !isC || lo != 0x20 {
									continue
								}
								if w.up(sl.X) != ssa.Value(fn.Params[0]) {
									continue
								}
								if lastField(deepPath(w.up(hp[1]))) == "controlhash" {
									found = true
								}
							}
							if !found {
								good = false
							}
						}
						if good && nsucc > 0 {
							ok = true
						}
					}
				}
			}
			if ok {
				r.ok("GATE", key, w.ipos(ret), "dominated by md5.Sum(volumeBytes[0x20:]) == header.ControlHash")
			} else {
				r.bad("GATE", key, w.ipos(ret), "a volume can be accepted without its control hash having been verified over bytes 0x20..end")
			}
		}
	} else {
		r.unk("GATE", "G4:readVolume", "-", "function not found")
	}
	// G5
	if fn := w.Fn("(*par1.Decoder).LoadParityData"); fn != nil {
		n := 0
		// the per-volume loader: a function literal of LoadParityData, or a private method it calls
		// that returns the volume next to an error
		cands := append([]*ssa.Function{}, fn.AnonFuncs...)
		for _, rf := range region(fn) {
			if rf == fn || rf.Parent() != nil {
				continue
			}
			res := rf.Signature.Results()
			hasVol := false
			for k := 0; k < res.Len(); k++ {
				if strings.HasSuffix(typeStr(res.At(k).Type()), "par1.volume") || strings.HasSuffix(typeStr(res.At(k).Type()), ".volume") {
					hasVol = true
				}
			}
			if hasVol && res.Len() >= 2 && isErrorType(res.At(res.Len()-1).Type()) && w.uniqueSite(rf) != nil && w.uniqueSite(rf).Parent() == fn {
				cands = append(cands, rf)
			}
		}
		for _, lit := range cands {
			for i, ret := range successReturns(lit) {
				n++
				key := fmt.Sprintf("G5:LoadParityData:accept#%d", i)
				setOK, numOK := false, false
				for _, pr := range eqFacts(ret.Block()) {
					pr = [2]ssa.Value{resolveSingle(pr[0]), resolveSingle(pr[1])}
					a, b := deepPath(pr[0]), deepPath(pr[1])
					if strings.HasSuffix(a.Path, ".header.SetHash") && strings.HasSuffix(b.Path, ".indexVolume.header.SetHash") {
						setOK = true
					}
					if strings.HasSuffix(a.Path, ".header.VolumeNumber") {
						// other side: the very number the volume's file name was built from
						for _, vc := range callsIn(lit, "(*par1.Decoder).volumePath") {
							_ = vc
						}
						other := w.up(pr[1])
						for _, vc := range callsIn(fn, "(*par1.Decoder).volumePath") {
							if stripAllConv(other) == stripAllConv(resolveSingle(vc.Common().Args[1])) {
								numOK = true
							}
							if sameImage(stripAllConv(other), stripAllConv(vc.Common().Args[1])) || sameNumber(other, vc.Common().Args[1]) || sameLinear(other, vc.Common().Args[1]) {
								numOK = true
							}
						}
					}
				}
				switch {
				case setOK && numOK:
					r.ok("GATE", key, w.ipos(ret), "parity volume accepted only with the index volume's set hash and volume number i+1")
				case !setOK:
					r.bad("GATE", key, w.ipos(ret), "a parity volume is accepted without comparing its set hash with the index volume's: a volume of another set would be used")
				default:
					r.bad("GATE", key, w.ipos(ret), "a parity volume is accepted without checking that its volume number matches its file name (.pNN)")
				}
			}
		}
		r.floor("GATE", "parity volume acceptance returns", n, 1)
		// every candidate volume number 1..max is probed: the loop makes exactly max trips
		for _, vc := range callsIn(fn, "(*par1.Decoder).volumePath") {
			if vc.Parent() != fn || !probe {
				continue
			}
			arg := stripAllConv(resolveSingle(vc.Common().Args[1]))
			off := int64(0)
			base := arg
			if bo, ok := arg.(*ssa.BinOp); ok && bo.Op == token.ADD {
				if c, ok := constInt(bo.Y); ok {
					off, base = c, stripAllConv(bo.X)
				}
			}
			// base: load of a cell, or a phi
			start, cmpOp, okShape := int64(-1), token.ILLEGAL, false
			var bound ssa.Value
			switch x := base.(type) {
			case *ssa.UnOp:
				cell := x.X
				for _, ref := range referrersOf(cell) {
					if st, ok := ref.(*ssa.Store); ok && st.Addr == cell {
						if c, ok := constInt(st.Val); ok {
							start = c
						}
					}
					if ld, ok := ref.(*ssa.UnOp); ok {
						for _, r2 := range referrersOf(ld) {
							if bo, ok := r2.(*ssa.BinOp); ok && (bo.Op == token.LSS || bo.Op == token.LEQ) && bo.X == ssa.Value(ld) {
								for _, r3 := range referrersOf(bo) {
									if _, isIf := r3.(*ssa.If); isIf {
										cmpOp, bound = bo.Op, bo.Y
									}
								}
							}
						}
					}
				}
			case *ssa.Phi:
				for _, e := range x.Edges {
					if c, ok := constInt(e); ok {
						start = c
					}
				}
				for _, ref := range referrersOf(x) {
					if bo, ok := ref.(*ssa.BinOp); ok && (bo.Op == token.LSS || bo.Op == token.LEQ) && bo.X == ssa.Value(x) {
						cmpOp, bound = bo.Op, bo.Y
					}
				}
			}
			// bound must be the size of the parity table
			isMax := false
			for _, b := range fn.Blocks {
				for _, in := range b.Instrs {
					if mk, ok := in.(*ssa.MakeSlice); ok && bound != nil && mk.Len == bound {
						isMax = true
					}
				}
			}
			first := start + off
			switch {
			case cmpOp == token.LSS && isMax && start == 0 && first == 1:
				okShape = true
			case cmpOp == token.LEQ && isMax && start == 1 && first == 1:
				okShape = true
			}
			if okShape {
				r.ok("GATE", "G5:LoadParityData:probe-range", w.ipos(vc), "volume numbers 1..max are probed (loop makes exactly max trips, max = size of the parity table)")
			} else {
				r.bad("GATE", "G5:LoadParityData:probe-range", w.ipos(vc), fmt.Sprintf("the probing loop does not cover volume numbers 1..max (first number %d, loop condition %s against the table size=%v): some parity volume is never looked for", first, cmpOp, isMax))
			}
		}
	} else {
		r.unk("GATE", "G5:LoadParityData", "-", "function not found")
	}
	// the full parity check is attempted only when every file is usable (otherwise the coder reports mismatched shards instead of a verdict)
	if probe {
		if fn := w.Fn("par1.verify"); fn != nil {
			for _, c := range callsIn(fn, "(*par1.Decoder).VerifyAllData") {
				ok := false
				for _, cm := range cmpsAt(c.Block()) {
					if cm.Y == nil && cm.Op == token.NEQ && callOf(cm.X, "(par1.FileCounts).AllFilesUsable") != nil {
						ok = true
					}
				}
				if ok {
					r.ok("GATE", "G5:verify:all-data-gate", w.ipos(c), "VerifyAllData is attempted only if FileCounts.AllFilesUsable()")
				} else {
					r.bad("GATE", "G5:verify:all-data-gate", w.ipos(c), "the full parity check is attempted although some data or parity file may be unusable: Verify then returns the coder's error instead of the truthful counts")
				}
			}
		}
	}
	// G6
	if fn := w.Fn("(*par1.Decoder).LoadFileData"); fn != nil {
		n := 0
		for _, lit := range region(fn) {
			for i, ret := range successReturns(lit) {
				if len(ret.Results) < 2 || isNilConst(ret.Results[0]) || typeStr(ret.Results[0].Type()) != "[]byte" {
					continue
				}
				n++
				key := fmt.Sprintf("G6:LoadFileData:usable#%d", i)
				data := stripConv(ret.Results[0])
				g16 := findHashGuards(ret.Block(), "par1.sixteenKHash")
				gmd := findHashGuards(ret.Block(), "crypto/md5.Sum")
				ok16, okmd := false, false
				var p16, pmd accessPath
				for _, g := range g16 {
					if g.hashArg == data && lastField(g.path) == "sixteenkhash" {
						ok16, p16 = true, g.path
					}
				}
				for _, g := range gmd {
					if g.hashArg == data && lastField(g.path) == "hash" {
						okmd, pmd = true, g.path
					}
				}
				switch {
				case ok16 && okmd && sameRoot(deepPathOf(p16), deepPathOf(pmd)):
					r.ok("GATE", key, w.ipos(ret), "file data is returned as usable only after sixteenKHash(data) and md5.Sum(data) matched the same entry")
				case !okmd:
					r.bad("GATE", key, w.ipos(ret), "a data file can be counted usable without its full MD5 having matched the entry")
				case !ok16:
					r.bad("GATE", key, w.ipos(ret), "a data file can be counted usable without its 16k hash having matched the entry")
				default:
					r.bad("GATE", key, w.ipos(ret), "the two hashes are compared against different entries")
				}
			}
		}
		r.floor("GATE", "usable-data returns in LoadFileData", n, 1)
		// the caller must store non-nil data only from that result, under !corrupt
	} else {
		r.unk("GATE", "G6:LoadFileData", "-", "function not found")
	}
}

func deepPathOf(p accessPath) accessPath { return p }

func gateSlices(w *World, r *Report) {
	fn := w.Fn("par2.fillShardInfos")
	if fn == nil {
		r.unk("GATE", "G7:fillShardInfos", "-", "function not found")
		return
	}
	// stores of a composite with data field into *shardInfo
	n := 0
	for _, rf := range region(fn) {
		for _, b := range rf.Blocks {
			for _, in := range b.Instrs {
				st, ok := in.(*ssa.Store)
				if !ok {
					continue
				}
				// store into field .data of a shardIntegrityInfo
				fa, ok := st.Addr.(*ssa.FieldAddr)
				if !ok || fieldName(fa.X.Type(), fa.Field) != "data" || namedTypeName(fa.X.Type()) != "par2.shardIntegrityInfo" {
					continue
				}
				n++
				key := fmt.Sprintf("G7:fillShardInfos:data-store#%d", n-1)
				slice := stripConv(w.up(stripConv(st.Val)))
				ok2 := false
				for _, c := range w.factsAt(st) {
					if c.Y == nil {
						continue
					}
					// len(found) != 0   or   len(found) > 0
					var lenv ssa.Value
					if z, isC := constInt(c.Y); isC && z == 0 && (c.Op == token.NEQ || c.Op == token.GTR) {
						lenv = c.X
					}
					if lenv == nil {
						continue
					}
					lc := isBuiltinCall(lenv, "len")
					if lc == nil {
						continue
					}
					get := callOf(lc.Call.Args[0], "(par2.checksumShardLocationMap).get")
					if get != nil && stripConv(get.Call.Args[2]) == slice {
						ok2 = true
					}
				}
				if ok2 {
					r.ok("GATE", key, w.ipos(st), "slice recorded as found only where checksumToLocation.get(crc, slice) on the same slice is non-empty")
				} else {
					r.bad("GATE", key, w.ipos(st), "slice data is recorded as usable without a non-empty CRC32+MD5 lookup of that same slice")
				}
			}
		}
	}
	r.floor("GATE", "slice data stores in fillShardInfos", n, 1)
	// get: first level by crc param, second by md5.Sum(data param)
	if g := w.Fn("(par2.checksumShardLocationMap).get"); g != nil && len(g.Params) == 3 {
		okCRC, okMD5 := false, false
		for _, b := range g.Blocks {
			for _, in := range b.Instrs {
				lk, ok := in.(*ssa.Lookup)
				if !ok {
					continue
				}
				if stripConv(lk.Index) == ssa.Value(g.Params[1]) && stripConv(lk.X) == ssa.Value(g.Params[0]) {
					okCRC = true
				}
				if c := callOf(lk.Index, "crypto/md5.Sum"); c != nil && stripConv(c.Call.Args[0]) == ssa.Value(g.Params[2]) {
					okMD5 = true
				}
			}
		}
		if okCRC && okMD5 {
			r.ok("GATE", "G7:get", w.pos(g.Pos()), "get looks up m[crc32][md5.Sum(data)]")
		} else {
			r.bad("GATE", "G7:get", w.pos(g.Pos()), "get does not key its lookup by the CRC32 and by md5.Sum of the data given")
		}
	} else {
		r.unk("GATE", "G7:get", "-", "checksumShardLocationMap.get not found")
	}
	// put: keyed by the wire CRC32 and MD5 of the checksum pair (writer of the map)
	if mk := w.Fn("par2.makeChecksumShardLocationMap"); mk != nil {
		ok := false
		for _, c := range callsIn(mk, "(par2.checksumShardLocationMap).put") {
			a := c.Common().Args
			if lastField(deepPath(a[2])) == "md5" {
				if cc := stripConv(a[1]); cc != nil && isLEUint32(w, cc, 0) {
					ok = true
				}
			}
		}
		if ok {
			r.ok("GATE", "G7:map-construction", w.pos(mk.Pos()), "the lookup map is keyed by each checksum pair's CRC32 (little-endian) and MD5")
		} else {
			r.bad("GATE", "G7:map-construction", w.pos(mk.Pos()), "the lookup map is not keyed by the checksum pair's CRC32 and MD5")
		}
	}
}

type gateOpts struct{ par2, par1, probe bool }

func ruleGATE(w *World, r *Report, o gateOpts) {
	r.rule("GATE", ruleGATEText)
	if o.par2 {
		gatePacketHash(w, r)
		gateSetID(w, r)
		gateExpectedSetID(w, r)
		gateRecoverySetComplete(w, r)
		gateSlices(w, r)
	}
	if o.par1 {
		gatePar1(w, r, o.probe)
	}
}

// sameNumber: two values are the same arithmetic expression over the same loop variable
// (e.g. both are i+1 computed in different functions of one closure chain).
func sameNumber(a, b ssa.Value) bool {
	a, b = stripAllConv(a), stripAllConv(b)
	if a == b {
		return true
	}
	// captured variable: loads of the same cell
	la, ok1 := a.(*ssa.UnOp)
	lb, ok2 := b.(*ssa.UnOp)
	if ok1 && ok2 && la.X == lb.X {
		return true
	}
	ba, ok1 := a.(*ssa.BinOp)
	bb, ok2 := b.(*ssa.BinOp)
	if ok1 && ok2 && ba.Op == bb.Op {
		ca, okA := constBig(ba.Y)
		cb, okB := constBig(bb.Y)
		if okA && okB && ca.Cmp(cb) == 0 {
			return sameNumber(ba.X, bb.X) || freeVarOf(ba.X, bb.X) || freeVarOf(bb.X, ba.X)
		}
	}
	return freeVarOf(a, b) || freeVarOf(b, a)
}

// freeVarOf: inner is a load of a free variable of a closure whose binding cell holds outer (or outer is a load of that cell).
func freeVarOf(inner, outer ssa.Value) bool {
	ld, ok := inner.(*ssa.UnOp)
	if !ok {
		return false
	}
	fv, ok := ld.X.(*ssa.FreeVar)
	if !ok {
		return false
	}
	lit := fv.Parent()
	idx := -1
	for i, f := range lit.FreeVars {
		if f == fv {
			idx = i
		}
	}
	if idx < 0 || lit.Parent() == nil {
		return false
	}
	for _, b := range lit.Parent().Blocks {
		for _, in := range b.Instrs {
			if mc, ok := in.(*ssa.MakeClosure); ok && mc.Fn == ssa.Value(lit) && idx < len(mc.Bindings) {
				cell := mc.Bindings[idx]
				if ol, ok := outer.(*ssa.UnOp); ok && ol.X == cell {
					return true
				}
				for _, ref := range referrersOf(cell) {
					if st, ok := ref.(*ssa.Store); ok && st.Addr == cell && st.Val == outer {
						return true
					}
				}
			}
		}
	}
	return false
}

// linForm reduces v to root + constant, looking through conversions, +/- constants,
// loads of variables assigned exactly once, and captured variables (free variable -> the cell bound to it).
func linForm(v ssa.Value, depth int) (ssa.Value, int64) {
	off := int64(0)
	for i := 0; i < 12 && depth < 6; i++ {
		v = stripAllConv(v)
		switch x := v.(type) {
		case *ssa.BinOp:
			if c, ok := constInt(x.Y); ok && (x.Op == token.ADD || x.Op == token.SUB) {
				if x.Op == token.ADD {
					off += c
				} else {
					off -= c
				}
				v = x.X
				continue
			}
			return v, off
		case *ssa.UnOp:
			if x.Op != token.MUL {
				return v, off
			}
			cell := x.X
			if fv, ok := cell.(*ssa.FreeVar); ok {
				if b := bindingOf(fv); b != nil {
					cell = b
				}
			}
			var stores []ssa.Value
			for _, ref := range referrersOf(cell) {
				if st, ok := ref.(*ssa.Store); ok && st.Addr == cell {
					stores = append(stores, st.Val)
				}
			}
			if len(stores) == 1 {
				r, o := linForm(stores[0], depth+1)
				return r, off + o
			}
			return cell, off
		default:
			return v, off
		}
	}
	return v, off
}

func bindingOf(fv *ssa.FreeVar) ssa.Value {
	lit := fv.Parent()
	idx := -1
	for i, f := range lit.FreeVars {
		if f == fv {
			idx = i
		}
	}
	if idx < 0 || lit.Parent() == nil {
		return nil
	}
	for _, b := range lit.Parent().Blocks {
		for _, in := range b.Instrs {
			if mc, ok := in.(*ssa.MakeClosure); ok && mc.Fn == ssa.Value(lit) && idx < len(mc.Bindings) {
				return mc.Bindings[idx]
			}
		}
	}
	return nil
}

func sameLinear(a, b ssa.Value) bool {
	ra, oa := linForm(a, 0)
	rb, ob := linForm(b, 0)
	return ra == rb && oa == ob
}

// resolveSingle looks through a load of a local cell (an Alloc, or a FreeVar bound
// to one by the enclosing function's MakeClosure) that is assigned exactly once,
// and returns the assigned value: `x := e` captured by a function literal is `e`.
func resolveSingle(v ssa.Value) ssa.Value {
	for i := 0; i < 6; i++ {
		inner := stripConv(v)
		ld, ok := inner.(*ssa.UnOp)
		if !ok || ld.Op != token.MUL {
			return v
		}
		var cell *ssa.Alloc
		switch x := ld.X.(type) {
		case *ssa.Alloc:
			cell = x
		case *ssa.FreeVar:
			lit := x.Parent()
			idx := -1
			for j, fv := range lit.FreeVars {
				if fv == x {
					idx = j
				}
			}
			if par := lit.Parent(); par != nil && idx >= 0 {
				for _, b := range par.Blocks {
					for _, in := range b.Instrs {
						if mc, ok := in.(*ssa.MakeClosure); ok && mc.Fn == ssa.Value(lit) && idx < len(mc.Bindings) {
							cell, _ = mc.Bindings[idx].(*ssa.Alloc)
						}
					}
				}
			}
		}
		if cell == nil {
			return v
		}
		var only ssa.Value
		cnt := 0
		for _, ref := range referrersOf(cell) {
			if st, ok := ref.(*ssa.Store); ok && st.Addr == ssa.Value(cell) {
				only = st.Val
				cnt++
			}
			// assignments made inside a function literal that captured the cell
			if mc, ok := ref.(*ssa.MakeClosure); ok {
				if lit, ok := mc.Fn.(*ssa.Function); ok {
					for j, bnd := range mc.Bindings {
						if bnd != ssa.Value(cell) || j >= len(lit.FreeVars) {
							continue
						}
						for _, r2 := range referrersOf(lit.FreeVars[j]) {
							if st, ok := r2.(*ssa.Store); ok && st.Addr == ssa.Value(lit.FreeVars[j]) {
								cnt++
							}
						}
					}
				}
			}
		}
		if cnt != 1 {
			return v
		}
		v = only
	}
	return v
}

// isLEUint32: v is binary.LittleEndian.Uint32(...) - directly, or as the only thing a small
// module accessor returns.
func isLEUint32(w *World, v ssa.Value, depth int) bool {
	c, ok := stripConv(v).(*ssa.Call)
	if !ok || depth > 2 {
		return false
	}
	if strings.Contains(c.String(), "LittleEndian") && strings.Contains(c.String(), "Uint32") {
		return true
	}
	if c.Call.IsInvoke() {
		return strings.Contains(c.String(), "Uint32") && strings.Contains(fmt.Sprint(c.Call.Value), "LittleEndian")
	}
	g := c.Call.StaticCallee()
	if g == nil {
		return false
	}
	if g.Pkg != nil && g.Pkg.Pkg.Path() == "encoding/binary" && g.Name() == "Uint32" {
		return strings.Contains(g.String(), "littleEndian")
	}
	if !w.inModule(g) || len(g.Blocks) == 0 {
		return false
	}
	n := 0
	for _, b := range g.Blocks {
		if ret, ok := b.Instrs[len(b.Instrs)-1].(*ssa.Return); ok {
			n++
			if len(ret.Results) != 1 || !isLEUint32(w, ret.Results[0], depth+1) {
				return false
			}
		}
	}
	return n > 0
}
