package main

import (
	"fmt"
	"go/token"
	"go/types"
	"sort"
	"strings"

	"golang.org/x/tools/go/ssa"
)

// ---------------------------------------------------------------------------
// multi-atom linear forms over SSA values

// A linSum is c + sum(coef[a] * a) over atoms a. Atoms are keyed by a string: the access
// path for loads of fields of a parameter/receiver (so that two loads of e.parityShardCount
// are the same atom), the value's identity otherwise.
type linSum struct {
	c    int64
	coef map[string]int64
	val  map[string]ssa.Value
}

func (l *linSum) add(m *linSum, k int64) {
	l.c += k * m.c
	for a, c := range m.coef {
		l.coef[a] += k * c
		if l.coef[a] == 0 {
			delete(l.coef, a)
		} else {
			l.val[a] = m.val[a]
		}
	}
}

func (l *linSum) String() string {
	var ks []string
	for a := range l.coef {
		ks = append(ks, a)
	}
	sort.Strings(ks)
	var sb strings.Builder
	for _, a := range ks {
		fmt.Fprintf(&sb, "%+d*%s ", l.coef[a], a)
	}
	fmt.Fprintf(&sb, "%+d", l.c)
	return sb.String()
}

func (l *linSum) equal(m *linSum) bool {
	d := &linSum{coef: map[string]int64{}, val: map[string]ssa.Value{}}
	d.add(l, 1)
	d.add(m, -1)
	if d.c != 0 {
		return false
	}
	// what remains must cancel pairwise as loads of one local cell with no store in between
	var keys []string
	for a := range d.coef {
		keys = append(keys, a)
	}
	sort.Strings(keys)
	for _, a := range keys {
		ca := d.coef[a]
		if ca == 0 {
			continue
		}
		found := false
		for _, b := range keys {
			if b == a || d.coef[b] != -ca {
				continue
			}
			if cellLoadsEqual(d.val[a], d.val[b]) || cellLoadsEqual(d.val[b], d.val[a]) {
				d.coef[a], d.coef[b] = 0, 0
				found = true
				break
			}
		}
		if !found {
			return false
		}
	}
	return true
}

// linOf computes the linear form of v; parameters of private helpers with one call site
// stand for the caller's argument (up).
func linOf(w *World, v ssa.Value, depth int) *linSum {
	out := &linSum{coef: map[string]int64{}, val: map[string]ssa.Value{}}
	v = stripAllConv(v)
	if c, ok := constInt(v); ok {
		out.c = c
		return out
	}
	atom := func(v ssa.Value) *linSum {
		key := fmt.Sprintf("%p", v)
		// len/cap of the same slice value are the same number wherever they are taken
		for _, bn := range []string{"len", "cap"} {
			if lc := isBuiltinCall(v, bn); lc != nil && len(lc.Call.Args) == 1 {
				key = fmt.Sprintf("%s(%p)", bn, stripAllConv(w.up(lc.Call.Args[0])))
			}
		}
		if u, ok := v.(*ssa.UnOp); ok && u.Op == token.MUL {
			if p := resolvedPath(u).Path; p != "" {
				if _, isParam := resolvedPath(u).Root.(*ssa.Parameter); isParam {
					key = fmt.Sprintf("%p%s", resolvedPath(u).Root, p)
				}
			}
		}
		out.coef[key] = 1
		out.val[key] = v
		return out
	}
	if depth > 8 {
		return atom(v)
	}
	switch x := v.(type) {
	case *ssa.BinOp:
		switch x.Op {
		case token.ADD, token.SUB:
			a, b := linOf(w, x.X, depth+1), linOf(w, x.Y, depth+1)
			out.add(a, 1)
			if x.Op == token.ADD {
				out.add(b, 1)
			} else {
				out.add(b, -1)
			}
			return out
		case token.MUL:
			if c, ok := constInt(x.Y); ok {
				out.add(linOf(w, x.X, depth+1), c)
				return out
			}
			if c, ok := constInt(x.X); ok {
				out.add(linOf(w, x.Y, depth+1), c)
				return out
			}
		}
	case *ssa.Parameter:
		if u := w.up(x); u != nil && u != ssa.Value(x) {
			return linOf(w, u, depth+1)
		}
	case *ssa.Call:
		// len(x[lo:hi]) = hi - lo
		if ln := isBuiltinCall(x, "len"); ln != nil {
			if sl, ok := stripAllConv(ln.Call.Args[0]).(*ssa.Slice); ok && sl.High != nil {
				out.add(linOf(w, sl.High, depth+1), 1)
				if sl.Low != nil {
					out.add(linOf(w, sl.Low, depth+1), -1)
				}
				return out
			}
		}
	}
	return atom(v)
}

// ---------------------------------------------------------------------------
// VOLCOVER: the recovery volumes hold every recovery block exactly once

const ruleVOLCOVERText = "every recovery block goes into exactly one volume file, under its own exponent: in (*par2.Encoder).Write (V1) a recovery packet stored under exponent K carries parityShards[K] - the same index expression; (V2) the blocks put into one volume are a run [lo, hi) with lo the volume loop's position and the next position equal to hi, the position starts at 0, and (V3) the volume loop ends only when the position has reached parityShardCount or with an error - a block filed under another exponent decodes to garbage that passes every packet checksum, a block left out or written twice makes the set weaker than its name says"

func ruleVOLCOVER(w *World, r *Report) {
	r.rule("VOLCOVER", ruleVOLCOVERText)
	fn := w.Fn("(*par2.Encoder).Write")
	if fn == nil {
		r.unk("VOLCOVER", "Write", "", "(*par2.Encoder).Write not found")
		return
	}
	n := 0
	for _, f := range region(fn) {
		loopsF := naturalLoops(f)
		for _, b := range f.Blocks {
			for _, in := range b.Instrs {
				mu, ok := in.(*ssa.MapUpdate)
				if !ok {
					continue
				}
				mt := mu.Map.Type().Underlying().String()
				if !strings.Contains(mt, "exponent") || !strings.Contains(mt, "recoveryPacket") {
					continue
				}
				n++
				key := fmt.Sprintf("Write:packet#%d", n-1)
				// V1: the shard index is the exponent
				K := linOf(w, mu.Key, 0)
				var idx []*ssa.IndexAddr
				backSlice(mu.Value, func(v ssa.Value) bool {
					if ia, ok := v.(*ssa.IndexAddr); ok {
						if _, ok := linIndexInto(w, ia, ".parityShards"); ok {
							idx = append(idx, ia)
						}
						return false
					}
					if _, ok := v.(*ssa.Phi); ok {
						return false
					}
					return true
				})
				if len(idx) != 1 {
					r.unk("VOLCOVER", key+":V1", w.ipos(mu), fmt.Sprintf("the packet's data is not one element of parityShards (%d index expressions found)", len(idx)))
					continue
				}
				K2, _ := linIndexInto(w, idx[0], ".parityShards")
				if K.equal(K2) {
					r.ok("VOLCOVER", key+":V1", w.ipos(mu), "the packet stored under exponent K carries parityShards[K]")
				} else {
					r.bad("VOLCOVER", key+":V1", w.ipos(mu), "the packet stored under one exponent carries the parity shard of another index: the block decodes as if it were a different row of the matrix, and every checksum still matches")
				}
				// V2: the run of one volume is [position, next position)
				inner := innermostLoop(loopsF, b)
				if inner == nil {
					r.unk("VOLCOVER", key+":V2", w.ipos(mu), "the packet store is not in a loop over the blocks of one volume")
					continue
				}
				// induction variable of the inner loop that occurs in K
				var j *ssa.Phi
				for _, a := range K.val {
					if p, ok := a.(*ssa.Phi); ok && p.Block() == inner.head && K.coef[fmt.Sprintf("%p", a)] == 1 {
						j = p
					}
				}
				if j == nil {
					r.unk("VOLCOVER", key+":V2", w.ipos(mu), "the exponent does not advance with the inner loop")
					continue
				}
				var start, next ssa.Value
				for i, e := range j.Edges {
					if inner.body[j.Block().Preds[i]] {
						next = e
					} else {
						start = e
					}
				}
				stepOK := false
				if next != nil {
					d := linOf(w, next, 0)
					d.add(linOf(w, j, 0), -1)
					stepOK = len(d.coef) == 0 && d.c == 1
				}
				// the bound: the inner loop's only exit is j >= B
				var bound ssa.Value
				var boundOff int64
				exits := 0
				for ib := range inner.body {
					for si, s := range ib.Succs {
						if inner.body[s] {
							continue
						}
						exits++
						if iff, ok := ib.Instrs[len(ib.Instrs)-1].(*ssa.If); ok {
							for _, cm := range factCmps(Fact{iff.Cond, si == 0, iff}) {
								if cm.Y == nil {
									continue
								}
								x, y, op := cm.X, cm.Y, cm.Op
								// the compared value is j + d (d = 1 in the rotated form of a range loop)
								isInd := func(v ssa.Value) (int64, bool) {
									l := linOf(w, v, 0)
									l.add(linOf(w, j, 0), -1)
									return l.c, len(l.coef) == 0
								}
								if _, ok := isInd(y); ok {
									x, y, op = y, x, swapOp(op)
								}
								if d, ok := isInd(x); ok && op == token.GEQ {
									bound = y
									boundOff = d
								}
							}
						}
					}
				}
				if start == nil || !stepOK || bound == nil || exits != 1 {
					r.unk("VOLCOVER", key+":V2", w.ipos(mu), "the inner loop is not of the form for j = s; j < B; j++")
					continue
				}
				A := linOf(w, mu.Key, 0)
				A.add(linOf(w, j, 0), -1) // K = j + A
				lo := linOf(w, start, 0)
				lo.add(A, 1)
				hi := linOf(w, bound, 0)
				hi.add(A, 1)
				hi.c -= boundOff
				// the outer loop: in f, or in the caller of the helper
				var site ssa.Instruction = in
				g := f
				for d := 0; d < 4 && site != nil; d++ {
					ol := outerLoopOf(naturalLoops(g), site.Block(), func(l *natLoop) bool { return g != f || l.head != inner.head })
					if ol != nil {
						checkVolumeLoop(w, r, key, mu, g, ol, lo, hi)
						site = nil
						g = nil
						break
					}
					u := w.uniqueSite(g)
					if u == nil {
						break
					}
					site, g = u, u.Parent()
				}
				if g != nil {
					r.unk("VOLCOVER", key+":V2", w.ipos(mu), "no loop over the volumes found around the loop over one volume's blocks")
				}
			}
		}
	}
	r.floor("VOLCOVER", "recovery packet stores in Encoder.Write", n, 1)
}

// outerLoopOf returns the smallest loop containing b that satisfies keep.
func outerLoopOf(loops []*natLoop, b *ssa.BasicBlock, keep func(l *natLoop) bool) *natLoop {
	var best *natLoop
	for _, l := range loops {
		if l.body[b] && keep(l) && (best == nil || len(l.body) < len(best.body)) {
			best = l
		}
	}
	return best
}

func checkVolumeLoop(w *World, r *Report, key string, mu *ssa.MapUpdate, g *ssa.Function, ol *natLoop, lo, hi *linSum) {
	// the position: a phi of the outer loop's header whose linear form is lo
	var pos *ssa.Phi
	for _, in := range ol.head.Instrs {
		p, ok := in.(*ssa.Phi)
		if !ok {
			break
		}
		if linOf(w, p, 0).equal(lo) {
			pos = p
		}
	}
	if pos == nil {
		// the runs come from a table built elsewhere (a schedule of {start, count} records read in a
		// range loop): the first exponent and the length of the run are fields of one loop element.
		// The layout is then a property of the table's contents, which this rule does not follow;
		// V1 (key = shard index) is decided above, V2/V3 are recorded as not decided in this shape.
		fromTable := len(lo.coef) > 0
		for _, a := range lo.val {
			ld, ok := a.(*ssa.UnOp)
			if !ok || ld.Op != token.MUL {
				fromTable = false
				continue
			}
			if _, isField := ld.X.(*ssa.FieldAddr); !isField {
				fromTable = false
			}
		}
		if fromTable {
			r.note("VOLCOVER " + key + ":V2/V3 at " + w.ipos(mu) + ": the volumes' first exponents are read from a table (" + describeLin(lo, nil) + "); the table's contents are not followed, only V1 is decided for this shape")
			return
		}
		r.bad("VOLCOVER", key+":V2", w.ipos(mu), "the first exponent of a volume ("+describeLin(lo, nil)+") is not the volume loop's position: blocks are skipped or repeated between volumes")
		return
	}
	bad := ""
	for i, e := range pos.Edges {
		pred := pos.Block().Preds[i]
		if ol.body[pred] {
			if !linOf(w, e, 0).equal(hi) {
				bad = "the next position is not the end of the run just written (the run ends at " + describeLin(hi, pos) + ")"
			}
		} else if c, ok := constInt(stripAllConv(e)); !ok || c != 0 {
			bad = "the position does not start at block 0"
		}
	}
	if bad != "" {
		r.bad("VOLCOVER", key+":V2", w.ipos(mu), bad+": blocks are skipped or written twice")
	} else {
		r.ok("VOLCOVER", key+":V2", w.ipos(mu), "a volume holds the run [position, next position) and the position starts at 0")
	}
	// V3: exits
	why := ""
	exits := 0
	for b := range ol.body {
		last := b.Instrs[len(b.Instrs)-1]
		if ret, ok := last.(*ssa.Return); ok {
			if len(ret.Results) > 0 && isNilConst(ret.Results[len(ret.Results)-1]) {
				why = "return nil at " + w.ipos(ret)
			}
			continue
		}
		for si, s := range b.Succs {
			if ol.body[s] {
				continue
			}
			if endsInPanic(s) {
				continue
			}
			exits++
			// an exit that only returns an error is not an end of the volume loop
			t := s
			for k := 0; k < 4 && len(t.Instrs) == 1 && len(t.Succs) == 1; k++ {
				t = t.Succs[0]
			}
			if ret, ok := t.Instrs[len(t.Instrs)-1].(*ssa.Return); ok && !ol.body[t] && t != ol.head {
				if len(ret.Results) > 0 && isErrorType(ret.Results[len(ret.Results)-1].Type()) && !isNilConst(ret.Results[len(ret.Results)-1]) {
					continue
				}
			}
			iff, ok := last.(*ssa.If)
			okEdge := false
			if ok {
				for _, cm := range factCmps(Fact{iff.Cond, si == 0, iff}) {
					if cm.Y == nil {
						continue
					}
					x, y, op := cm.X, cm.Y, cm.Op
					if stripAllConv(y) == ssa.Value(pos) {
						x, y, op = y, x, swapOp(op)
					}
					if stripAllConv(x) == ssa.Value(pos) && (op == token.GEQ || op == token.EQL) && strings.HasSuffix(resolvedPath(stripAllConv(y)).Path, ".parityShardCount") {
						okEdge = true
					}
				}
			}
			if !okEdge {
				why = "exit at " + w.ipos(last)
			}
		}
	}
	if why != "" {
		r.bad("VOLCOVER", key+":V3", w.ipos(mu), "the volume loop can end without error before the position has reached parityShardCount ("+why+"): the last blocks are never written")
	} else if exits == 0 {
		r.unk("VOLCOVER", key+":V3", w.ipos(mu), "no exit of the volume loop found")
	} else {
		r.ok("VOLCOVER", key+":V3", w.ipos(mu), "the volume loop ends only with position >= parityShardCount or an error")
	}
}

func describeLin(l *linSum, pos *ssa.Phi) string {
	var parts []string
	for a, c := range l.coef {
		name := describeVal(l.val[a])
		if l.val[a] == ssa.Value(pos) {
			name = "position"
		} else if p, ok := l.val[a].(*ssa.Phi); ok && p.Comment != "" {
			name = p.Comment
		}
		if c == 1 {
			parts = append(parts, name)
		} else {
			parts = append(parts, fmt.Sprintf("%d*%s", c, name))
		}
	}
	sort.Strings(parts)
	if l.c != 0 || len(parts) == 0 {
		parts = append(parts, fmt.Sprint(l.c))
	}
	return strings.Join(parts, " + ")
}

// ---------------------------------------------------------------------------
// EXPKEY: a recovery block keeps its exponent from the wire to the coder and back

const ruleEXPKEYText = "a packet travels with its own key - a recovery block with its exponent, a description or checksum packet with its file id: (K1) in par2.readFile the packet returned by readRecoveryPacket / readFileDescriptionPacket / readIFSCPacket is filed under the key returned by the same call; (K2) in par2.writeFile the packet handed to the matching writer is the map entry of the key handed to it; (K3) in (*par2.Decoder).LoadParityData the data of a packet taken from a volume's recoveryPackets map is stored in the parity table at the index that is the key of that very map entry - a block filed under another exponent is multiplied with the wrong matrix row, and no checksum notices"

func ruleEXPKEY(w *World, r *Report) {
	r.rule("EXPKEY", ruleEXPKEYText)
	isPacketMap := func(t interface{ String() string }) bool {
		s := t.String()
		return strings.Contains(s, "exponent") && strings.Contains(s, "recoveryPacket")
	}
	// K1
	n1 := 0
	if fn := w.Fn("par2.readFile"); fn != nil {
		for _, f := range region(fn) {
			for _, b := range f.Blocks {
				for _, in := range b.Instrs {
					mu, ok := in.(*ssa.MapUpdate)
					if !ok {
						continue
					}
					if !isPacketMap(mu.Map.Type().Underlying()) {
						// the file description and checksum packets are filed the same way
						vx, ok := stripAllConv(resolveSingle(w.up(mu.Value))).(*ssa.Extract)
						if !ok {
							continue
						}
						vcall, _ := vx.Tuple.(*ssa.Call)
						if vcall == nil || !packetReaders[staticCalleeShort(&vcall.Call)] {
							continue
						}
					}
					n1++
					key := fmt.Sprintf("K1:readFile:store#%d", n1-1)
					ke, ok1 := stripAllConv(resolveSingle(w.up(mu.Key))).(*ssa.Extract)
					ve, ok2 := stripAllConv(resolveSingle(w.up(mu.Value))).(*ssa.Extract)
					if !ok2 {
						r.unk("EXPKEY", key, w.ipos(mu), "the packet is not a result of a call")
						continue
					}
					vc, _ := ve.Tuple.(*ssa.Call)
					if vc == nil || !packetReaders[staticCalleeShort(&vc.Call)] || ve.Index != 1 {
						r.unk("EXPKEY", key, w.ipos(mu), "the packet does not come from one of the packet readers")
						continue
					}
					if ok1 && ke.Tuple == ve.Tuple && ke.Index == 0 {
						r.ok("EXPKEY", key, w.ipos(mu), "packet and key come from the same call of "+staticCalleeShort(&vc.Call))
					} else {
						r.bad("EXPKEY", key, w.ipos(mu), "the packet is filed under a key (exponent / file id) that is not the one parsed with it")
					}
				}
			}
		}
	}
	r.floor("EXPKEY", "keyed packet stores in readFile", n1, 3)
	// K2
	n2 := 0
	if fn := w.Fn("par2.writeFile"); fn != nil {
		for _, f := range region(fn) {
			for _, c := range callInstrs(f) {
				if !packetWriters[staticCalleeShort(c.Common())] || len(c.Common().Args) != 2 {
					continue
				}
				n2++
				key := fmt.Sprintf("K2:writeFile:call#%d", n2-1)
				pk := stripAllConv(c.Common().Args[1])
				if ex, ok := pk.(*ssa.Extract); ok {
					pk = ex.Tuple
				}
				switch x := pk.(type) {
				case *ssa.Lookup:
					if _, isMap := x.X.Type().Underlying().(*types.Map); !isMap {
						r.unk("EXPKEY", key, w.ipos(c), "the packet is not read from a packet map")
					} else if stripAllConv(x.Index) == stripAllConv(c.Common().Args[0]) || linOf(w, x.Index, 0).equal(linOf(w, c.Common().Args[0], 0)) {
						r.ok("EXPKEY", key, w.ipos(c), "the packet written is the map entry of the key written with it")
					} else {
						r.bad("EXPKEY", key, w.ipos(c), "the packet written under a key (exponent / file id) is the map entry of another key")
					}
				case *ssa.Extract, *ssa.Next:
					r.unk("EXPKEY", key, w.ipos(c), "packet source not recognised")
				default:
					// key and value of one map iteration
					kx, ok1 := stripAllConv(c.Common().Args[0]).(*ssa.Extract)
					vx, ok2 := stripAllConv(c.Common().Args[1]).(*ssa.Extract)
					if ok1 && ok2 && kx.Tuple == vx.Tuple && kx.Index == 1 && vx.Index == 2 {
						r.ok("EXPKEY", key, w.ipos(c), "exponent and packet are key and value of one map entry")
					} else {
						r.unk("EXPKEY", key, w.ipos(c), "packet source not recognised")
					}
				}
			}
		}
	}
	r.floor("EXPKEY", "keyed packet writer calls in writeFile", n2, 3)
	// K3
	n3 := 0
	if fn := w.Fn("(*par2.Decoder).LoadParityData"); fn != nil {
		for _, f := range region(fn) {
			for _, b := range f.Blocks {
				for _, in := range b.Instrs {
					st, ok := in.(*ssa.Store)
					if !ok {
						continue
					}
					// packet.data, with packet a value or a local variable assigned once
					var src ssa.Value
					switch x := stripAllConv(st.Val).(type) {
					case *ssa.Field:
						if fieldName(x.X.Type(), x.Field) == "data" && namedTypeName(x.X.Type()) == "recoveryPacket" {
							src = x.X
						}
					case *ssa.UnOp:
						if fa, ok := x.X.(*ssa.FieldAddr); ok && x.Op == token.MUL && fieldName(fa.X.Type(), fa.Field) == "data" && strings.HasSuffix(typeStr(fa.X.Type()), "recoveryPacket") {
							if cell, ok := fa.X.(*ssa.Alloc); ok {
								var vals []ssa.Value
								for _, ref := range referrersOf(cell) {
									if s2, ok := ref.(*ssa.Store); ok && s2.Addr == cell {
										vals = append(vals, s2.Val)
									}
								}
								if len(vals) == 1 {
									src = vals[0]
								} else {
									src = x
								}
							} else {
								src = x
							}
						}
					}
					if src == nil {
						continue
					}
					ia, ok := st.Addr.(*ssa.IndexAddr)
					if !ok {
						continue
					}
					n3++
					key := fmt.Sprintf("K3:LoadParityData:store#%d", n3-1)
					ve, ok1 := stripAllConv(resolveSingle(src)).(*ssa.Extract)
					ke, ok2 := stripAllConv(ia.Index).(*ssa.Extract)
					if !ok1 {
						r.unk("EXPKEY", key, w.ipos(st), "the packet is not the value of a map iteration")
						continue
					}
					if _, isNext := ve.Tuple.(*ssa.Next); !isNext {
						r.unk("EXPKEY", key, w.ipos(st), "the packet is not the value of a map iteration")
						continue
					}
					if ok2 && ke.Tuple == ve.Tuple && ke.Index == 1 && ve.Index == 2 {
						r.ok("EXPKEY", key, w.ipos(st), "the table index is the key of the map entry whose data is stored")
					} else {
						r.bad("EXPKEY", key, w.ipos(st), "a recovery block is stored in the parity table at an index that is not the exponent it was filed under")
					}
				}
			}
		}
	}
	r.floor("EXPKEY", "parity table stores in LoadParityData", n3, 1)
}

// ---------------------------------------------------------------------------
// PAR1VOL: PAR1 parity volume n carries parity row n-1, in its header and in its name

const rulePAR1VOLText = "PAR1 volume numbers: in (*par1.Encoder).Write the volume whose data is parityData[i] gets header.VolumeNumber i+1 and the file name number i+1 (the reader computes the matrix row from the number and checks header against name), and the index volume gets number 0 - a volume that carries another row than its number says passes its control hash and turns every repair that uses it into garbage caught only by the final MD5"

func rulePAR1VOL(w *World, r *Report) {
	r.rule("PAR1VOL", rulePAR1VOLText)
	fn := w.Fn("(*par1.Encoder).Write")
	if fn == nil {
		r.unk("PAR1VOL", "Write", "", "(*par1.Encoder).Write not found")
		return
	}
	n := 0
	for _, f := range region(fn) {
		for _, b := range f.Blocks {
			for _, in := range b.Instrs {
				st, ok := in.(*ssa.Store)
				if !ok {
					continue
				}
				fa, ok := st.Addr.(*ssa.FieldAddr)
				if !ok || fieldName(fa.X.Type(), fa.Field) != "VolumeNumber" {
					continue
				}
				if c, ok := constInt(stripAllConv(st.Val)); ok {
					if c == 0 {
						r.ok("PAR1VOL", "Write:index-volume-number", w.ipos(st), "the index volume has number 0")
					} else {
						r.bad("PAR1VOL", "Write:index-volume-number", w.ipos(st), fmt.Sprintf("a volume gets the constant number %d", c))
					}
					continue
				}
				n++
				key := fmt.Sprintf("Write:volume#%d", n-1)
				vn := linOf(w, st.Val, 0)
				root := addrPath(st.Addr).Root
				// the data of the same volume value
				var dataIdx ssa.Value
				nd := 0
				for _, b2 := range f.Blocks {
					for _, in2 := range b2.Instrs {
						st2, ok := in2.(*ssa.Store)
						if !ok {
							continue
						}
						fa2, ok := st2.Addr.(*ssa.FieldAddr)
						if !ok || fieldName(fa2.X.Type(), fa2.Field) != "data" || addrPath(st2.Addr).Root != root {
							continue
						}
						nd++
						v := stripAllConv(w.up(st2.Val))
						if ld, ok := v.(*ssa.UnOp); ok && ld.Op == token.MUL {
							if ia, ok := ld.X.(*ssa.IndexAddr); ok && strings.HasSuffix(resolvedPath(ia.X).Path, ".parityData") {
								dataIdx = ia.Index
							}
						}
					}
				}
				if nd != 1 || dataIdx == nil {
					r.unk("PAR1VOL", key+":row", w.ipos(st), "the volume's data is not one element of e.parityData")
					continue
				}
				want := linOf(w, dataIdx, 0)
				want.c++
				if vn.equal(want) {
					r.ok("PAR1VOL", key+":row", w.ipos(st), "the volume with data parityData[i] has header number i+1")
				} else {
					r.bad("PAR1VOL", key+":row", w.ipos(st), "the header's volume number is not the index of the volume's parity row plus one: the reader applies another matrix row to this data")
				}
				// the name
				names := 0
				badName := ""
				for _, g := range region(fn) {
					for _, c := range callInstrs(g) {
						if !isInvokeOf(c.Common(), "WriteFile", "par1") || len(c.Common().Args) < 1 {
							continue
						}
						if g == f && !instrReaches(st, c) {
							continue
						}
						var follow func(v ssa.Value, depth int)
						follow = func(v ssa.Value, depth int) {
							backSlice(v, func(v ssa.Value) bool {
								if mi, ok := v.(*ssa.MakeInterface); ok {
									if isIntegerType(mi.X.Type()) {
										names++
										if !linOf(w, mi.X, 0).equal(vn) {
											badName = w.ipos(c)
										}
									}
									return false
								}
								if p, ok := v.(*ssa.Parameter); ok && depth < 3 && p.Parent() != fn && p.Parent().Object() != nil && !p.Parent().Object().Exported() {
									idx := -1
									for i, q := range p.Parent().Params {
										if q == p {
											idx = i
										}
									}
									for _, site := range w.callSites(p.Parent()) {
										if site.Parent() == f && !instrReaches(st, site) {
											continue
										}
										if idx >= 0 && idx < len(site.Common().Args) {
											follow(site.Common().Args[idx], depth+1)
										}
									}
									return false
								}
								return true
							})
						}
						follow(c.Common().Args[0], 0)
					}
				}
				if names == 0 {
					r.unk("PAR1VOL", key+":name", w.ipos(st), "no number formatted into the volume's file name found")
				} else if badName != "" {
					r.bad("PAR1VOL", key+":name", w.ipos(st), "the number in the volume's file name (WriteFile at "+badName+") is not the header's volume number: the reader rejects the volume, or takes it for another one")
				} else {
					r.ok("PAR1VOL", key+":name", w.ipos(st), "the number in the file name is the header's volume number")
				}
			}
		}
	}
	r.floor("PAR1VOL", "parity volume numberings in par1 Encoder.Write", n, 1)
	// reader side: the data of the volume read from path number v is row v-1
	rd := w.Fn("(*par1.Decoder).LoadParityData")
	if rd == nil {
		r.unk("PAR1VOL", "LoadParityData", "", "(*par1.Decoder).LoadParityData not found")
		return
	}
	m := 0
	var pathNums []*linSum
	for _, f := range region(rd) {
		for _, c := range callInstrs(f) {
			if staticCalleeShort(c.Common()) == "(*par1.Decoder).volumePath" && len(c.Common().Args) == 2 {
				pathNums = append(pathNums, linOf(w, resolveSingle(c.Common().Args[1]), 0))
			}
		}
	}
	for _, f := range region(rd) {
		for _, b := range f.Blocks {
			for _, in := range b.Instrs {
				st, ok := in.(*ssa.Store)
				if !ok {
					continue
				}
				ia, ok := st.Addr.(*ssa.IndexAddr)
				if !ok {
					continue
				}
				isData := false
				switch x := stripAllConv(st.Val).(type) {
				case *ssa.Field:
					isData = fieldName(x.X.Type(), x.Field) == "data" && namedTypeName(x.X.Type()) == "volume"
				case *ssa.UnOp:
					if fa, ok := x.X.(*ssa.FieldAddr); ok && x.Op == token.MUL {
						isData = fieldName(fa.X.Type(), fa.Field) == "data" && strings.HasSuffix(typeStr(fa.X.Type()), "volume")
					}
				}
				if !isData {
					continue
				}
				m++
				key := fmt.Sprintf("LoadParityData:row#%d", m-1)
				want := linOf(w, resolveSingle(ia.Index), 0)
				want.c++
				ok2 := len(pathNums) > 0
				for _, pn := range pathNums {
					if !pn.equal(want) {
						ok2 = false
					}
				}
				if len(pathNums) == 0 {
					r.unk("PAR1VOL", key, w.ipos(st), "no volumePath call found")
				} else if ok2 {
					r.ok("PAR1VOL", key, w.ipos(st), "the data of the volume read from path number v is stored as row v-1")
				} else {
					r.bad("PAR1VOL", key, w.ipos(st), "the data of a parity volume is stored at a row that is not its volume number minus one: the coder applies another matrix row to it")
				}
			}
		}
	}
	r.floor("PAR1VOL", "parity table stores in par1 LoadParityData", m, 1)
	// shard positions: data file i is shard i, parity row i is shard len(fileData)+i
	bs := w.Fn("(*par1.Decoder).buildShards")
	if bs == nil {
		r.unk("PAR1VOL", "buildShards", "", "(*par1.Decoder).buildShards not found")
		return
	}
	k := 0
	for _, f := range region(bs) {
		for _, b := range f.Blocks {
			for _, in := range b.Instrs {
				st, ok := in.(*ssa.Store)
				if !ok {
					continue
				}
				ia, ok := st.Addr.(*ssa.IndexAddr)
				if !ok || typeStr(ia.X.Type()) != "[][]byte" {
					continue
				}
				if _, isMake := stripAllConv(upAll(w, ia.X)).(*ssa.MakeSlice); !isMake {
					continue
				}
				var src *ssa.IndexAddr
				backSlice(st.Val, func(v ssa.Value) bool {
					if src != nil {
						return false
					}
					if x, ok := v.(*ssa.IndexAddr); ok {
						p := resolvedPath(x.X).Path
						if strings.HasSuffix(p, ".fileData") || strings.HasSuffix(p, ".parityData") {
							src = x
						}
						return false
					}
					return true
				})
				if src == nil {
					continue
				}
				k++
				key := fmt.Sprintf("buildShards:shard#%d", k-1)
				d := linOf(w, ia.Index, 0)
				d.add(linOf(w, src.Index, 0), -1)
				if strings.HasSuffix(resolvedPath(src.X).Path, ".fileData") {
					if d.equal(&linSum{coef: map[string]int64{}, val: map[string]ssa.Value{}}) {
						r.ok("PAR1VOL", key, w.ipos(st), "data file i is shard i")
					} else {
						r.bad("PAR1VOL", key, w.ipos(st), "the data of file i is not placed at shard i: the coder and the write-back address shards by file index")
					}
					continue
				}
				okOff := d.c == 0 && len(d.coef) == 1
				for a, c := range d.coef {
					ln := isBuiltinCall(d.val[a], "len")
					if c != 1 || ln == nil || !strings.HasSuffix(resolvedPath(ln.Call.Args[0]).Path, ".fileData") {
						okOff = false
					}
				}
				if okOff {
					r.ok("PAR1VOL", key, w.ipos(st), "parity row i is shard len(fileData)+i")
				} else {
					r.bad("PAR1VOL", key, w.ipos(st), "parity row i is not placed at shard len(fileData)+i: the coder takes it for another row (or for a data file)")
				}
			}
		}
	}
	// the bulk form: copy(shards[len(fileData):], parityData)
	for _, f := range region(bs) {
		for _, c := range callInstrs(f) {
			cc := isBuiltinCall(c.Value(), "copy")
			if cc == nil || len(cc.Call.Args) != 2 {
				continue
			}
			srcp := resolvedPath(stripAllConv(cc.Call.Args[1])).Path
			if !strings.HasSuffix(srcp, ".parityData") && !strings.HasSuffix(srcp, ".fileData") {
				continue
			}
			k++
			key := fmt.Sprintf("buildShards:shard#%d", k-1)
			sl, ok := stripAllConv(cc.Call.Args[0]).(*ssa.Slice)
			good := false
			if ok {
				if strings.HasSuffix(srcp, ".fileData") {
					good = sl.Low == nil
					if c0, isC := constInt(sl.Low); sl.Low != nil && isC && c0 == 0 {
						good = true
					}
				} else if sl.Low != nil {
					if ln := isBuiltinCall(stripAllConv(sl.Low), "len"); ln != nil && strings.HasSuffix(resolvedPath(ln.Call.Args[0]).Path, ".fileData") {
						good = true
					}
				}
			}
			if good {
				r.ok("PAR1VOL", key, w.ipos(c), "rows copied to their positions after the data files")
			} else {
				r.bad("PAR1VOL", key, w.ipos(c), "the parity rows are not copied to shards[len(fileData):]")
			}
		}
	}
	r.floor("PAR1VOL", "shard placements in par1 buildShards", k, 2)
}

func isIntegerType(t types.Type) bool {
	b, ok := t.Underlying().(*types.Basic)
	return ok && b.Info()&types.IsInteger != 0
}

var packetReaders = map[string]bool{"par2.readRecoveryPacket": true, "par2.readFileDescriptionPacket": true, "par2.readIFSCPacket": true}
var packetWriters = map[string]bool{"par2.writeRecoveryPacket": true, "par2.writeFileDescriptionPacket": true, "par2.writeIFSCPacket": true}

// ---------------------------------------------------------------------------
// VANDER: the PAR2 parity matrix is the one of the specification

const ruleVANDERText = "the PAR2 matrix: from rsec16.NewCoderPAR2Vandermonde the matrix is built by gf2p16.NewMatrixFromFunction(rows, columns, f) with rows the parity shard count and columns the data shard count of the constructor, and f(i, j) = c(j).Pow(i) with c(j) = generators[j] - row e of the recovery data is the e-th power of the j-th constant, with no offset in either index; writer and reader share this constructor, so a deviation keeps every round trip green and produces sets no other PAR2 client can use"

// upAll follows parameters of private single-call-site helpers to the caller's argument.
func upAll(w *World, v ssa.Value) ssa.Value {
	for i := 0; i < 6; i++ {
		u := w.up(stripAllConv(resolveSingle(v)))
		if u == nil || u == v {
			return v
		}
		v = u
	}
	return v
}

func funcValue(w *World, v ssa.Value) *ssa.Function {
	v = upAll(w, v)
	switch x := stripAllConv(v).(type) {
	case *ssa.Function:
		return x
	case *ssa.MakeClosure:
		if f, ok := x.Fn.(*ssa.Function); ok {
			return f
		}
	}
	return nil
}

func ruleVANDER(w *World, r *Report) {
	r.rule("VANDER", ruleVANDERText)
	ctor := w.Fn("rsec16.NewCoderPAR2Vandermonde")
	if ctor == nil || len(ctor.Params) < 2 {
		r.unk("VANDER", "NewCoderPAR2Vandermonde", "", "constructor not found")
		return
	}
	n := 0
	for _, f := range region(ctor) {
		for _, c := range callInstrs(f) {
			if staticCalleeShort(c.Common()) != "gf2p16.NewMatrixFromFunction" || len(c.Common().Args) != 3 {
				continue
			}
			n++
			key := fmt.Sprintf("matrix#%d", n-1)
			rows, cols := upAll(w, c.Common().Args[0]), upAll(w, c.Common().Args[1])
			if rows == ssa.Value(ctor.Params[1]) && cols == ssa.Value(ctor.Params[0]) {
				r.ok("VANDER", key+":dims", w.ipos(c), "rows = parity shards, columns = data shards")
			} else {
				r.bad("VANDER", key+":dims", w.ipos(c), "the matrix does not have one row per parity shard and one column per data shard of the constructor's arguments")
			}
			el := funcValue(w, c.Common().Args[2])
			if el == nil || len(el.Params) != 2 {
				r.unk("VANDER", key+":element", w.ipos(c), "element function not resolved")
				continue
			}
			why := ""
			rets := 0
			var colFn *ssa.Function
			for _, b := range el.Blocks {
				ret, ok := b.Instrs[len(b.Instrs)-1].(*ssa.Return)
				if !ok || len(ret.Results) != 1 {
					continue
				}
				rets++
				pw, ok := stripAllConv(ret.Results[0]).(*ssa.Call)
				if !ok || staticCalleeShort(&pw.Call) != "(gf2p16.T).Pow" || len(pw.Call.Args) != 2 {
					why = "the element is not a power c(j).Pow(i)"
					continue
				}
				if stripAllConv(pw.Call.Args[1]) != ssa.Value(el.Params[0]) {
					why = "the exponent is not the row index itself"
				}
				base, ok := stripAllConv(pw.Call.Args[0]).(*ssa.Call)
				if !ok || len(base.Call.Args) != 1 || base.Call.IsInvoke() {
					why = "the base is not c(j)"
					continue
				}
				if stripAllConv(base.Call.Args[0]) != ssa.Value(el.Params[1]) {
					why = "the base is not taken at the column index itself"
				}
				if g := base.Call.StaticCallee(); g != nil {
					colFn = g
				} else {
					colFn = funcValue(w, base.Call.Value)
				}
			}
			if rets == 0 {
				why = "element function has no return"
			}
			if why != "" {
				r.bad("VANDER", key+":element", w.pos(el.Pos()), why+": element (i, j) of the PAR2 matrix is the i-th power of the j-th constant")
				continue
			}
			r.ok("VANDER", key+":element", w.pos(el.Pos()), "element (i, j) = c(j).Pow(i)")
			if colFn == nil || len(colFn.Params) != 1 {
				r.unk("VANDER", key+":constant", w.ipos(c), "the column constant function was not resolved")
				continue
			}
			why = ""
			for _, b := range colFn.Blocks {
				ret, ok := b.Instrs[len(b.Instrs)-1].(*ssa.Return)
				if !ok || len(ret.Results) != 1 {
					continue
				}
				ld, ok := stripAllConv(ret.Results[0]).(*ssa.UnOp)
				var ia *ssa.IndexAddr
				if ok && ld.Op == token.MUL {
					ia, _ = ld.X.(*ssa.IndexAddr)
				}
				if ia == nil {
					why = "the constant is not an element of the generators table"
					continue
				}
				tb, _ := stripAllConv(ia.X).(*ssa.UnOp)
				var g *ssa.Global
				if tb != nil {
					g, _ = tb.X.(*ssa.Global)
				}
				if g == nil || g.Name() != "generators" {
					why = "the constant is not an element of the generators table"
				} else if stripAllConv(ia.Index) != ssa.Value(colFn.Params[0]) {
					why = "the constant of column j is not generators[j]"
				}
			}
			if why != "" {
				r.bad("VANDER", key+":constant", w.pos(colFn.Pos()), why)
			} else {
				r.ok("VANDER", key+":constant", w.pos(colFn.Pos()), "c(j) = generators[j]")
			}
		}
	}
	r.floor("VANDER", "matrix constructions under NewCoderPAR2Vandermonde", n, 1)
}

// linIndexInto: ia addresses an element of a slice whose access path ends in suffix, directly
// or through reslicings x[lo:...]; the result is the element's index in the original slice.
func linIndexInto(w *World, ia *ssa.IndexAddr, suffix string) (*linSum, bool) {
	out := linOf(w, ia.Index, 0)
	x := stripAllConv(upAll(w, ia.X))
	for i := 0; i < 4; i++ {
		if strings.HasSuffix(resolvedPath(x).Path, suffix) {
			return out, true
		}
		sl, ok := x.(*ssa.Slice)
		if !ok {
			return out, false
		}
		if sl.Low != nil {
			out.add(linOf(w, sl.Low, 0), 1)
		}
		x = stripAllConv(upAll(w, sl.X))
	}
	return out, false
}

// ---------------------------------------------------------------------------
// VOLCONS: a volume file's blocks are used only if its main packet describes this set

const ruleVOLCONSText = "a recovery volume is accepted only if it describes this set: in (*par2.Decoder).LoadParityData every path on which a parsed volume file is handed on (a non-nil *file returned with a nil error) has passed (1) the comparison of the volume's main-packet slice size with the decoder's, (2) reflect.DeepEqual of the decoder's recovery set ids with the volume's main-packet recovery set and (3) the same for the non-recovery set - the packet checksum covers the set id field but nothing ties that field to the main packet's body, so a well-checksummed volume can carry the index's set id and another set's description; its blocks would be counted as usable and fed to the coder"

func ruleVOLCONS(w *World, r *Report) {
	r.rule("VOLCONS", ruleVOLCONSText)
	fn := w.Fn("(*par2.Decoder).LoadParityData")
	if fn == nil {
		r.unk("VOLCONS", "LoadParityData", "", "(*par2.Decoder).LoadParityData not found")
		return
	}
	mentions := func(v ssa.Value, suffix string) bool {
		found := false
		var walk func(v ssa.Value, depth int)
		walk = func(v ssa.Value, depth int) {
			if found || depth > 3 {
				return
			}
			backSlice(resolveSingle(v), func(x ssa.Value) bool {
				if found {
					return false
				}
				if strings.HasSuffix(chainPath(x, 0), suffix) {
					found = true
					return false
				}
				if y := resolveSingle(x); y != x {
					walk(y, depth+1)
				}
				return !found
			})
		}
		walk(v, 0)
		return found
	}
	n := 0
	for _, f := range region(fn) {
		for _, b := range f.Blocks {
			ret, ok := b.Instrs[len(b.Instrs)-1].(*ssa.Return)
			if !ok || len(ret.Results) != 2 || !isNilConst(ret.Results[1]) || !isErrorType(ret.Results[1].Type()) {
				continue
			}
			if typeStr(ret.Results[0].Type()) != "*par2.file" && !strings.HasSuffix(typeStr(ret.Results[0].Type()), "*file") {
				continue
			}
			if isNilConst(ret.Results[0]) {
				continue
			}
			n++
			key := fmt.Sprintf("%s:accept#%d", shortName(f), n-1)
			size, rs, nrs := false, false, false
			for _, cm := range w.factsAt(ret) {
				if cm.Op == token.EQL && cm.Y != nil {
					px, py := chainPath(w.up(cm.X), 0), chainPath(w.up(cm.Y), 0)
					if strings.HasSuffix(px, "sliceByteCount") && strings.HasSuffix(py, "sliceByteCount") && (strings.Contains(px, "mainPacket") != strings.Contains(py, "mainPacket")) {
						size = true
					}
				}
				if cm.Op == token.NEQ && cm.Y == nil {
					de, ok := stripAllConv(cm.X).(*ssa.Call)
					if !ok || calleeName(&de.Call) != "reflect.DeepEqual" || len(de.Call.Args) != 2 {
						continue
					}
					a0, a1 := de.Call.Args[0], de.Call.Args[1]
					both := func(suffix string) bool {
						return (mentions(a0, ".mainPacket"+suffix) && mentions(a1, suffix) && !mentions(a1, ".mainPacket"+suffix)) ||
							(mentions(a1, ".mainPacket"+suffix) && mentions(a0, suffix) && !mentions(a0, ".mainPacket"+suffix))
					}
					if both(".recoverySet") {
						rs = true
					}
					if both(".nonRecoverySet") {
						nrs = true
					}
				}
			}
			var missing []string
			if !size {
				missing = append(missing, "slice size")
			}
			if !rs {
				missing = append(missing, "recovery set")
			}
			if !nrs {
				missing = append(missing, "non-recovery set")
			}
			if len(missing) == 0 {
				r.ok("VOLCONS", key, w.ipos(ret), "the volume is handed on only after slice size, recovery set and non-recovery set matched the index file's")
			} else {
				r.bad("VOLCONS", key, w.ipos(ret), "a volume file is accepted without comparing its main packet's "+strings.Join(missing, ", ")+" with the index file's: blocks computed for another set are counted as usable and used for reconstruction")
			}
		}
	}
	r.floor("VOLCONS", "volume acceptances in LoadParityData", n, 1)
}

// chainPath spells a value as the chain of field selections that reads it, through pointer
// loads: <root>.mainPacket.sliceByteCount. Elements of slices and arrays are written [*].
func chainPath(v ssa.Value, depth int) string {
	if depth > 8 {
		return "?"
	}
	v = stripAllConv(v)
	switch x := v.(type) {
	case *ssa.UnOp:
		if x.Op == token.MUL {
			return chainPath(x.X, depth+1)
		}
	case *ssa.FieldAddr:
		return chainPath(x.X, depth+1) + "." + fieldName(x.X.Type(), x.Field)
	case *ssa.Field:
		return chainPath(x.X, depth+1) + "." + fieldName(x.X.Type(), x.Field)
	case *ssa.IndexAddr:
		return chainPath(x.X, depth+1) + "[*]"
	case *ssa.Alloc:
		return "<" + x.Comment + ">"
	case *ssa.Parameter:
		return "<" + x.Name() + ">"
	case *ssa.FreeVar:
		return "<" + x.Name() + ">"
	}
	return "<" + v.Name() + ">"
}

// ---------------------------------------------------------------------------
// ALLINPUTS: every file named to Create reaches the encoder

const ruleALLINPUTSText = "every input file is protected: in par1.create and par2.create the list of paths handed to the encoder's constructor is the caller's list itself, a slice made with len(list) elements, or a slice to which every iteration of a loop over the list appends (the append dominates every back-edge of that loop) - a filter on the way silently leaves files out of the set, and verify and repair then report a clean bill for files that were never protected"

func ruleALLINPUTS(w *World, r *Report, pkgs ...string) {
	r.rule("ALLINPUTS", ruleALLINPUTSText)
	n := 0
	for _, pk := range pkgs {
		fn := w.Fn(pk + ".create")
		if fn == nil || len(fn.Params) < 3 || typeStr(fn.Params[2].Type()) != "[]string" {
			r.unk("ALLINPUTS", pk+".create", "", "create(fileIO, parPath, filePaths []string, ...) not found")
			continue
		}
		P := ssa.Value(fn.Params[2])
		for _, f := range region(fn) {
			for _, c := range callInstrs(f) {
				if staticCalleeShort(c.Common()) != pk+".newEncoder" {
					continue
				}
				for _, a := range c.Common().Args {
					if typeStr(a.Type()) != "[]string" {
						continue
					}
					n++
					key := fmt.Sprintf("%s.create:inputs#%d", pk, n-1)
					isP := func(v ssa.Value) bool { return upTo(w, fn, v) == P }
					A := upTo(w, fn, a)
					// a helper that returns the list (possibly next to an error): what it returns
					for d := 0; d < 3; d++ {
						var call *ssa.Call
						idx := 0
						switch x := A.(type) {
						case *ssa.Extract:
							call, _ = x.Tuple.(*ssa.Call)
							idx = x.Index
						case *ssa.Call:
							call = x
						}
						if call == nil {
							break
						}
						g := call.Call.StaticCallee()
						if g == nil || !w.inModule(g) || len(g.Blocks) == 0 || isBuiltinCall(call, "append") != nil {
							break
						}
						var cands []ssa.Value
						for _, gb := range g.Blocks {
							if ret, ok := gb.Instrs[len(gb.Instrs)-1].(*ssa.Return); ok && idx < len(ret.Results) && !isNilConst(ret.Results[idx]) {
								cands = append(cands, ret.Results[idx])
							}
						}
						if len(cands) != 1 {
							break
						}
						A = upTo(w, fn, cands[0])
					}
					if isP(A) {
						r.ok("ALLINPUTS", key, w.ipos(c), "the caller's list is handed on unchanged")
						continue
					}
					if mk, ok := A.(*ssa.MakeSlice); ok {
						ln := isBuiltinCall(stripAllConv(mk.Len), "len")
						if ln != nil && isP(ln.Call.Args[0]) {
							r.ok("ALLINPUTS", key, w.ipos(c), "a slice with one element per input path")
						} else {
							r.bad("ALLINPUTS", key, w.ipos(c), "the list handed to the encoder is not made with one element per input path")
						}
						continue
					}
					// built by appends
					var apps []*ssa.Call
					backSlice(A, func(v ssa.Value) bool {
						if ap := isBuiltinCall(v, "append"); ap != nil {
							apps = append(apps, ap)
						}
						return true
					})
					if len(apps) == 0 {
						r.unk("ALLINPUTS", key, w.ipos(c), "origin of the path list not recognised")
						continue
					}
					bad := ""
					for _, ap := range apps {
						g := ap.Parent()
						l := innermostLoop(naturalLoops(g), ap.Block())
						if l == nil {
							continue
						}
						for _, p := range l.head.Preds {
							if l.body[p] && !ap.Block().Dominates(p) {
								bad = w.ipos(ap)
							}
						}
					}
					if bad != "" {
						r.bad("ALLINPUTS", key, w.ipos(c), "the list handed to the encoder is built by an append ("+bad+") that some iterations skip: input files are filtered out on the way and are not protected by the set")
					} else {
						r.ok("ALLINPUTS", key, w.ipos(c), "every iteration over the inputs appends to the list handed on")
					}
				}
			}
		}
	}
	r.floor("ALLINPUTS", "path lists handed to newEncoder", n, len(pkgs))
}

// ---------------------------------------------------------------------------
// IDXLEN: an index counted from the end needs the slice to be that long

const ruleIDXLENText = "no index before the start: in the Go code of package gf2p16 an index or slice bound of the form len(s) - k (k >= 1) is evaluated only where len(s) >= k is known (a dominating comparison); a bounds-check hint such as `_ = out[len(in)-1]` turns the documented no-op on empty buffers into a panic"

func ruleIDXLEN(w *World, r *Report, pkgs ...string) {
	r.rule("IDXLEN", ruleIDXLENText)
	rangeWorld = w
	n := 0
	for _, fn := range w.funcsInPkgs(pkgs...) {
		k := 0
		for _, b := range fn.Blocks {
			for _, in := range b.Instrs {
				var idxs []ssa.Value
				switch x := in.(type) {
				case *ssa.IndexAddr:
					if _, isSlice := x.X.Type().Underlying().(*types.Slice); isSlice {
						idxs = append(idxs, x.Index)
					}
				case *ssa.Index:
					idxs = append(idxs, x.Index)
				case *ssa.Slice:
					if x.Low != nil {
						idxs = append(idxs, x.Low)
					}
					if x.High != nil {
						idxs = append(idxs, x.High)
					}
				}
				for _, idx := range idxs {
					l := linOf(w, idx, 0)
					if l.c >= 0 || len(l.coef) != 1 {
						continue
					}
					var lenCall *ssa.Call
					for a, c := range l.coef {
						if c == 1 {
							lenCall = isBuiltinCall(l.val[a], "len")
						}
					}
					if lenCall == nil {
						continue
					}
					n++
					key := fmt.Sprintf("%s:index#%d", shortName(fn), k)
					k++
					rc := &rangeCtx{memo: map[ssa.Value]*ival{}, busy: map[ssa.Value]bool{}}
					iv := rc.eval(lenCall, b)
					need := -l.c
					// a comparison of len() of the same slice with a constant, anywhere above
					known := int64(0)
					for _, cm := range w.factsAt(in) {
						if cm.Y == nil {
							continue
						}
						x, y, op := cm.X, cm.Y, cm.Op
						if isBuiltinCall(stripAllConv(y), "len") != nil {
							x, y, op = y, x, swapOp(op)
						}
						lc := isBuiltinCall(stripAllConv(x), "len")
						k, isC := constInt(y)
						if lc == nil || !isC || stripAllConv(lc.Call.Args[0]) != stripAllConv(lenCall.Call.Args[0]) {
							continue
						}
						switch op {
						case token.GTR:
							if k+1 > known {
								known = k + 1
							}
						case token.GEQ, token.EQL:
							if k > known {
								known = k
							}
						case token.NEQ:
							if k == 0 && known < 1 {
								known = 1
							}
						}
					}
					if known >= need || (iv != nil && iv.lo.IsInt64() && iv.lo.Int64() >= need) {
						r.ok("IDXLEN", key, w.ipos(in), fmt.Sprintf("len >= %d is known here", need))
					} else {
						r.bad("IDXLEN", key, w.ipos(in), fmt.Sprintf("the index len(%s)%+d is evaluated where the slice is not known to have %d element(s): an empty buffer panics", describeVal(lenCall.Call.Args[0]), l.c, need))
					}
				}
			}
		}
	}
	r.stat("idxlen_sites", n)
}

// ---------------------------------------------------------------------------
// ROLLSCAN: the byte-by-byte search and its rolling checksum stay in step

const ruleROLLSCANText = "the search advances one byte on a miss and one slice on a hit, and the rolling checksum is only ever rolled by one byte: in par2.fillShardInfos (R1) the slice looked up is sliceAndPadByteArray(data, j, j+sliceByteCount) for the scan position j; (R2) the position's next value is j+1 where the lookup was empty and j+sliceByteCount where it was not, nothing else; (R3) a checksum obtained from crc32Window.update is used only in an iteration that follows a miss (the flag that selects it can be true only on the back-edges that advance by one; it is false at entry and after a hit), is computed from the previous iteration's checksum, the byte that left the window (data[j-1]) and the last byte of the current padded slice, with a window made for sliceByteCount; every other iteration computes crc32.ChecksumIEEE of the same slice; (R4) the checksum handed to the lookup is the one computed for the slice handed to it"

func ruleROLLSCAN(w *World, r *Report) {
	r.rule("ROLLSCAN", ruleROLLSCANText)
	fn := w.Fn("par2.fillShardInfos")
	if fn == nil || len(fn.Params) < 2 {
		r.unk("ROLLSCAN", "fillShardInfos", "", "function not found")
		return
	}
	sliceSize, data := ssa.Value(fn.Params[0]), ssa.Value(fn.Params[1])
	var get *ssa.Call
	nget := 0
	for _, c := range callInstrs(fn) {
		if cc, ok := c.(*ssa.Call); ok && staticCalleeShort(c.Common()) == "(par2.checksumShardLocationMap).get" && len(c.Common().Args) == 3 {
			get = cc
			nget++
		}
	}
	r.floor("ROLLSCAN", "checksum lookups in fillShardInfos", nget, 1)
	if nget != 1 {
		if nget > 1 {
			r.unk("ROLLSCAN", "fillShardInfos:lookup", w.pos(fn.Pos()), "more than one lookup in the scan")
		}
		return
	}
	var scan *natLoop
	for _, l := range naturalLoops(fn) {
		if l.body[get.Block()] && (scan == nil || len(l.body) > len(scan.body)) {
			scan = l
		}
	}
	if scan == nil {
		r.bad("ROLLSCAN", "fillShardInfos:R1", w.ipos(get), "the lookup is not inside a scan loop")
		return
	}
	// R1: the slice
	sl, ok := stripAllConv(get.Call.Args[2]).(*ssa.Call)
	if !ok || staticCalleeShort(&sl.Call) != "par2.sliceAndPadByteArray" || len(sl.Call.Args) != 3 {
		r.unk("ROLLSCAN", "fillShardInfos:R1", w.ipos(get), "the slice looked up is not a result of sliceAndPadByteArray")
		return
	}
	J, _ := stripAllConv(sl.Call.Args[1]).(*ssa.Phi)
	if J == nil || J.Block() != scan.head || stripAllConv(sl.Call.Args[0]) != data {
		r.bad("ROLLSCAN", "fillShardInfos:R1", w.ipos(sl), "the slice looked up does not start at the scan position of the data")
		return
	}
	wantEnd := linOf(w, J, 0)
	wantEnd.add(linOf(w, sliceSize, 0), 1)
	if linOf(w, sl.Call.Args[2], 0).equal(wantEnd) {
		r.ok("ROLLSCAN", "fillShardInfos:R1", w.ipos(sl), "the slice looked up is data[j : j+sliceByteCount], padded")
	} else {
		r.bad("ROLLSCAN", "fillShardInfos:R1", w.ipos(sl), "the slice looked up is not sliceByteCount bytes from the scan position")
	}
	// R2: the steps
	isMissFact := func(b *ssa.BasicBlock, empty bool) bool {
		for _, cm := range cmpsAt(b) {
			if cm.Y == nil {
				continue
			}
			x, y, op := cm.X, cm.Y, cm.Op
			if isBuiltinCall(stripAllConv(y), "len") != nil {
				x, y, op = y, x, swapOp(op)
			}
			lc := isBuiltinCall(stripAllConv(x), "len")
			k, isC := constInt(y)
			if lc == nil || !isC || stripAllConv(lc.Call.Args[0]) != ssa.Value(get) {
				continue
			}
			if empty && ((op == token.EQL && k == 0) || (op == token.LEQ && k == 0) || (op == token.LSS && k == 1)) {
				return true
			}
			if !empty && ((op == token.NEQ && k == 0) || (op == token.GTR && k == 0) || (op == token.GEQ && k == 1)) {
				return true
			}
		}
		return false
	}
	one := linOf(w, J, 0)
	one.c++
	stepBad := ""
	oneEdges := map[int]bool{}
	nback := 0
	for i, e := range J.Edges {
		pred := J.Block().Preds[i]
		if !scan.body[pred] {
			if c, ok := constInt(stripAllConv(e)); !ok || c != 0 {
				stepBad = "the scan does not start at offset 0"
			}
			continue
		}
		nback++
		le := linOf(w, e, 0)
		switch {
		case le.equal(one):
			oneEdges[i] = true
			if !isMissFact(pred, true) {
				stepBad = "the position advances by one byte on a path where the lookup is not known to have been empty (" + w.ipos(pred.Instrs[len(pred.Instrs)-1]) + ")"
			}
		case le.equal(wantEnd):
			if !isMissFact(pred, false) {
				stepBad = "the position advances by a whole slice on a path where the lookup is not known to have found the slice (" + w.ipos(pred.Instrs[len(pred.Instrs)-1]) + "): offsets are skipped after a miss"
			}
		default:
			stepBad = "the position advances by something other than one byte or one slice (" + w.ipos(pred.Instrs[len(pred.Instrs)-1]) + ")"
		}
	}
	if nback == 0 {
		stepBad = "the scan position never advances"
	}
	if stepBad == "" {
		r.ok("ROLLSCAN", "fillShardInfos:R2", w.ipos(get), "j+1 after an empty lookup, j+sliceByteCount after a hit, start at 0")
	} else {
		r.bad("ROLLSCAN", "fillShardInfos:R2", w.ipos(get), stepBad)
	}
	// R3/R4: the checksum
	var leaves []ssa.Value
	var collect func(v ssa.Value, depth int)
	seen := map[ssa.Value]bool{}
	collect = func(v ssa.Value, depth int) {
		v = stripAllConv(v)
		if seen[v] || depth > 6 {
			return
		}
		seen[v] = true
		if p, ok := v.(*ssa.Phi); ok && (p.Parent() != fn || (scan.body[p.Block()] && p.Block() != scan.head)) {
			for _, e := range p.Edges {
				collect(e, depth+1)
			}
			return
		}
		// a private helper that computes the checksum: its return values
		if c, ok := v.(*ssa.Call); ok {
			if g := c.Call.StaticCallee(); g != nil && g != fn && inRegion(fn, g) && len(g.Blocks) > 0 && w.uniqueSite(g) != nil && g.Signature.Results().Len() == 1 {
				for _, gb := range g.Blocks {
					if ret, ok := gb.Instrs[len(gb.Instrs)-1].(*ssa.Return); ok && len(ret.Results) == 1 {
						collect(ret.Results[0], depth+1)
					}
				}
				return
			}
		}
		leaves = append(leaves, v)
	}
	collect(get.Call.Args[1], 0)
	nroll := 0
	for li, lv := range leaves {
		key := fmt.Sprintf("fillShardInfos:R3:checksum#%d", li)
		c, ok := lv.(*ssa.Call)
		if !ok {
			r.bad("ROLLSCAN", key, w.ipos(get), "the checksum handed to the lookup is not computed in this iteration (it is "+describeVal(lv)+")")
			continue
		}
		switch calleeName(&c.Call) {
		case "hash/crc32.ChecksumIEEE":
			if len(c.Call.Args) == 1 && stripAllConv(upTo(w, fn, c.Call.Args[0])) == ssa.Value(sl) {
				r.ok("ROLLSCAN", key, w.ipos(c), "crc32.ChecksumIEEE of the slice looked up")
			} else {
				r.bad("ROLLSCAN", key, w.ipos(c), "the full checksum is computed over something else than the slice looked up")
			}
			continue
		}
		if staticCalleeShort(&c.Call) != "(*par2.crc32Window).update" || len(c.Call.Args) != 4 {
			r.unk("ROLLSCAN", key, w.ipos(c), "checksum source not recognised")
			continue
		}
		nroll++
		why := ""
		// the window
		if wc, ok := stripAllConv(resolveSingle(upTo(w, fn, c.Call.Args[0]))).(*ssa.Call); !ok || staticCalleeShort(&wc.Call) != "par2.newCRC32Window" || len(wc.Call.Args) != 1 || stripAllConv(wc.Call.Args[0]) != sliceSize {
			why = "the window is not made for sliceByteCount"
		}
		// previous checksum: a phi at the loop head that carries the looked-up checksum over every back-edge
		if prev, ok := stripAllConv(upTo(w, fn, c.Call.Args[1])).(*ssa.Phi); !ok || prev.Block() != scan.head {
			why = "the checksum rolled is not the one carried over from the previous iteration"
		} else {
			for i, e := range prev.Edges {
				if scan.body[prev.Block().Preds[i]] && stripAllConv(e) != stripAllConv(get.Call.Args[1]) {
					why = "the checksum carried into the next iteration is not the one of the window just looked up"
				}
			}
		}
		// the byte that left the window: data[j-1]
		okOld := false
		if ld, ok := stripAllConv(c.Call.Args[2]).(*ssa.UnOp); ok && ld.Op == token.MUL {
			if ia, ok := ld.X.(*ssa.IndexAddr); ok && stripAllConv(upTo(w, fn, ia.X)) == data {
				want := linOf(w, J, 0)
				want.c--
				okOld = linOf(w, ia.Index, 0).equal(want)
			}
		}
		if !okOld {
			why = "the byte rolled out is not data[j-1]"
		}
		// the byte that entered: the last byte of the padded slice
		okNew := false
		if ld, ok := stripAllConv(c.Call.Args[3]).(*ssa.UnOp); ok && ld.Op == token.MUL {
			if ia, ok := ld.X.(*ssa.IndexAddr); ok && stripAllConv(upTo(w, fn, ia.X)) == ssa.Value(sl) {
				l := linOf(w, ia.Index, 0)
				if l.c == -1 && len(l.coef) == 1 {
					for a, k := range l.coef {
						if ln := isBuiltinCall(l.val[a], "len"); k == 1 && ln != nil && stripAllConv(upTo(w, fn, ln.Call.Args[0])) == ssa.Value(sl) {
							okNew = true
						}
					}
				}
			}
		}
		if !okNew {
			why = "the byte rolled in is not the last byte of the current padded slice"
		}
		// executed only after a miss at j-1: a flag phi at the loop head, true exactly on the +1 edges
		flagOK := false
		for _, cm := range w.factsAt(c) {
			if cm.Op != token.NEQ || cm.Y != nil {
				continue
			}
			fp, ok := stripAllConv(upTo(w, fn, cm.X)).(*ssa.Phi)
			if !ok || fp.Block() != scan.head {
				continue
			}
			good := true
			for i, e := range fp.Edges {
				// the phis of one block share predecessor order. After a one-byte advance the
				// flag may be anything (computing the full checksum is always right); everywhere
				// else it must be the constant false
				if scan.body[fp.Block().Preds[i]] && oneEdges[i] {
					continue
				}
				if bv, isC := constBool(e); !isC || bv {
					good = false
				}
			}
			if good {
				flagOK = true
			}
		}
		if !flagOK {
			why = "the rolled checksum is used in an iteration that does not follow a one-byte advance (the flag guarding it can be true at entry or after a hit): after a hit, or at the start, the previous checksum belongs to another window"
		}
		if why == "" {
			r.ok("ROLLSCAN", key, w.ipos(c), "rolled by one byte from the previous window's checksum, only after a miss")
		} else {
			r.bad("ROLLSCAN", key, w.ipos(c), why)
		}
	}
	r.stat("rollscan_rolling_updates", nroll)
}

// ---------------------------------------------------------------------------
// WINTAB: the rolling-checksum table has an entry for every byte value

const ruleWINTABText = "the table the rolling checksum reads is complete: in par2.newCRC32Window the 256-entry table indexed by the byte that leaves the window is written at every index 0..255 (constant indices, and loops whose index starts at a constant, steps by one and runs to a constant bound), it is the table stored in the window that is returned, and the window size argument is what sizes the probe buffer (windowSize+1 bytes)"

func ruleWINTAB(w *World, r *Report) {
	r.rule("WINTAB", ruleWINTABText)
	fn := w.Fn("par2.newCRC32Window")
	if fn == nil || len(fn.Params) != 1 {
		r.unk("WINTAB", "newCRC32Window", "", "function not found")
		return
	}
	n := 0
	for _, b := range fn.Blocks {
		for _, in := range b.Instrs {
			al, ok := in.(*ssa.Alloc)
			if !ok {
				continue
			}
			alen, isArr := arrayLenOf(al.Type())
			if !isArr || alen != 256 {
				continue
			}
			n++
			key := fmt.Sprintf("newCRC32Window:table#%d", n-1)
			covered := make([]bool, 256)
			undecided := ""
			for _, ref := range referrersOf(al) {
				ia, ok := ref.(*ssa.IndexAddr)
				if !ok {
					continue
				}
				stored := false
				for _, r2 := range referrersOf(ia) {
					if st, ok := r2.(*ssa.Store); ok && st.Addr == ssa.Value(ia) {
						stored = true
					}
				}
				if !stored {
					continue
				}
				if c, ok := constInt(stripAllConv(ia.Index)); ok {
					if c >= 0 && c < 256 {
						covered[c] = true
					}
					continue
				}
				// loop index: phi(init const, phi+1) with exit i >= bound const; the store dominates the back-edge
				p, ok := stripAllConv(ia.Index).(*ssa.Phi)
				if !ok || len(p.Edges) != 2 {
					undecided = w.ipos(ia)
					continue
				}
				var init, bound int64 = -1, -1
				stepOK := false
				for i, e := range p.Edges {
					pred := p.Block().Preds[i]
					if c, ok := constInt(stripAllConv(e)); ok && !p.Block().Dominates(pred) {
						init = c
						continue
					}
					d := linOf(w, e, 0)
					d.add(linOf(w, p, 0), -1)
					if len(d.coef) == 0 && d.c == 1 && ia.Block().Dominates(pred) {
						stepOK = true
					}
				}
				if iff, ok := p.Block().Instrs[len(p.Block().Instrs)-1].(*ssa.If); ok {
					for _, cm := range factCmps(Fact{iff.Cond, true, iff}) {
						if cm.Y == nil || stripAllConv(cm.X) != ssa.Value(p) {
							continue
						}
						if k, ok := constInt(cm.Y); ok {
							if cm.Op == token.LSS {
								bound = k
							} else if cm.Op == token.LEQ {
								bound = k + 1
							}
						}
					}
				}
				if init < 0 || bound < 0 || !stepOK {
					undecided = w.ipos(ia)
					continue
				}
				for i := init; i < bound && i < 256; i++ {
					covered[i] = true
				}
			}
			missing := -1
			for i, c := range covered {
				if !c {
					missing = i
					break
				}
			}
			switch {
			case missing < 0:
				r.ok("WINTAB", key, w.ipos(al), "written at every index 0..255")
			case undecided != "":
				r.unk("WINTAB", key, undecided, "a store into the table has an index that is neither a constant nor a simple counting loop")
			default:
				r.bad("WINTAB", key, w.ipos(al), fmt.Sprintf("entry %d of the table is never written: a window whose leaving byte has that value rolls to a wrong checksum, and the slice behind it is not found", missing))
			}
		}
	}
	r.floor("WINTAB", "256-entry tables in newCRC32Window", n, 1)
}

// upTo is upAll that does not leave fn: a parameter of fn itself stays what it is.
func upTo(w *World, fn *ssa.Function, v ssa.Value) ssa.Value {
	for i := 0; i < 8; i++ {
		v = stripAllConv(resolveSingle(v))
		p, ok := v.(*ssa.Parameter)
		if !ok || p.Parent() == fn {
			return v
		}
		site := w.uniqueSite(p.Parent())
		if site == nil {
			return v
		}
		idx := -1
		for j, q := range p.Parent().Params {
			if q == p {
				idx = j
			}
		}
		if idx < 0 || idx >= len(site.Common().Args) {
			return v
		}
		v = site.Common().Args[idx]
	}
	return v
}

// ---------------------------------------------------------------------------
// PADCUT: a padded slice has exactly the length asked for

const rulePADCUTText = "a padded slice is end-start bytes long: in par2.sliceAndPadByteArray the result is bs[start:e] plus p zero bytes with, on every path, (e - start) + p = end - start: either e = end and p = 0, or e = len(bs) and p = end - len(bs) - the slice search cuts candidates at every byte offset, where a padding computed from len(bs) modulo the slice size is wrong although it is right at the aligned offsets the writer uses"

func rulePADCUT(w *World, r *Report) {
	r.rule("PADCUT", rulePADCUTText)
	fn := w.Fn("par2.sliceAndPadByteArray")
	if fn == nil || len(fn.Params) != 3 {
		r.unk("PADCUT", "sliceAndPadByteArray", "", "function not found")
		return
	}
	bs, start, end := ssa.Value(fn.Params[0]), ssa.Value(fn.Params[1]), ssa.Value(fn.Params[2])
	_ = start
	lenBs := func(v ssa.Value) bool {
		ln := isBuiltinCall(stripAllConv(v), "len")
		return ln != nil && stripAllConv(ln.Call.Args[0]) == bs
	}
	// the cut: a Slice of bs with Low = start; High is a phi / value e
	var cut *ssa.Slice
	ncut := 0
	for _, b := range fn.Blocks {
		for _, in := range b.Instrs {
			if sl, ok := in.(*ssa.Slice); ok && stripAllConv(sl.X) == bs && sl.Low != nil && stripAllConv(sl.Low) == start {
				ncut++
				cut = sl
			}
		}
	}
	if ncut > 1 {
		// several cuts (an early return for the unpadded case): judge what each return hands out -
		// bs[start:e], or append(bs[start:e], make([]byte, p)...) - with e + p = end
		var leaves []ssa.Value
		seen := map[ssa.Value]bool{}
		var collect func(v ssa.Value)
		collect = func(v ssa.Value) {
			v = stripAllConv(v)
			if seen[v] {
				return
			}
			seen[v] = true
			if ph, ok := v.(*ssa.Phi); ok {
				for _, e := range ph.Edges {
					collect(e)
				}
				return
			}
			leaves = append(leaves, v)
		}
		for _, b := range fn.Blocks {
			if ret, ok := b.Instrs[len(b.Instrs)-1].(*ssa.Return); ok && len(ret.Results) == 1 {
				collect(ret.Results[0])
			}
		}
		for i, lf := range leaves {
			key := fmt.Sprintf("sliceAndPadByteArray:case#%d", i)
			var sl *ssa.Slice
			var pad ssa.Value
			switch x := lf.(type) {
			case *ssa.Slice:
				sl = x
			case *ssa.Call:
				if ap := isBuiltinCall(x, "append"); ap != nil && len(ap.Call.Args) == 2 {
					sl, _ = stripAllConv(ap.Call.Args[0]).(*ssa.Slice)
					if mk, ok := stripAllConv(ap.Call.Args[1]).(*ssa.MakeSlice); ok {
						pad = mk.Len
					}
				}
			}
			if sl == nil || stripAllConv(sl.X) != bs || sl.Low == nil || stripAllConv(sl.Low) != start || sl.High == nil {
				r.unk("PADCUT", key, w.pos(fn.Pos()), "a return value is neither bs[start:e] nor append(bs[start:e], make(p)...)")
				continue
			}
			if _, isPhi := stripAllConv(sl.High).(*ssa.Phi); isPhi {
				r.unk("PADCUT", key, w.ipos(sl), "the cut's end is merged from several values in a shape with several cuts")
				continue
			}
			sum := &linSum{coef: map[string]int64{}, val: map[string]ssa.Value{}}
			sum.add(linOf(w, sl.High, 0), 1)
			if pad != nil {
				if _, isPhi := stripAllConv(pad).(*ssa.Phi); isPhi {
					r.unk("PADCUT", key, w.ipos(sl), "the padding length is merged from several values in a shape with several cuts")
					continue
				}
				sum.add(linOf(w, pad, 0), 1)
			}
			if sum.equal(linOf(w, end, 0)) {
				r.ok("PADCUT", key, w.ipos(sl), "cut end + padding = end")
			} else {
				r.bad("PADCUT", key, w.ipos(sl), "the cut's end plus the padding length is not the requested end: the padded slice is not end-start bytes long (or is padded by an amount that is only right at aligned offsets)")
			}
		}
		r.floor("PADCUT", "cases of sliceAndPadByteArray", len(leaves), 1)
		return
	}
	if cut == nil || cut.High == nil {
		r.unk("PADCUT", "sliceAndPadByteArray:cut", w.pos(fn.Pos()), "no cut bs[start:e] found")
		return
	}
	// the pad: every make([]byte, p) in the function
	var pads []ssa.Value
	for _, b := range fn.Blocks {
		for _, in := range b.Instrs {
			if mk, ok := in.(*ssa.MakeSlice); ok {
				pads = append(pads, mk.Len)
			}
		}
	}
	if len(pads) != 1 {
		r.unk("PADCUT", "sliceAndPadByteArray:pad", w.pos(fn.Pos()), fmt.Sprintf("%d padding allocations found, expected one", len(pads)))
		return
	}
	// enumerate the cases edge by edge: e and p are phis of one block (or plain values)
	type pair struct {
		e, p ssa.Value
		at   string
	}
	var cases []pair
	ep, eIsPhi := stripAllConv(cut.High).(*ssa.Phi)
	pp, pIsPhi := stripAllConv(pads[0]).(*ssa.Phi)
	switch {
	case eIsPhi && pIsPhi && ep.Block() == pp.Block():
		for i := range ep.Edges {
			pred := ep.Block().Preds[i]
			cases = append(cases, pair{ep.Edges[i], pp.Edges[i], w.ipos(pred.Instrs[len(pred.Instrs)-1])})
		}
	case !eIsPhi && !pIsPhi:
		cases = append(cases, pair{cut.High, pads[0], w.ipos(cut)})
	default:
		r.unk("PADCUT", "sliceAndPadByteArray:cases", w.ipos(cut), "the cut's end and the padding length are not merged at the same place")
		return
	}
	for i, c := range cases {
		key := fmt.Sprintf("sliceAndPadByteArray:case#%d", i)
		le, lp := linOf(w, c.e, 0), linOf(w, c.p, 0)
		// substitute: atoms that are parameters of fn must not be sent up - linOf does that through w.up;
		// compare e + p with end as linear forms built the same way
		sum := &linSum{coef: map[string]int64{}, val: map[string]ssa.Value{}}
		sum.add(le, 1)
		sum.add(lp, 1)
		if sum.equal(linOf(w, end, 0)) {
			r.ok("PADCUT", key, c.at, "cut end + padding = end")
		} else {
			_ = lenBs
			r.bad("PADCUT", key, c.at, "the cut's end plus the padding length is not the requested end: the padded slice is not end-start bytes long (or is padded by an amount that is only right at aligned offsets)")
		}
	}
	r.floor("PADCUT", "cases of sliceAndPadByteArray", len(cases), 1)
}

// ---------------------------------------------------------------------------
// DIVZERO: the command line tool does not divide by a count that can be zero

const ruleDIVZEROText = "no division by a count that can be zero in cmd/par: every integer / and % in package main has a divisor that is a non-zero constant or is known non-zero where the division happens (a dominating comparison) - a panic in a logging delegate ends the process with status 2, which the par command uses for 'repair not possible'"

func ruleDIVZERO(w *World, r *Report, pkgs ...string) {
	r.rule("DIVZERO", ruleDIVZEROText)
	rangeWorld = w
	n := 0
	for _, fn := range w.funcsInPkgs(pkgs...) {
		k := 0
		for _, b := range fn.Blocks {
			for _, in := range b.Instrs {
				bo, ok := in.(*ssa.BinOp)
				if !ok || (bo.Op != token.QUO && bo.Op != token.REM) || !isIntegerType(bo.Type()) {
					continue
				}
				n++
				key := fmt.Sprintf("%s:div#%d", shortName(fn), k)
				k++
				if c, ok := constInt(bo.Y); ok && c != 0 {
					r.ok("DIVZERO", key, w.ipos(bo), "constant divisor")
					continue
				}
				if c, ok := constUint(bo.Y); ok && c != 0 {
					r.ok("DIVZERO", key, w.ipos(bo), "constant divisor")
					continue
				}
				rc := &rangeCtx{memo: map[ssa.Value]*ival{}, busy: map[ssa.Value]bool{}}
				iv := rc.eval(bo.Y, b)
				nonzero := iv != nil && (iv.lo.Sign() > 0 || iv.hi.Sign() < 0)
				for _, cm := range w.factsAt(bo) {
					if cm.Y == nil {
						continue
					}
					for _, pr := range [][2]ssa.Value{{cm.X, cm.Y}, {cm.Y, cm.X}} {
						if z, isC := constInt(pr[1]); isC && z == 0 && sameImage(stripAllConv(pr[0]), stripAllConv(bo.Y)) && (cm.Op == token.NEQ || cm.Op == token.GTR) {
							nonzero = true
						}
					}
				}
				if nonzero {
					r.ok("DIVZERO", key, w.ipos(bo), "the divisor is known non-zero here")
				} else {
					r.bad("DIVZERO", key, w.ipos(bo), "the divisor "+describeVal(bo.Y)+" is not known to be non-zero: a zero count panics, and the process exits with status 2")
				}
			}
		}
	}
	r.stat("divzero_sites", n)
}

// ---------------------------------------------------------------------------
// DCHECKSKIP: the double check skips the recovery blocks that were not loaded

const ruleDCHECKSKIPText = "the parity double check compares only blocks that were loaded: in (*par2.Decoder).Repair every comparison (reflect.DeepEqual / bytes.Equal) one side of which is an element of d.parityShards is made only where that very element is known non-empty (len != 0 or != nil) - the table is indexed by exponent and has nil holes for exponents not present, and a hole compared with the recomputed block makes a successful reconstruction end in 'repair failed'"

func ruleDCHECKSKIP(w *World, r *Report) {
	r.rule("DCHECKSKIP", ruleDCHECKSKIPText)
	fn := w.Fn("(*par2.Decoder).Repair")
	if fn == nil {
		r.unk("DCHECKSKIP", "Repair", "", "(*par2.Decoder).Repair not found")
		return
	}
	n := 0
	for _, f := range region(fn) {
		for _, c := range callInstrs(f) {
			cn := calleeName(c.Common())
			if cn != "reflect.DeepEqual" && cn != "bytes.Equal" {
				continue
			}
			if len(c.Common().Args) != 2 {
				continue
			}
			var loaded ssa.Value
			for _, a := range c.Common().Args {
				v := stripAllConv(a)
				if mi, ok := v.(*ssa.MakeInterface); ok {
					v = stripAllConv(mi.X)
				}
				if strings.HasSuffix(chainPathUp(w, v, 0), ".parityShards[*]") {
					loaded = v
				}
			}
			if loaded == nil {
				continue
			}
			n++
			key := fmt.Sprintf("%s:compare#%d", shortName(f), n-1)
			ok := false
			for _, cm := range w.factsAt(c) {
				if cm.Y == nil {
					continue
				}
				for _, pr := range [][2]ssa.Value{{cm.X, cm.Y}, {cm.Y, cm.X}} {
					x := stripAllConv(pr[0])
					if lc := isBuiltinCall(x, "len"); lc != nil {
						if z, isC := constInt(pr[1]); isC && z == 0 && (cm.Op == token.NEQ || cm.Op == token.GTR) && stripAllConv(lc.Call.Args[0]) == loaded {
							ok = true
						}
					}
					if x == loaded && isNilConst(pr[1]) && cm.Op == token.NEQ {
						ok = true
					}
				}
				// swapped orientation 0 < len(x)
				if lc := isBuiltinCall(stripAllConv(cm.Y), "len"); lc != nil {
					if z, isC := constInt(cm.X); isC && z == 0 && cm.Op == token.LSS && stripAllConv(lc.Call.Args[0]) == loaded {
						ok = true
					}
				}
			}
			if ok {
				r.ok("DCHECKSKIP", key, w.ipos(c), "the loaded block compared is known non-empty here")
			} else {
				r.bad("DCHECKSKIP", key, w.ipos(c), "an element of d.parityShards is compared with the recomputed block without having been found non-empty: a hole in the exponent table makes a successful reconstruction fail the double check")
			}
		}
	}
	r.floor("DCHECKSKIP", "double-check comparisons in par2 Repair", n, 1)
}

// ---------------------------------------------------------------------------
// WRITELOOP: success is not declared before the write loop has run

const ruleWRITELOOPText = "Repair cannot succeed without having looked at every file: in (*par2.Decoder).Repair every return with a nil error lies behind the loop that writes the files found not OK (the loop's header dominates it and it is not inside the loop) - a file all of whose slices were found elsewhere needs no recovery block but does need rewriting, so 'no recovery blocks loaded' is no reason to return early"

func ruleWRITELOOP(w *World, r *Report) {
	r.rule("WRITELOOP", ruleWRITELOOPText)
	fn := w.Fn("(*par2.Decoder).Repair")
	if fn == nil {
		r.unk("WRITELOOP", "Repair", "", "(*par2.Decoder).Repair not found")
		return
	}
	// the write loop: the outermost loop of Repair that contains (directly or through a private helper) a WriteFile
	var wl *natLoop
	loops := naturalLoops(fn)
	for _, b := range fn.Blocks {
		for _, in := range b.Instrs {
			c, ok := in.(ssa.CallInstruction)
			if !ok {
				continue
			}
			writes := isInvokeOf(c.Common(), "WriteFile", "par2")
			if g := c.Common().StaticCallee(); !writes && g != nil && g != fn && inRegion(fn, g) {
				for _, ic := range callInstrs(g) {
					if isInvokeOf(ic.Common(), "WriteFile", "par2") {
						writes = true
					}
				}
			}
			if !writes {
				continue
			}
			for _, l := range loops {
				if l.body[b] && (wl == nil || len(l.body) > len(wl.body)) {
					wl = l
				}
			}
		}
	}
	if wl == nil {
		r.unk("WRITELOOP", "Repair:write-loop", w.pos(fn.Pos()), "no loop containing a WriteFile call found")
		return
	}
	n := 0
	for _, b := range fn.Blocks {
		ret, ok := b.Instrs[len(b.Instrs)-1].(*ssa.Return)
		if !ok || len(ret.Results) == 0 || !isNilConst(ret.Results[len(ret.Results)-1]) {
			continue
		}
		n++
		key := fmt.Sprintf("Repair:success-return#%d", n-1)
		if wl.head.Dominates(b) && !wl.body[b] {
			r.ok("WRITELOOP", key, w.ipos(ret), "behind the write loop")
		} else {
			r.bad("WRITELOOP", key, w.ipos(ret), "Repair can return success without reaching the loop that rewrites the files found not OK: a file whose slices were all found but which is wrong as a whole stays damaged")
		}
	}
	r.floor("WRITELOOP", "success returns of par2 Repair", n, 1)
}

// chainPathUp is chainPath that continues through a parameter of a single-call-site private
// helper into the caller's argument: parityShards[*] inside check(coder, data, parityShards)
// called with d.parityShards is <d>.parityShards[*].
func chainPathUp(w *World, v ssa.Value, depth int) string {
	if depth > 8 {
		return "?"
	}
	v = stripAllConv(v)
	switch x := v.(type) {
	case *ssa.UnOp:
		if x.Op == token.MUL {
			return chainPathUp(w, x.X, depth+1)
		}
	case *ssa.FieldAddr:
		return chainPathUp(w, x.X, depth+1) + "." + fieldName(x.X.Type(), x.Field)
	case *ssa.Field:
		return chainPathUp(w, x.X, depth+1) + "." + fieldName(x.X.Type(), x.Field)
	case *ssa.IndexAddr:
		return chainPathUp(w, x.X, depth+1) + "[*]"
	case *ssa.Parameter:
		if u := w.up(x); u != nil && u != ssa.Value(x) {
			return chainPathUp(w, u, depth+1)
		}
		return "<" + x.Name() + ">"
	}
	return chainPath(v, depth)
}
