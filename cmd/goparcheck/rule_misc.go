package main

import (
	"fmt"
	"go/token"
	"go/types"
	"sort"
	"strings"

	"golang.org/x/tools/go/ssa"
)

// ---------------------------------------------------------------------------
// GLOBALS: package-level state is written only during initialisation.

const ruleGLOBALSText = "no mutable package state: every package-level variable of the module is written - directly, through an element/field address rooted at it, through a slice/map loaded from it, or by handing its address to a function that writes through the parameter - only by package initialisers (init, and functions reachable only from init); afterwards the tables are read-only and par1/par2 keep nothing between calls"

type globalUse struct {
	fn   *ssa.Function
	in   ssa.Instruction
	kind string // "write", "escape"
	why  string
}

func (w *World) moduleGlobals() []*ssa.Global {
	var out []*ssa.Global
	for _, p := range w.Pkgs {
		sp := w.SSA[p.PkgPath]
		for name, m := range sp.Members {
			if g, ok := m.(*ssa.Global); ok && !strings.HasPrefix(name, "init$") {
				out = append(out, g)
			}
		}
	}
	sort.Slice(out, func(i, j int) bool { return out[i].String() < out[j].String() })
	return out
}

// initOnly returns the functions that run only during package initialisation.
func (w *World) initOnly() map[*ssa.Function]bool {
	set := map[*ssa.Function]bool{}
	for _, fn := range w.Funcs {
		if fn.Name() == "init" || strings.HasPrefix(fn.Name(), "init#") {
			set[fn] = true
		}
	}
	// synthetic package initialisers
	for _, p := range w.Pkgs {
		if f := w.SSA[p.PkgPath].Func("init"); f != nil {
			set[f] = true
		}
	}
	for changed := true; changed; {
		changed = false
		for _, fn := range w.Funcs {
			if set[fn] {
				continue
			}
			if fn.Parent() != nil {
				if set[fn.Parent()] {
					set[fn] = true
					changed = true
				}
				continue
			}
			n := w.CG.Nodes[fn]
			if n == nil || len(n.In) == 0 {
				continue
			}
			all := true
			for _, e := range n.In {
				if !set[e.Caller.Func] {
					all = false
				}
			}
			// exported functions can be called from outside
			if all && !fn.Object().Exported() {
				set[fn] = true
				changed = true
			}
		}
	}
	return set
}

// classifyRefUses walks the uses of a reference-like value v (an address into
// the global, or a slice/map/pointer loaded from it) and reports writes.
func (w *World) classifyRefUses(v ssa.Value, isAddr bool, fn *ssa.Function, depth int, seen map[ssa.Value]bool, out *[]globalUse) {
	if seen[v] || depth > 6 {
		return
	}
	seen[v] = true
	for _, ref := range referrersOf(v) {
		switch x := ref.(type) {
		case *ssa.Store:
			if x.Addr == v {
				*out = append(*out, globalUse{fn, x, "write", "store"})
			} else if x.Val == v {
				// the reference is copied into another location; follow local allocs only
				if al, ok := x.Addr.(*ssa.Alloc); ok {
					w.classifyRefUses(al, true, fn, depth+1, seen, out)
				} else {
					*out = append(*out, globalUse{fn, x, "escape", "reference stored into memory"})
				}
			}
		case *ssa.FieldAddr:
			w.classifyRefUses(x, true, fn, depth, seen, out)
		case *ssa.IndexAddr:
			w.classifyRefUses(x, true, fn, depth, seen, out)
		case *ssa.UnOp:
			if x.Op == token.MUL && isAddr {
				switch x.Type().Underlying().(type) {
				case *types.Slice, *types.Map, *types.Pointer:
					w.classifyRefUses(x, false, fn, depth, seen, out)
				}
			}
		case *ssa.Slice:
			w.classifyRefUses(x, false, fn, depth, seen, out)
		case *ssa.MapUpdate:
			if x.Map == v {
				*out = append(*out, globalUse{fn, x, "write", "map update"})
			}
		case *ssa.Phi:
			w.classifyRefUses(x, isAddr, fn, depth, seen, out)
		case *ssa.ChangeType:
			w.classifyRefUses(x, isAddr, fn, depth, seen, out)
		case *ssa.Convert:
			// unsafe.Pointer conversions of table addresses do not occur; treat as escape
			*out = append(*out, globalUse{fn, x, "escape", "converted (unsafe?)"})
		case *ssa.Lookup, *ssa.Index, *ssa.Range, *ssa.BinOp, *ssa.If, *ssa.DebugRef, *ssa.Field, *ssa.Extract:
		case *ssa.MakeInterface:
			*out = append(*out, globalUse{fn, x, "escape", "boxed into an interface"})
		case ssa.CallInstruction:
			cc := x.Common()
			if b, ok := cc.Value.(*ssa.Builtin); ok {
				switch b.Name() {
				case "len", "cap", "print", "println":
				case "copy":
					if len(cc.Args) > 0 && cc.Args[0] == v {
						*out = append(*out, globalUse{fn, x, "write", "copy destination"})
					}
				case "append":
					if len(cc.Args) > 0 && cc.Args[0] == v {
						if val := x.Value(); val != nil {
							w.classifyRefUses(val, false, fn, depth, seen, out)
						}
					}
				case "delete":
					*out = append(*out, globalUse{fn, x, "write", "delete from map"})
				}
				continue
			}
			callee := cc.StaticCallee()
			if callee == nil {
				*out = append(*out, globalUse{fn, x, "escape", "passed to a dynamic call"})
				continue
			}
			if !w.inModule(callee) {
				// std callee receiving a reference to module state
				name := callee.String()
				if strings.HasPrefix(name, "sort.") || strings.HasPrefix(name, "(*flag.FlagSet).") || strings.HasPrefix(name, "encoding/binary.Read") {
					*out = append(*out, globalUse{fn, x, "write", "passed to " + name})
				}
				continue
			}
			if len(callee.Blocks) == 0 {
				// assembly: reads its table parameter (cross-checked by rule ASM A3)
				continue
			}
			for i, a := range cc.Args {
				if a == v && i < len(callee.Params) {
					w.classifyRefUses(callee.Params[i], isAddr, callee, depth+1, seen, out)
				}
			}
		case *ssa.Return:
			// returning a reference to module state to the caller: could be mutated there
			*out = append(*out, globalUse{fn, x, "escape", "returned to the caller"})
		}
	}
}

func ruleGLOBALS(w *World, r *Report, pkgFilter map[string]bool) {
	r.rule("GLOBALS", ruleGLOBALSText)
	initFns := w.initOnly()
	globals := w.moduleGlobals()
	n := 0
	for _, g := range globals {
		pkg := pkgShort(g.Pkg.Pkg.Path())
		if pkgFilter != nil && !pkgFilter[pkg] {
			continue
		}
		n++
		key := pkg + "." + g.Name()
		// all functions referencing g
		var uses []globalUse
		refs := 0
		for _, fn := range w.Funcs {
			for _, b := range fn.Blocks {
				for _, in := range b.Instrs {
					for _, op := range in.Operands(nil) {
						if *op == ssa.Value(g) {
							refs++
							// treat this occurrence: build a pseudo walk from the instruction
							switch x := in.(type) {
							case *ssa.Store:
								if x.Addr == ssa.Value(g) {
									uses = append(uses, globalUse{fn, x, "write", "store"})
								} else {
									uses = append(uses, globalUse{fn, x, "escape", "address stored"})
								}
							case *ssa.UnOp:
								switch x.Type().Underlying().(type) {
								case *types.Slice, *types.Map, *types.Pointer:
									w.classifyRefUses(x, false, fn, 0, map[ssa.Value]bool{}, &uses)
								}
							case *ssa.FieldAddr, *ssa.IndexAddr:
								w.classifyRefUses(x.(ssa.Value), true, fn, 0, map[ssa.Value]bool{}, &uses)
							case ssa.CallInstruction:
								// &global passed directly
								cc := x.Common()
								if callee := cc.StaticCallee(); callee != nil && w.inModule(callee) && len(callee.Blocks) > 0 {
									for i, a := range cc.Args {
										if a == ssa.Value(g) && i < len(callee.Params) {
											w.classifyRefUses(callee.Params[i], true, callee, 1, map[ssa.Value]bool{}, &uses)
										}
									}
								} else {
									uses = append(uses, globalUse{fn, in, "escape", "address passed to a call"})
								}
							default:
								uses = append(uses, globalUse{fn, in, "escape", fmt.Sprintf("address used by %T", in)})
							}
						}
					}
				}
			}
		}
		bad := false
		nInitWrites := 0
		for _, u := range uses {
			if initFns[u.fn] {
				if u.kind == "write" {
					nInitWrites++
				}
				continue
			}
			bad = true
			if u.kind == "write" {
				r.bad("GLOBALS", key+":"+shortName(u.fn), w.ipos(u.in), fmt.Sprintf("package-level variable %s is written (%s) by %s, which runs after initialisation", key, u.why, shortName(u.fn)))
			} else {
				r.bad("GLOBALS", key+":"+shortName(u.fn), w.ipos(u.in), fmt.Sprintf("a reference to package-level variable %s escapes in %s (%s): it can be modified after initialisation", key, shortName(u.fn), u.why))
			}
		}
		if !bad {
			r.ok("GLOBALS", key, w.pos(g.Pos()), fmt.Sprintf("%d references; written only during initialisation (%d init-time write sites)", refs, nInitWrites))
		}
	}
	r.stat("package_level_variables", n)
}

// ---------------------------------------------------------------------------
// GLOB

const ruleGLOBText = "volume discovery neither interprets the index file's base name as a pattern nor swallows listing errors: in the library packages no non-constant string reaches the pattern operand of filepath.Glob/Match or path.Match, and an implementation of fileIO.FindWithPrefixAndSuffix lists the directory with an error-returning API and compares names with strings.HasPrefix/HasSuffix on its own prefix/suffix parameters"

type globOpts struct{ pattern, lists, literal, complete bool }

var globAll = globOpts{true, true, true, true}

func ruleGLOB(w *World, r *Report, o globOpts) {
	r.rule("GLOB", ruleGLOBText)
	patternFns := map[string]bool{"path/filepath.Glob": true, "path/filepath.Match": true, "path.Match": true}
	nCalls := 0
	for _, fn := range w.funcsInPkgs("par1", "par2", "rsec16", "gf2p16", "gf2", "cmd/par") {
		k := 0
		for _, c := range callInstrs(fn) {
			f := c.Common().StaticCallee()
			if f == nil || !patternFns[f.String()] {
				continue
			}
			nCalls++
			key := fmt.Sprintf("%s:%s#%d", shortName(fn), f.String(), k)
			k++
			if !o.pattern {
				continue
			}
			if _, ok := constString(c.Common().Args[0]); ok {
				r.ok("GLOB", key, w.ipos(c), "constant pattern")
			} else {
				r.bad("GLOB", key, w.ipos(c), "a run-time string (derived from a file name) is used as a glob pattern: metacharacters in the name change what is matched, and filepath.Glob ignores I/O errors")
			}
		}
	}
	r.stat("pattern_call_sites", nCalls)
	// implementations of FindWithPrefixAndSuffix
	nImpl := 0
	for _, fn := range w.funcsInPkgs("par1", "par2") {
		if fn.Name() != "FindWithPrefixAndSuffix" || fn.Signature.Recv() == nil || len(fn.Blocks) == 0 {
			continue
		}
		nImpl++
		key := shortName(fn)
		lists := ""
		hasPrefix, hasSuffix := false, false
		// dependsOnParam: does v (a value of function `in`) derive from parameter k of fn - directly, or, when
		// `in` is a private helper of fn's region, through the argument fn passes for the helper's parameter?
		var dependsOnParam func(v ssa.Value, in *ssa.Function, k int, depth int) bool
		dependsOnParam = func(v ssa.Value, in *ssa.Function, k int, depth int) bool {
			if in == fn {
				return k < len(fn.Params) && dependsOn(v, fn.Params[k])
			}
			if depth > 2 {
				return false
			}
			for j, prm := range in.Params {
				if !dependsOn(v, prm) {
					continue
				}
				for _, cf := range region(fn) {
					for _, c := range callInstrs(cf) {
						if c.Common().StaticCallee() == in && j < len(c.Common().Args) && dependsOnParam(c.Common().Args[j], cf, k, depth+1) {
							return true
						}
					}
				}
			}
			return false
		}
		for _, rf := range region(fn) {
			for _, c := range callInstrs(rf) {
				f := c.Common().StaticCallee()
				if f == nil {
					continue
				}
				switch f.String() {
				case "io/ioutil.ReadDir", "os.ReadDir", "(*os.File).Readdir", "(*os.File).Readdirnames", "(*os.File).ReadDir":
					lists = f.String()
				case "strings.HasPrefix":
					if len(fn.Params) >= 3 && len(c.Common().Args) == 2 && dependsOnParam(c.Common().Args[1], rf, 1, 0) {
						hasPrefix = true
					}
				case "strings.HasSuffix":
					if len(fn.Params) >= 3 && len(c.Common().Args) == 2 && dependsOnParam(c.Common().Args[1], rf, 2, 0) {
						hasSuffix = true
					}
				}
			}
		}
		switch {
		case !o.lists:
		case lists == "":
			r.bad("GLOB", key+":lists", w.pos(fn.Pos()), "the implementation does not list the directory with an error-returning API (ReadDir)")
		default:
			r.ok("GLOB", key+":lists", w.pos(fn.Pos()), "lists the directory with "+lists+" (its error is subject to ERRFLOW)")
		}
		// completeness: the loop that collects the matches runs over the whole listing - it is left
		// only at its head (listing exhausted) or towards a return of a non-nil error
		if o.complete {
			loops := naturalLoops(fn)
			for _, b := range fn.Blocks {
				for _, in := range b.Instrs {
					c, ok := in.(*ssa.Call)
					if !ok || isBuiltinCall(c, "append") == nil {
						continue
					}
					l := innermostLoop(loops, b)
					if l == nil {
						continue
					}
					k := key + ":whole-listing"
					bad := ""
					for lb := range l.body {
						if lb == l.head {
							continue
						}
						for _, s := range lb.Succs {
							if l.body[s] {
								continue
							}
							if ret, ok := s.Instrs[len(s.Instrs)-1].(*ssa.Return); ok && len(ret.Results) > 0 && definitelyNonNilError(ret.Results[len(ret.Results)-1]) {
								continue
							}
							bad = w.ipos(lb.Instrs[len(lb.Instrs)-1])
						}
					}
					if bad != "" {
						r.bad("GLOB", k, bad, "the loop that collects the matching directory entries can be left before the listing is exhausted (other than by returning an error): entries after that point are never looked at, so not every volume file beside the index file is found")
					} else {
						r.ok("GLOB", k, w.ipos(c), "the collecting loop is left only when the listing is exhausted or with an error")
					}
				}
			}
		}
		// completeness: the append of a match may depend only on the name tests
		for _, b := range fn.Blocks {
			if !o.complete {
				break
			}
			for _, in := range b.Instrs {
				c, ok := in.(*ssa.Call)
				if !ok || isBuiltinCall(c, "append") == nil {
					continue
				}
				for _, f := range domFacts(b) {
					okCond := true
					var nameOnly func(nm string, cl *ssa.Call, depth int) bool
					nameOnly = func(nm string, cl *ssa.Call, depth int) bool {
						switch {
						case nm == "strings.HasPrefix", nm == "strings.HasSuffix", nm == "builtin len", strings.HasSuffix(nm, ".Name"),
							nm == "path/filepath.Split", nm == "io/ioutil.ReadDir", nm == "os.ReadDir", strings.Contains(nm, "Readdir"), strings.Contains(nm, "ReadDir"):
							return true
						}
						// a private predicate of the region that itself only looks at the name
						if g := cl.Call.StaticCallee(); g != nil && depth < 2 && inRegion(fn, g) && g != fn {
							for _, c2 := range callInstrs(g) {
								if cc, ok := c2.(*ssa.Call); ok && !nameOnly(calleeName(&cc.Call), cc, depth+1) {
									return false
								}
							}
							return true
						}
						return false
					}
					backSlice(f.Cond, func(v ssa.Value) bool {
						if cl, ok := v.(*ssa.Call); ok {
							if !nameOnly(calleeName(&cl.Call), cl, 0) {
								okCond = false
							}
						}
						return true
					})
					k := key + ":no-extra-filter"
					if !okCond {
						r.bad("GLOB", k, w.ipos(f.If), "a directory entry with the right prefix and suffix can be left out because of an additional condition ("+f.Cond.String()+"): not every volume file beside the index file is found")
					} else {
						r.ok("GLOB", k, w.ipos(c), "whether an entry is returned depends only on its name (prefix, suffix, length) and on the listing having succeeded")
					}
				}
			}
		}
		if !o.literal {
			continue
		}
		if hasPrefix && hasSuffix {
			r.ok("GLOB", key+":literal", w.pos(fn.Pos()), "names are compared literally with strings.HasPrefix(name, <prefix>) and strings.HasSuffix(name, suffix)")
		} else {
			r.bad("GLOB", key+":literal", w.pos(fn.Pos()), "names are not compared literally against both the prefix and the suffix parameter")
		}
	}
	r.floor("GLOB", "implementations of FindWithPrefixAndSuffix", nImpl, 1)
}

// dependsOn reports whether v is derived from src (backward slice).
func dependsOn(v, src ssa.Value) bool {
	found := false
	backSlice(v, func(x ssa.Value) bool {
		if x == src {
			found = true
		}
		return !found
	})
	return found
}

// ---------------------------------------------------------------------------
// NILF: nil-belief contradiction

const ruleNILFText = "nil-belief contradiction: for each pointer-typed struct field of par1/par2 that some function compares with nil, every dereference of a load of that field is dominated by a nil check of the same field of the same object (same access path), unless that function itself stored a non-nil value into it"

type ptrField struct {
	typ   string
	field string
}

func ptrFieldOf(v ssa.Value) (ptrField, accessPath, bool) {
	ld, ok := v.(*ssa.UnOp)
	if !ok || ld.Op != token.MUL {
		if f, ok := v.(*ssa.Field); ok {
			if _, isPtr := f.Type().Underlying().(*types.Pointer); isPtr {
				return ptrField{namedTypeName(f.X.Type()), fieldName(f.X.Type(), f.Field)}, deepPath(v), true
			}
		}
		return ptrField{}, accessPath{}, false
	}
	fa, ok := ld.X.(*ssa.FieldAddr)
	if !ok {
		return ptrField{}, accessPath{}, false
	}
	if _, isPtr := ld.Type().Underlying().(*types.Pointer); !isPtr {
		return ptrField{}, accessPath{}, false
	}
	return ptrField{namedTypeName(fa.X.Type()), fieldName(fa.X.Type(), fa.Field)}, deepPath(v), true
}

func ruleNILF(w *World, r *Report) {
	r.rule("NILF", ruleNILFText)
	fns := w.funcsInPkgs("par1", "par2")
	// 1. fields believed nilable
	believed := map[ptrField]string{}
	for _, fn := range fns {
		for _, b := range fn.Blocks {
			for _, in := range b.Instrs {
				bo, ok := in.(*ssa.BinOp)
				if !ok || (bo.Op != token.EQL && bo.Op != token.NEQ) {
					continue
				}
				for _, pr := range [][2]ssa.Value{{bo.X, bo.Y}, {bo.Y, bo.X}} {
					if !isNilConst(pr[1]) {
						continue
					}
					if pf, _, ok := ptrFieldOf(pr[0]); ok && isModTypeName(pf.typ) {
						if _, seen := believed[pf]; !seen {
							believed[pf] = w.ipos(bo)
						}
					}
				}
			}
		}
	}
	var bl []ptrField
	for pf := range believed {
		bl = append(bl, pf)
	}
	sort.Slice(bl, func(i, j int) bool { return bl[i].typ+bl[i].field < bl[j].typ+bl[j].field })
	r.floor("NILF", "pointer fields compared with nil somewhere", len(bl), 1)
	// 2. dereferences
	nDeref := 0
	for _, fn := range fns {
		cnt := 0
		for _, b := range fn.Blocks {
			for _, in := range b.Instrs {
				var base ssa.Value
				switch x := in.(type) {
				case *ssa.FieldAddr:
					base = x.X
				case *ssa.UnOp:
					if x.Op == token.MUL {
						base = x.X
					}
				case *ssa.IndexAddr:
					base = x.X
				}
				if base == nil {
					continue
				}
				pf, path, ok := ptrFieldOf(base)
				if !ok {
					continue
				}
				where, isBelieved := believed[pf]
				if !isBelieved {
					continue
				}
				nDeref++
				key := fmt.Sprintf("%s:deref(%s.%s)#%d", shortName(fn), pf.typ, pf.field, cnt)
				cnt++
				// dominated by != nil on same path?
				guarded := false
				for _, c := range cmpsAt(b) {
					if c.Op != token.NEQ || c.Y == nil {
						continue
					}
					for _, pr := range [][2]ssa.Value{{c.X, c.Y}, {c.Y, c.X}} {
						if !isNilConst(pr[1]) {
							continue
						}
						if pf2, p2, ok := ptrFieldOf(pr[0]); ok && pf2 == pf && p2.Root == path.Root && p2.Path == path.Path {
							guarded = true
						}
					}
				}
				if !guarded {
					// set non-nil in this function? a store of a non-nil value (address of a local) into the same field path
					for _, b2 := range fn.Blocks {
						for _, in2 := range b2.Instrs {
							st, ok := in2.(*ssa.Store)
							if !ok {
								continue
							}
							fa, ok := st.Addr.(*ssa.FieldAddr)
							if !ok || fieldName(fa.X.Type(), fa.Field) != pf.field {
								continue
							}
							if _, isAlloc := st.Val.(*ssa.Alloc); isAlloc && instrDominates(st, in) {
								guarded = true
							}
						}
					}
				}
				if guarded {
					r.ok("NILF", key, w.ipos(in), fmt.Sprintf("dereference of %s.%s dominated by a nil check of the same object (or set non-nil here)", pf.typ, pf.field))
				} else {
					r.bad("NILF", key, w.ipos(in), fmt.Sprintf("%s.%s is dereferenced without a dominating nil check, although %s tests it for nil: on that path it can be nil (e.g. a file without that packet) and this panics", pf.typ, pf.field, where))
				}
			}
		}
	}
	r.floor("NILF", "dereferences of nil-believed fields", nDeref, 3)
}

func isModTypeName(n string) bool {
	return strings.HasPrefix(n, "par1.") || strings.HasPrefix(n, "par2.")
}
