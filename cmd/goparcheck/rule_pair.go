package main

import (
	"fmt"
	"go/token"
	"go/types"
	"strings"

	"golang.org/x/tools/go/ssa"
)

// ---------------------------------------------------------------------------
// PAIR: sibling agreement between writer and reader of one format.

const rulePAIRText = "sibling agreement: writer and reader of a format use the same callee for the same role - coder constructor (NewCoderPAR2Vandermonde on both PAR2 sides; reedsolomon.New(data, parity, WithPAR1Matrix()) on both PAR1 sides), the coder's dimensions are the lengths of the very slices handed to it, slice padding through sliceAndPadByteArray, crc32.ChecksumIEEE and md5.Sum for slice checksums, unicode/utf16 for PAR1 names; PAIR-ERRTYPE: the type asserted by par2.RepairErrorMeansRepairNecessaryButNotPossible is exactly the type returned by Coder.ReconstructData on a too-few-inputs edge (len(input) < dataShards, or nothing collected) and on no other path"

func callsIn(fn *ssa.Function, callee string) []ssa.CallInstruction {
	var out []ssa.CallInstruction
	for _, f := range region(fn) {
		for _, c := range callInstrs(f) {
			name := ""
			if sc := c.Common().StaticCallee(); sc != nil {
				name = strings.ReplaceAll(sc.String(), modPath+"/", "")
			}
			if name == callee {
				out = append(out, c)
			}
		}
	}
	return out
}

type pairOpts struct{ encoder, decoder, slicing bool }

func rulePAIRpar2(w *World, r *Report, o pairOpts) {
	r.rule("PAIR", rulePAIRText)
	enc, dec := w.Fn("(*par2.Encoder).ComputeParityData"), w.Fn("(*par2.Decoder).newCoderAndShards")
	if enc == nil || dec == nil {
		r.unk("PAIR", "par2:coder-constructor", "-", "encoder/decoder coder construction sites not found")
	} else {
		ctor := "rsec16.NewCoderPAR2Vandermonde"
		e, d := callsIn(enc, ctor), callsIn(dec, ctor)
		if len(e) == 1 && len(d) == 1 {
			r.ok("PAIR", "par2:coder-constructor", w.ipos(d[0]), "both sides construct the coder with "+ctor)
		} else {
			r.bad("PAIR", "par2:coder-constructor", w.pos(dec.Pos()), fmt.Sprintf("encoder calls %s %d times, decoder %d times: the two sides do not use the same Reed-Solomon matrix", ctor, len(e), len(d)))
		}
		// any other rsec16.NewCoder* call in par2 is a disagreement
		for _, fn := range w.funcsInPkgs("par2") {
			for _, c := range callInstrs(fn) {
				n := staticCalleeShort(c.Common())
				if strings.HasPrefix(n, "rsec16.NewCoder") && n != ctor {
					r.bad("PAIR", "par2:coder-constructor:"+shortName(fn), w.ipos(c), "par2 constructs a coder with "+n+"; PAR2 requires the PAR2 Vandermonde matrix on both sides")
				}
			}
		}
		// dimensions
		if len(e) == 1 && o.encoder {
			args := e[0].Common().Args
			gp := callsIn(enc, "(rsec16.Coder).GenerateParity")
			if len(gp) == 1 && isLenOf(args[0], gp[0].Common().Args[1]) {
				r.ok("PAIR", "par2:encoder-dims", w.ipos(e[0]), "data shard count = len of the slice handed to GenerateParity")
			} else {
				r.bad("PAIR", "par2:encoder-dims", w.ipos(e[0]), "the coder's data shard count is not the length of the slice handed to GenerateParity")
			}
			if strings.HasSuffix(deepPath(args[1]).Path, ".parityShardCount") {
				r.ok("PAIR", "par2:encoder-parity-count", w.ipos(e[0]), "parity shard count = the encoder's parityShardCount")
			} else {
				r.bad("PAIR", "par2:encoder-parity-count", w.ipos(e[0]), "parity shard count is not the encoder's parityShardCount")
			}
		}
		if len(d) == 1 && o.decoder {
			args := d[0].Common().Args
			// returned data shards
			var retData ssa.Value
			for _, b := range dec.Blocks {
				if ret, ok := b.Instrs[len(b.Instrs)-1].(*ssa.Return); ok && len(ret.Results) == 3 && isNilConst(ret.Results[2]) == false {
					_ = ret
				}
				if ret, ok := b.Instrs[len(b.Instrs)-1].(*ssa.Return); ok && len(ret.Results) == 3 && !isNilConst(ret.Results[1]) {
					retData = ret.Results[1]
				}
			}
			if retData != nil && isLenOf(args[0], retData) {
				r.ok("PAIR", "par2:decoder-data-dims", w.ipos(d[0]), "data shard count = len of the data shard slice returned to Repair")
			} else {
				r.bad("PAIR", "par2:decoder-data-dims", w.ipos(d[0]), "the coder's data shard count is not the length of the data shard slice it is used with")
			}
			p := lenOperandPath(args[1])
			if strings.HasSuffix(p.Path, ".parityShards") && isReceiver(dec, p.Root) {
				r.ok("PAIR", "par2:decoder-parity-dims", w.ipos(d[0]), "parity shard count = len(d.parityShards), the exponent-indexed table handed to ReconstructData")
			} else {
				r.bad("PAIR", "par2:decoder-parity-dims", w.ipos(d[0]), "the coder's parity shard count is not len(d.parityShards): parity rows are addressed by exponent, so the matrix must have a row for every index of that table")
			}
		}
		// Repair hands exactly (dataShards from newCoderAndShards, d.parityShards) to ReconstructData
		if rep := w.Fn("(*par2.Decoder).Repair"); rep != nil && o.decoder {
			rc := callsIn(rep, "(rsec16.Coder).ReconstructData")
			if len(rc) != 1 {
				r.bad("PAIR", "par2:reconstruct-call", w.pos(rep.Pos()), fmt.Sprintf("Repair calls ReconstructData %d times", len(rc)))
			} else {
				a := rc[0].Common().Args
				okd := false
				if ex, ok := stripConv(a[1]).(*ssa.Extract); ok && callOf(ex.Tuple, "(*par2.Decoder).newCoderAndShards") != nil && ex.Index == 1 {
					okd = true
				}
				pp := deepPath(a[2])
				okp := strings.HasSuffix(pp.Path, ".parityShards") && isReceiver(rep, pp.Root)
				if okd && okp {
					r.ok("PAIR", "par2:reconstruct-call", w.ipos(rc[0]), "ReconstructData(dataShards built with the coder, d.parityShards)")
				} else {
					r.bad("PAIR", "par2:reconstruct-call", w.ipos(rc[0]), "ReconstructData is not called with the data shards built together with the coder and d.parityShards")
				}
			}
		}
	}
	// slice padding + checksums: writer computeDataFileInfo, reader fillShardInfos
	wr, rd := w.Fn("par2.computeDataFileInfo"), w.Fn("par2.fillShardInfos")
	if !o.slicing {
		return
	}
	if wr == nil || rd == nil {
		r.unk("PAIR", "par2:slicing", "-", "computeDataFileInfo / fillShardInfos not found")
	} else {
		for _, callee := range []string{"par2.sliceAndPadByteArray", "hash/crc32.ChecksumIEEE"} {
			a, b := callsIn(wr, callee), callsIn(rd, callee)
			key := "par2:slicing:" + callee
			if len(a) >= 1 && len(b) >= 1 {
				r.ok("PAIR", key, w.ipos(b[0]), "used by both the writer (computeDataFileInfo) and the reader (fillShardInfos)")
			} else {
				r.bad("PAIR", key, w.pos(rd.Pos()), fmt.Sprintf("%s is called %d times by the writer and %d times by the reader: slices are not cut/checksummed the same way on both sides", callee, len(a), len(b)))
			}
		}
		// slice bounds: both sides cut [j, j+sliceByteCount)
		for _, fn := range []*ssa.Function{wr, rd} {
			cs := callsIn(fn, "par2.sliceAndPadByteArray")
			for i, c := range cs {
				a := c.Common().Args
				key := fmt.Sprintf("par2:slice-bounds:%s#%d", shortName(fn), i)
				ok := false
				if bo, isB := a[2].(*ssa.BinOp); isB && bo.Op.String() == "+" {
					if (bo.X == a[1] && bo.Y == ssa.Value(fn.Params[0])) || (bo.Y == a[1] && bo.X == ssa.Value(fn.Params[0])) {
						ok = true
					}
				}
				if ok {
					r.ok("PAIR", key, w.ipos(c), "slice = data[start : start+sliceByteCount] zero-padded")
				} else {
					r.bad("PAIR", key, w.ipos(c), "the slice is not cut as [start, start+sliceByteCount)")
				}
			}
		}
		// md5 of the slice on the writer side; reader looks up by md5.Sum(data) in checksumShardLocationMap.get
		if len(callsIn(wr, "crypto/md5.Sum")) >= 2 {
			r.ok("PAIR", "par2:slice-md5:writer", w.pos(wr.Pos()), "writer records md5.Sum of each slice")
		} else {
			r.bad("PAIR", "par2:slice-md5:writer", w.pos(wr.Pos()), "writer does not record md5.Sum of each slice")
		}
	}
}

// isLenOf reports whether v is len(x) (a builtin len call on x).
func isLenOf(v, x ssa.Value) bool {
	c := isBuiltinCall(v, "len")
	return c != nil && stripConv(c.Call.Args[0]) == stripConv(x)
}

func lenOperandPath(v ssa.Value) accessPath {
	c := isBuiltinCall(v, "len")
	if c == nil {
		return accessPath{}
	}
	return deepPath(c.Call.Args[0])
}

func rulePAIRpar1(w *World, r *Report) {
	r.rule("PAIR", rulePAIRText)
	ctor := "github.com/klauspost/reedsolomon.New"
	type site struct {
		fn *ssa.Function
		c  ssa.CallInstruction
	}
	var sites []site
	for _, fn := range w.funcsInPkgs("par1") {
		for _, c := range callInstrs(fn) {
			if f := c.Common().StaticCallee(); f != nil && f.String() == ctor {
				sites = append(sites, site{fn, c})
			}
		}
	}
	// a private wrapper around the constructor stands for its call sites: the shard counts are
	// what the callers pass, the options what the wrapper passes
	type use struct {
		fn   *ssa.Function
		data ssa.Value
	}
	uses := map[int][]use{}
	nUses := 0
	for i, s := range sites {
		args := s.c.Common().Args
		var us []use
		if p, ok := stripAllConv(args[0]).(*ssa.Parameter); ok && s.fn.Object() != nil && !s.fn.Object().Exported() && len(w.callSites(s.fn)) > 0 {
			idx := -1
			for k, q := range s.fn.Params {
				if q == p {
					idx = k
				}
			}
			for _, cs := range w.callSites(s.fn) {
				if idx >= 0 && idx < len(cs.Common().Args) {
					us = append(us, use{cs.Parent(), cs.Common().Args[idx]})
				}
			}
		}
		if len(us) == 0 {
			us = []use{{s.fn, args[0]}}
		}
		uses[i] = us
		nUses += len(us)
	}
	r.floor("PAIR", "reedsolomon.New call sites in par1", nUses, 2)
	hasEnc, hasDec := false, false
	for i, s := range sites {
		key := fmt.Sprintf("par1:coder-constructor:%s#%d", shortName(s.fn), i)
		for _, u := range uses[i] {
			if strings.Contains(shortName(u.fn), "Encoder") {
				hasEnc = true
			}
			if strings.Contains(shortName(u.fn), "Decoder") {
				hasDec = true
			}
		}
		// options: exactly one, the result of WithPAR1Matrix()
		args := s.c.Common().Args
		opt := ""
		n := 0
		if len(args) == 3 {
			backSlice(args[2], func(v ssa.Value) bool {
				if cl, ok := v.(*ssa.Call); ok {
					if f := cl.Call.StaticCallee(); f != nil && strings.HasPrefix(f.String(), "github.com/klauspost/reedsolomon.With") {
						opt = f.Name()
						n++
					}
				}
				return true
			})
		}
		// shard counts: data = len(fileData), parity = volumeCount / len(parityData)
		okData := true
		for _, u := range uses[i] {
			if !strings.HasSuffix(lenOperandPath(u.data).Path, ".fileData") {
				okData = false
			}
		}
		if n == 1 && opt == "WithPAR1Matrix" && okData {
			r.ok("PAIR", key, w.ipos(s.c), "reedsolomon.New(len(fileData), parity count, WithPAR1Matrix())")
		} else if !okData {
			r.bad("PAIR", key, w.ipos(s.c), "the data shard count is not len(fileData)")
		} else {
			r.bad("PAIR", key, w.ipos(s.c), fmt.Sprintf("coder options are %d x %q: PAR 1.0 requires exactly the PAR1 matrix option on both sides", n, opt))
		}
	}
	if hasEnc && hasDec {
		r.ok("PAIR", "par1:coder-both-sides", "-", "encoder and decoder both construct the klauspost coder")
	} else {
		r.bad("PAIR", "par1:coder-both-sides", "-", "encoder and decoder do not both construct the coder through reedsolomon.New")
	}
	pairPar1Reconstruct(w, r)
	pairPar1UTF16(w, r)
}

// pairPar1UTF16: PAR1 names are converted with unicode/utf16 on both sides and sized per code unit.
func pairPar1UTF16(w *World, r *Report) {
	r.rule("PAIR", rulePAIRText)
	// UTF-16 names
	for _, p := range []struct{ fn, callee string }{{"par1.encodeUTF16LEString", "unicode/utf16.Encode"}, {"par1.decodeUTF16LEString", "unicode/utf16.Decode"}} {
		fn := w.Fn(p.fn)
		key := "par1:utf16:" + p.fn
		if fn == nil {
			r.unk("PAIR", key, "-", "function not found")
			continue
		}
		if len(callsIn(fn, p.callee)) >= 1 {
			r.ok("PAIR", key, w.pos(fn.Pos()), "names are converted with "+p.callee+" (surrogate pairs handled by the standard library on both sides)")
		} else {
			r.bad("PAIR", key, w.pos(fn.Pos()), "names are not converted with "+p.callee+": characters outside the BMP need surrogate pairs in UTF-16")
		}
		// ... on every path: no return of the helper is reachable without passing the conversion
		for _, c := range callsIn(fn, p.callee) {
			for _, b := range fn.Blocks {
				ret, isRet := b.Instrs[len(b.Instrs)-1].(*ssa.Return)
				if !isRet || c.Parent() != fn || b == c.Block() || c.Block().Dominates(b) {
					continue
				}
				if len(ret.Results) == 1 {
					if _, isConst := ret.Results[0].(*ssa.Const); isConst {
						continue // the empty name of an empty input
					}
				}
				r.bad("PAIR", key+":every-path", w.ipos(ret), "this return of the name conversion is reachable without passing through "+p.callee+": some names are converted by hand (a shortcut for 'plain' names treats code units as bytes or runes)")
			}
			break
		}
	}
	// buffer sizes: 2 bytes per UTF-16 code unit (not per rune), code units = bytes/2
	if fn := w.Fn("par1.encodeUTF16LEString"); fn != nil {
		ok := false
		for _, b := range fn.Blocks {
			for _, in := range b.Instrs {
				mk, isMk := in.(*ssa.MakeSlice)
				if !isMk {
					continue
				}
				if bo, isB := mk.Len.(*ssa.BinOp); isB && bo.Op.String() == "*" {
					for _, pr := range [][2]ssa.Value{{bo.X, bo.Y}, {bo.Y, bo.X}} {
						if c, isC := constInt(pr[0]); isC && c == 2 {
							if lc := isBuiltinCall(pr[1], "len"); lc != nil && callOf(lc.Call.Args[0], "unicode/utf16.Encode") != nil {
								ok = true
							}
						}
					}
				}
			}
		}
		if ok {
			r.ok("PAIR", "par1:utf16-size:encode", w.pos(fn.Pos()), "the encoded name has 2 bytes per UTF-16 code unit returned by utf16.Encode")
		} else {
			r.bad("PAIR", "par1:utf16-size:encode", w.pos(fn.Pos()), "the encoded name's buffer is not sized 2*len(utf16.Encode(...)): names with characters outside the BMP (two code units per rune) are truncated")
		}
	}
	// the entry size written is the header plus the encoded name's length
	if fn := w.Fn("par1.writeFileEntry"); fn != nil {
		nst := 0
		for _, rf := range region(fn) {
			for _, b := range rf.Blocks {
				for _, in := range b.Instrs {
					st, ok := in.(*ssa.Store)
					if !ok {
						continue
					}
					fa, ok := st.Addr.(*ssa.FieldAddr)
					if !ok || fieldName(fa.X.Type(), fa.Field) != "EntryBytes" {
						continue
					}
					nst++
					l := linOf(w, st.Val, 0)
					good := false
					for a, c := range l.coef {
						if lc := isBuiltinCall(l.val[a], "len"); lc != nil && c == 1 && callOf(resolveSingle(lc.Call.Args[0]), "par1.encodeUTF16LEString") != nil {
							good = true
						}
					}
					if good {
						r.ok("PAIR", "par1:utf16-size:entry-bytes", w.ipos(st), "EntryBytes = header size + len(encoded name)")
					} else {
						r.bad("PAIR", "par1:utf16-size:entry-bytes", w.ipos(st), "EntryBytes is not computed from the length of the encoded name: a name with characters outside the BMP (two code units per rune) makes the entry longer than it says, and every following entry is read at the wrong offset")
					}
				}
			}
		}
		if nst == 0 {
			r.unk("PAIR", "par1:utf16-size:entry-bytes", w.pos(fn.Pos()), "no store to EntryBytes found")
		}
	}
	// both readers/writers of the entry name go through these helpers
	for _, p := range []struct{ fn, callee string }{{"par1.writeFileEntry", "par1.encodeUTF16LEString"}, {"par1.readFileEntry", "par1.decodeUTF16LEString"}} {
		fn := w.Fn(p.fn)
		key := "par1:utf16-use:" + p.fn
		if fn == nil {
			r.unk("PAIR", key, "-", "function not found")
			continue
		}
		if len(callsIn(fn, p.callee)) == 1 {
			r.ok("PAIR", key, w.pos(fn.Pos()), "uses "+p.callee)
		} else {
			r.bad("PAIR", key, w.pos(fn.Pos()), "does not use "+p.callee)
		}
	}
}

// PAIR-ERRTYPE
func rulePAIRERRTYPE(w *World, r *Report) {
	r.rule("PAIR", rulePAIRText)
	cls := w.Fn("par2.RepairErrorMeansRepairNecessaryButNotPossible")
	rec := w.Fn("(rsec16.Coder).ReconstructData")
	if cls == nil || rec == nil {
		r.unk("PAIR", "errtype", "-", "classifier or ReconstructData not found")
		return
	}
	var asserted types.Type
	for _, b := range cls.Blocks {
		for _, in := range b.Instrs {
			if ta, ok := in.(*ssa.TypeAssert); ok {
				asserted = ta.AssertedType
			}
		}
	}
	if asserted == nil {
		r.bad("PAIR", "errtype:classifier", w.pos(cls.Pos()), "the PAR2 classifier does not assert a concrete error type")
		return
	}
	// returns of ReconstructData
	n, match := 0, 0
	for _, b := range rec.Blocks {
		ret, ok := b.Instrs[len(b.Instrs)-1].(*ssa.Return)
		if !ok || len(ret.Results) != 1 {
			continue
		}
		mi, ok := ret.Results[0].(*ssa.MakeInterface)
		if !ok {
			continue
		}
		n++
		if types.Identical(mi.X.Type(), asserted) {
			match++
			// must be on the len(input) < c.dataShards edge
			onEdge := false
			for _, c := range cmpsAt(b) {
				if c.Y == nil {
					continue
				}
				s := c.X.String() + c.Y.String()
				_ = s
				if isBuiltinCall(c.X, "len") != nil || isBuiltinCall(c.Y, "len") != nil {
					px, py := deepPath(c.X), deepPath(c.Y)
					if strings.HasSuffix(px.Path, ".dataShards") || strings.HasSuffix(py.Path, ".dataShards") {
						onEdge = true
					}
					// nothing collected at all is also 'fewer than dataShards'
					if z, isC := constInt(c.Y); isC && z == 0 && c.Op == token.EQL && isBuiltinCall(c.X, "len") != nil {
						onEdge = true
					}
				}
			}
			ek := "errtype:not-enough-edge"
			if match > 1 {
				ek = fmt.Sprintf("errtype:not-enough-edge#%d", match-1)
			}
			if onEdge {
				r.ok("PAIR", ek, w.ipos(ret), "the asserted type "+typeStr(asserted)+" is returned where fewer shards than dataShards are available")
			} else {
				r.bad("PAIR", ek, w.ipos(ret), typeStr(asserted)+" is returned on a path that is not the 'fewer inputs than data shards' edge")
			}
		}
	}
	if match >= 1 {
		r.ok("PAIR", "errtype:present", w.pos(rec.Pos()), fmt.Sprintf("%d of %d concrete-error returns of ReconstructData have the type the classifier asserts, each on a too-few-inputs edge", match, n))
	} else {
		r.bad("PAIR", "errtype:present", w.pos(rec.Pos()), fmt.Sprintf("no return of ReconstructData has the type the classifier asserts (%s): 'needed but not possible' is never recognised", typeStr(asserted)))
	}
	// par1: classifier compares by identity with reedsolomon.ErrTooFewShards
	if c1 := w.Fn("par1.RepairErrorMeansRepairNecessaryButNotPossible"); c1 != nil {
		ok := false
		for _, b := range c1.Blocks {
			for _, in := range b.Instrs {
				if ld, isLd := in.(*ssa.UnOp); isLd {
					if g, isG := ld.X.(*ssa.Global); isG && g.Name() == "ErrTooFewShards" {
						ok = true
					}
				}
			}
		}
		if ok {
			r.ok("PAIR", "errtype:par1", w.pos(c1.Pos()), "PAR1 classifier compares with reedsolomon.ErrTooFewShards, which Reconstruct returns unchanged through Decoder.Repair (ERRFLOW)")
		} else {
			r.bad("PAIR", "errtype:par1", w.pos(c1.Pos()), "PAR1 classifier does not compare with reedsolomon.ErrTooFewShards")
		}
	}
}

func pairPar1Reconstruct(w *World, r *Report) {
	r.rule("PAIR", rulePAIRText)
	// the double check verifies shards that Reconstruct (all shards, parity included) completed
	if fn := w.Fn("(*par1.Decoder).Repair"); fn != nil {
		var rec, ver ssa.CallInstruction
		for _, c := range callInstrs(fn) {
			if c.Common().IsInvoke() {
				switch c.Common().Method.Name() {
				case "Reconstruct":
					rec = c
				case "Verify":
					ver = c
				case "ReconstructData":
					if rec == nil {
						rec = nil
					}
				}
			}
		}
		switch {
		case ver == nil:
		case rec != nil && instrDominates(rec, ver) && rec.Common().Args[0] == ver.Common().Args[0]:
			r.ok("PAIR", "par1:reconstruct-then-verify", w.ipos(ver), "rs.Verify(shards) runs on shards completed by rs.Reconstruct(shards)")
		default:
			r.bad("PAIR", "par1:reconstruct-then-verify", w.ipos(ver), "the double check runs rs.Verify on shards that were not completed by rs.Reconstruct (which also rebuilds missing parity): with a missing parity volume the check fails although the repair is right")
		}
	}
}

// CLASSIFY: every error that Repair returns *because there is too little parity*
// must be the one the exit-code classifier recognises.
func ruleCLASSIFY(w *World, r *Report) {
	r.rule("PAIR", rulePAIRText+"; CLASSIFY: on the PAR2 repair path every error return that is decided by the number of parity shards (a dominating comparison on len(d.parityShards)) returns the type the classifier asserts - otherwise 'needed but not possible' is reported as a generic failure")
	cls := w.Fn("par2.RepairErrorMeansRepairNecessaryButNotPossible")
	if cls == nil {
		r.unk("PAIR", "classify", "-", "classifier not found")
		return
	}
	var asserted types.Type
	for _, b := range cls.Blocks {
		for _, in := range b.Instrs {
			if ta, ok := in.(*ssa.TypeAssert); ok {
				asserted = ta.AssertedType
			}
		}
	}
	n := 0
	for _, name := range []string{"(*par2.Decoder).Repair", "(*par2.Decoder).newCoderAndShards"} {
		fn := w.Fn(name)
		if fn == nil {
			continue
		}
		k := 0
		for _, b := range fn.Blocks {
			if len(b.Instrs) == 0 {
				continue
			}
			ret, ok := b.Instrs[len(b.Instrs)-1].(*ssa.Return)
			if !ok || len(ret.Results) == 0 {
				continue
			}
			ev := ret.Results[len(ret.Results)-1]
			if !isErrorType(ev.Type()) || !definitelyNonNilError(ev) {
				continue
			}
			// decided by the parity count?
			byParity := false
			for _, f := range domFacts(b) {
				if !f.Truth {
					// the fact must be the edge taken towards the error; accept both polarities of the innermost fact only
				}
				for _, c := range factCmps(f) {
					for _, side := range []ssa.Value{c.X, c.Y} {
						if side == nil {
							continue
						}
						if lc := isBuiltinCall(side, "len"); lc != nil && strings.HasSuffix(deepPath(lc.Call.Args[0]).Path, ".parityShards") {
							// only if this fact's If is the nearest one deciding this return
							if f.If.Block() == b.Idom() || f.If.Block() == b {
								byParity = true
							}
						}
					}
				}
			}
			if !byParity {
				continue
			}
			n++
			key := fmt.Sprintf("classify:%s:return#%d", name, k)
			k++
			if mi, ok := ev.(*ssa.MakeInterface); ok && asserted != nil && types.Identical(mi.X.Type(), asserted) {
				r.ok("PAIR", key, w.ipos(ret), "too-little-parity error has the classifier's type "+typeStr(asserted))
			} else {
				r.bad("PAIR", key, w.ipos(ret), "Repair fails here because there are no (or too few) parity shards, but the error is not "+typeStr(asserted)+": the command exits with a generic failure status instead of 2 ('repair needed but not possible')")
			}
		}
	}
	r.stat("parity_decided_error_returns", n)
}
