package main

func init() {
	register(&propertySpec{
		ID:          "C02",
		Explanation: "placeholder",
		NeedCG:      true,
		Run: func(w *World, r *Report, tier string) {
			guard(r, "EFF", func() { ruleEFF(w, r, effOpts{true, true, true, true, true}) })
		},
	})
}
