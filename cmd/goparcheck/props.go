package main

import "golang.org/x/tools/go/ssa"

// Property table: which rules decide which property, what they decide and what
// they do not. Texts mirror DESIGN.md section 3.

var (
	cfgAMD   = []string{"amd64"}
	cfgAMD32 = []string{"amd64", "386"}
	cfgAll   = []string{"amd64", "386", "arm64"}
)

var reconstructChain = map[string]bool{
	"(gf2p16.Matrix).rowReduceForInverse": true, "(gf2p16.Matrix).RowReduceForInverse": true, "(gf2p16.Matrix).Inverse": true,
	"rsec16.makeReconstructionMatrix": true, "(rsec16.Coder).ReconstructData": true, "rsec16.NewCoderPAR2Vandermonde": true, "rsec16.NewCoderCauchy": true,
	"(*par2.Decoder).Repair": true, "(*par2.Decoder).newCoderAndShards": true, "par2.repair": true, "par2.Repair": true,
}

var coderChain = map[string]bool{
	"(gf2p16.Matrix).rowReduceForInverse": true, "(gf2p16.Matrix).RowReduceForInverse": true, "(gf2p16.Matrix).Inverse": true,
	"rsec16.makeReconstructionMatrix": true, "(rsec16.Coder).ReconstructData": true, "rsec16.NewCoderPAR2Vandermonde": true, "rsec16.NewCoderCauchy": true,
}

var matrixChain = map[string]bool{
	"(gf2p16.Matrix).rowReduceForInverse": true, "(gf2p16.Matrix).RowReduceForInverse": true, "(gf2p16.Matrix).Inverse": true,
	"rsec16.makeReconstructionMatrix": true,
}

var par1Chain = map[string]bool{
	"(*par1.Decoder).Repair": true, "(*par1.Decoder).VerifyAllData": true, "(*par1.Decoder).newReedSolomon": true, "(*par1.Decoder).buildShards": true,
	"par1.repair": true, "par1.Repair": true, "par1.verify": true, "par1.Verify": true,
	"(*par1.Encoder).ComputeParityData": true, "par1.create": true, "par1.Create": true,
}

// readers: the functions that parse archives and load files
var parseChain = map[string]bool{
	"par2.readFile": true, "par2.readNextPacket": true, "par2.readPacketHeader": true, "par2.readMainPacket": true, "par2.readFileDescriptionPacket": true,
	"par2.readIFSCPacket": true, "par2.readRecoveryPacket": true, "par2.newDecoder": true, "(*par2.Decoder).LoadParityData": true, "(*par2.Decoder).LoadFileData": true,
	"(*par2.Decoder).fillFileIntegrityInfos": true, "par2.makeDecoderInputFileInfos": true, "par2.verify": true, "par2.repair": true,
	"par1.readVolume": true, "par1.readHeader": true, "par1.readFileEntry": true, "par1.newDecoder": true, "(*par1.Decoder).LoadParityData": true,
	"(*par1.Decoder).LoadFileData": true, "par1.verify": true, "par1.repair": true, "(*par1.Decoder).Repair": true, "(*par2.Decoder).Repair": true,
	"(*par1.Decoder).VerifyAllData": true,
}

func init() {
	register(&propertySpec{
		ID: "C01", Fixtures: []string{"FMTCONST", "EXTCUT", "GLOB"}, NeedCG: true, Quick: cfgAMD, Thorough: cfgAll,
		Explanation: "Decides the structural conditions PAR2 repair rests on, for every path of the code: the only failure of reconstruction - a singular or under-determined system - is propagated as an error through every frame from the row reduction up to par2.Repair (ERRFLOW on the reconstruct chain); Repair returns nil only after every buffer it wrote matched the archive's 16k-hash and MD5, and a mismatch returns an error (WGUARD with error returns); writer and reader agree on the coder constructor, on its dimensions being the lengths of the very slices handed to it (the parity table is indexed by exponent), on slice cutting/padding and on the checksum functions (PAIR); every recovery block accepted as a parity shard has the slice size the coder's equal-length precondition needs (SHLEN); per-file damage flags are written to the record Repair reads, not to a copy (DEADST/LOCALCOPY); intact files are recognised with the full per-file predicate (SKIPOK); expected and found slice locations accumulate, so repeated slice contents do not consume recovery blocks (ACCUM); the coder workers partition the slice correctly for every goroutine count (RACE); Repair declares success only through Decoder.Repair (ENTRY-SEQ); the file writer replaces whole files (EFF write-impl). Round-3 additions: after a data file has been read, no return skips the slice search or the two file-level checks (MUSTPASS); elementary row operations cover the whole row of the matrix they touch, also of the wider augmented matrix (ROWCOVER); every surviving recovery block is a candidate row - a nil shard is skipped, it does not end the scan (FILTER). Later additions: format strings, extension cuts and index-path prefixes are literal (FMTCONST, EXTCUT, BASECUT); the checksum map returns exactly m[crc][md5(data)] (GETKEYS); no write follows a failed reconstruction and the not-enough error needs a missing slice (NOWRITE, NEEDSLICE); the file reader returns the OS error itself, which the missing-file test needs (ERRIDENT); no value is copied into a like-typed field of another name (FIELDCROSS); deep comparisons compare like with like (DEEPEQ); a volume file's blocks are used only after its main packet's slice size and file-id sets matched the index file's (VOLCONS); volume discovery lists literally and completely (GLOB, GLOBCALL); the slice search covers every offset, its rolling checksum stays coupled to the scan position and padded slices have the requested length (SCANALL, ROLLSCAN, WINTAB, PADCUT - the clauses of C16); the double check skips exponents not loaded and Repair reaches its write loop before declaring success (DCHECKSKIP, WRITELOOP). Reconstruction goes through the solver: the matrix returned without error is RowReduceForInverse output and the rows ReconstructData fills in are applyMatrix output for that matrix (SOLVE).",
		NotDecided:  []string{"that Repair succeeds whenever k blocks survive (matrix algebra, slice search at every offset)", "volume discovery beyond what C06 decides", "the values of the reconstructed bytes"},
		Run: func(w *World, r *Report, tier string) {
			guard(r, "SOLVE", func() { ruleSOLVE(w, r); ruleSOLVEStores(w, r) })
			guard(r, "WRITELOOP", func() { ruleWRITELOOP(w, r) })
			guard(r, "DCHECKSKIP", func() { ruleDCHECKSKIP(w, r) })
			guard(r, "PADCUT", func() { rulePADCUT(w, r) })
			guard(r, "ERRFLOW", func() {
				ruleERRFLOW(w, r, errflowScope{fnNames: reconstructChain, tag: " on the reconstruct chain"}, 8)
			})
			guard(r, "WGUARD", func() { ruleWGUARD(w, r, true) })
			guard(r, "PAIR", func() { rulePAIRpar2(w, r, pairOpts{true, true, true}) })
			guard(r, "SHLEN", func() { ruleSHLEN(w, r) })
			guard(r, "VOLCONS", func() { ruleVOLCONS(w, r) })
			guard(r, "GLOB", func() { ruleGLOB(w, r, globOpts{literal: true, complete: true}) })
			guard(r, "GLOBCALL", func() { ruleGLOBCALL(w, r) })
			guard(r, "SCANALL", func() { ruleSCANALL(w, r) })
			guard(r, "ROLLSCAN", func() { ruleROLLSCAN(w, r) })
			guard(r, "WINTAB", func() { ruleWINTAB(w, r) })
			guard(r, "SKIPOK", func() { ruleSKIPOK(w, r) })
			guard(r, "DEADST", func() { ruleDEADST(w, r) })
			guard(r, "ACCUM", func() { ruleACCUM(w, r) })
			guard(r, "RACE", func() { ruleRACE(w, r) })
			guard(r, "ENTRY-SEQ", func() { ruleENTRYSEQ(w, r, "par2") })
			guard(r, "EFF", func() { ruleEFF(w, r, effOpts{e1: true, impl: true, onlyPkg: "par2"}) })
			guard(r, "MUSTPASS", func() { ruleMUSTPASS(w, r) })
			guard(r, "ROWCOVER", func() { ruleROWCOVER(w, r) })
			guard(r, "FILTER", func() { ruleFILTER(w, r) })
			guard(r, "DEEPEQ", func() { ruleDEEPEQ(w, r, "par2") })
			guard(r, "FMTCONST", func() { ruleFMTCONST(w, r) })
			guard(r, "EXTCUT", func() { ruleEXTCUT(w, r) })
			guard(r, "GETKEYS", func() { ruleGETKEYS(w, r) })
			guard(r, "NOWRITE", func() { ruleNOWRITE(w, r) })
			guard(r, "NEEDSLICE", func() { ruleNEEDSLICE(w, r) })
			guard(r, "ERRIDENT", func() { ruleERRIDENT(w, r) })
			guard(r, "FIELDCROSS", func() { ruleFIELDCROSS(w, r) })
			guard(r, "BASECUT", func() { ruleBASECUT(w, r) })
		},
	})

	register(&propertySpec{
		ID: "C02", Fixtures: []string{"EFF"}, NeedCG: true, Quick: cfgAMD, Thorough: cfgAll,
		Explanation: "Decides, for every path of the code (hence every archive state and both double-check settings): which code may mutate the filesystem at all and that the one primitive replaces whole files (EFF E1-E5), that every byte buffer Repair writes is the very buffer whose 16k-hash and MD5 were just compared with the hashes of the archive entry the target path was derived from (WGUARD), that a path is reported iff its write returned nil and reported paths survive to the caller also when Repair fails later (REPORT, REPORT-PROP), that writes are control-dependent on the file having been found damaged (SKIPOK), that Create's output names do not depend on the input names (CREATE-PATHS), and that no function reachable from Verify contains or reaches a write. These are necessary conditions: breaking any of them breaks the property. The protected name a reader stores or checks is the decoded wire name, unaltered (NAMEFID). Later additions: a return reachable from a write does not drop the list of repaired paths (REPORT nil-after-write); the write primitive creates temporaries only beside the target, never under a name derived from it alone, and renames onto the parameter path (EFF write-impl); PAR1 names are sized per UTF-16 unit on both sides (PAIR); no write follows a failed reconstruction (NOWRITE); every expected and every found slice location is recorded, so an intact file with repeated slice contents is recognised as intact and not rewritten (ACCUM); every name that becomes a write target has passed the sanitiser on its cleaned form (SANIT).",
		NotDecided:  []string{"byte equality with the original beyond MD5/16k-hash equality", "the effect of a torn ioutil.WriteFile", "correctness of the reconstruction arithmetic"},
		Run: func(w *World, r *Report, tier string) {
			guard(r, "SANIT", func() { ruleSANIT(w, r) })
			guard(r, "ACCUM", func() { ruleACCUM(w, r) })
			guard(r, "EFF", func() { ruleEFF(w, r, effOpts{e1: true, e2: true, e3: true, e4: true, e5: true, impl: true}) })
			guard(r, "WGUARD", func() { ruleWGUARD(w, r, false) })
			guard(r, "REPORT", func() { ruleREPORT(w, r) })
			guard(r, "REPORT-PROP", func() { ruleREPORTPROP(w, r) })
			guard(r, "SKIPOK", func() { ruleSKIPOK(w, r) })
			guard(r, "CREATE-PATHS", func() { ruleCREATEPATHS(w, r) })
			guard(r, "NAMEFID", func() { ruleNAMEFID(w, r) })
			guard(r, "PAIR", func() { pairPar1UTF16(w, r) })
			guard(r, "NOWRITE", func() { ruleNOWRITE(w, r) })
		},
	})

	register(&propertySpec{
		ID: "C03", NeedCG: true, Quick: cfgAMD, Thorough: cfgAll,
		Explanation: "Decides what the PAR2 verdict is computed from: the verdict predicates are evaluated exhaustively over their finite comparison domain against the table the property states, and the counters are incremented exactly on the nil / non-nil edge of the element they range over, the wrong-file counter exactly under !ok (DECIDE); a slice is recorded as found only for a non-empty CRC32+MD5 lookup of that very slice, packets are accepted only with their MD5 verified over (set id, type, body), packets of other sets are skipped and volume files are read with the decoder's set id (GATE); every per-file and per-slice flag computed while loading can reach the verdict, and is written to the record, not to a local copy of it (DEADST/LOCALCOPY); the expected-location map and the per-slice location sets accumulate - every place a slice content is expected, and every place it is found, is recorded (ACCUM); Verify's result is built from the decoder's counts after both load phases (ENTRY-SEQ). The packet MD5 is computed over set id, type and the whole body (CONST hash orders); no return of the per-file loader skips the whole-file hash or length check (MUSTPASS); the directory is asked for exactly '<base>.' + ext with base cut by length (GLOBCALL). Later additions: the slice search is left only once the position has reached len(data), advances by one byte after a miss and one slice after a hit, and rolls its checksum only by one byte from the previous window (SCANALL, ROLLSCAN, WINTAB); a volume file is accepted only after its main packet matched the index file's slice size and file-id sets (VOLCONS); the checksum map returns exactly m[crc][md5(data)] (GETKEYS); the volume lister matches literally and completely (GLOB); extension and prefix cuts are by length (EXTCUT, BASECUT); the file reader returns the OS error itself (ERRIDENT); stored names are the decoded wire names (NAMEFID); hash fields are not crossed (FIELDCROSS); parse errors propagate (ERRFLOW on the parsing functions).",
		NotDecided:  []string{"completeness of the slice search (rolling CRC, every offset) - C16", "the count of distinct recovery blocks beyond acceptance"},
		Run: func(w *World, r *Report, tier string) {
			guard(r, "PADCUT", func() { rulePADCUT(w, r) })
			guard(r, "DECIDE", func() {
				ruleDECIDEPredicates(w, r, map[string]bool{"par2": true})
				ruleDECIDECounts(w, r, map[string]bool{"par2": true})
				ruleDECIDEChecker(w, r)
			})
			guard(r, "GATE", func() { ruleGATE(w, r, gateOpts{par2: true}) })
			guard(r, "CONST", func() { r.rule("CONST", ruleCONSTText); constHashOrders(w, r) })
			guard(r, "MUSTPASS", func() { ruleMUSTPASS(w, r) })
			guard(r, "GLOBCALL", func() { ruleGLOBCALL(w, r) })
			guard(r, "GLOB", func() { ruleGLOB(w, r, globOpts{literal: true, complete: true}) })
			guard(r, "GETKEYS", func() { ruleGETKEYS(w, r) })
			guard(r, "ERRIDENT", func() { ruleERRIDENT(w, r) })
			guard(r, "NAMEFID", func() { ruleNAMEFID(w, r, "par2") })
			guard(r, "FIELDCROSS", func() { ruleFIELDCROSS(w, r) })
			guard(r, "ERRFLOW", func() { ruleERRFLOW(w, r, errflowScope{fnNames: parseChain, tag: " in the parsing functions"}, 40) })
			guard(r, "BASECUT", func() { ruleBASECUT(w, r) })
			guard(r, "EXTCUT", func() { ruleEXTCUT(w, r) })
			guard(r, "DEADST", func() { ruleDEADST(w, r) })
			guard(r, "ACCUM", func() { ruleACCUM(w, r) })
			guard(r, "SCANALL", func() { ruleSCANALL(w, r) })
			guard(r, "ROLLSCAN", func() { ruleROLLSCAN(w, r) })
			guard(r, "WINTAB", func() { ruleWINTAB(w, r) })
			guard(r, "VOLCONS", func() { ruleVOLCONS(w, r) })
			guard(r, "ENTRY-SEQ", func() { ruleENTRYSEQ(w, r, "par2") })
		},
	})

	register(&propertySpec{
		ID: "C04", Fixtures: []string{"EXTCUT", "FMTCONST"}, NeedCG: true, Quick: cfgAMD, Thorough: cfgAll,
		Explanation: "Decides the structural conditions of the PAR1 round trip: encoder and decoder construct the same coder - reedsolomon.New(len(fileData), parity, WithPAR1Matrix()) - (PAIR); a data file counts as usable only after both hashes matched its entry, a parity volume only with verified control hash, the index volume's set hash and the volume number of its file name, and the probing loop covers exactly the volume numbers 1..max (GATE); the counts are incremented on the right edges and the verdict predicates equal the stated table (DECIDE); the coder's too-few-shards / singular error reaches the caller unchanged, where the classifier compares it by identity (ERRFLOW on the PAR1 chain, PAIR-ERRTYPE); the padding length is shown non-negative before make() (MKLEN); the full parity check runs only when all files are usable, names are sized per UTF-16 code unit, and verify/repair declare success only through the decoder (GATE, PAIR, ENTRY-SEQ); the file writer replaces whole files (EFF write-impl). Later additions: extension and prefix cuts by length (EXTCUT, BASECUT); no branch on the decoded name (NAMESYM); only saved entries become shards (SAVEDONLY); the caller's volume count is kept (OPTKEEP); the shard size comes from the first volume found, not from volume 1 (SIZESENT); volume n carries parity row n-1 on both sides (PAR1VOL); every input path reaches the encoder (ALLINPUTS); volume names are built with a constant format (FMTCONST); hash fields are not crossed (FIELDCROSS); the reader returns the OS error itself (ERRIDENT); written buffers matched their entry and intact files are skipped (WGUARD, SKIPOK).",
		NotDecided:  []string{"the matrix algebra inside klauspost/reedsolomon", "the range of volume numbers probed and padding arithmetic as values", "UTF-16 name handling beyond using unicode/utf16 on both sides (C10)"},
		Run: func(w *World, r *Report, tier string) {
			guard(r, "FMTCONST", func() { ruleFMTCONST(w, r) })
			guard(r, "PAIR", func() { rulePAIRpar1(w, r); rulePAIRERRTYPE(w, r) })
			guard(r, "GATE", func() { ruleGATE(w, r, gateOpts{par1: true, probe: true}) })
			guard(r, "DECIDE", func() {
				ruleDECIDEPredicates(w, r, map[string]bool{"par1": true})
				ruleDECIDECounts(w, r, map[string]bool{"par1": true})
			})
			guard(r, "ERRFLOW", func() { ruleERRFLOW(w, r, errflowScope{fnNames: par1Chain, tag: " on the PAR1 coder chain"}, 10) })
			guard(r, "MKLEN", func() { ruleMKLEN(w, r) })
			guard(r, "ENTRY-SEQ", func() { ruleENTRYSEQ(w, r, "par1") })
			guard(r, "EFF", func() { ruleEFF(w, r, effOpts{e1: true, impl: true, onlyPkg: "par1"}) })
			guard(r, "EXTCUT", func() { ruleEXTCUT(w, r) })
			guard(r, "NAMESYM", func() { ruleNAMESYM(w, r, "par1") })
			guard(r, "SAVEDONLY", func() { ruleSAVEDONLY(w, r) })
			guard(r, "PAR1VOL", func() { rulePAR1VOL(w, r) })
			guard(r, "ALLINPUTS", func() { ruleALLINPUTS(w, r, "par1") })
			guard(r, "ERRIDENT", func() { ruleERRIDENT(w, r) })
			guard(r, "OPTKEEP", func() { ruleOPTKEEP(w, r) })
			guard(r, "SIZESENT", func() { ruleSIZESENT(w, r) })
			guard(r, "FIELDCROSS", func() { ruleFIELDCROSS(w, r) })
			guard(r, "WGUARD", func() { ruleWGUARD(w, r, false) })
			guard(r, "SKIPOK", func() { ruleSKIPOK(w, r) })
			guard(r, "BASECUT", func() { ruleBASECUT(w, r) })
		},
	})

	register(&propertySpec{
		ID: "C05", NeedCG: true, Quick: cfgAMD, Thorough: cfgAll,
		Explanation: "Compares what Create emits with tables transcribed from the PAR 2.0 specification, independently of gopar's own reader (a mistake shared by writer and reader keeps every round-trip test green): packet magic and the five packet types by value and their wiring to the body writers, wire struct layouts, little-endian only, IEEE CRC32 and MD5 only, hash input orders of the packet MD5 and the file ID, recovery set id = MD5 of the main packet body as written, a creator packet on every success path, field polynomial 0x1100B, log-domain modulus 65535, generator residues {3,5,17,257} and base 2 (CONST); tables are filled over their whole index range (TABLEFILL); writer and reader use the same coder, slicing and checksums (PAIR); the recovery set is sorted by file id before anything is derived from it (DETERM D-c); the byte partition of the coder workers is word-aligned and covers the slice (RACE). Later additions: the requested recovery block count is kept (OPTKEEP); the generator table keeps its order (GENORDER); the matrix is rows x columns = parity x data with element (i, j) = generators[j]^i (VANDER); every recovery block goes into exactly one volume file under its own exponent - key and shard index are the same expression, a volume holds the run [position, next position), the loop ends only at parityShardCount (VOLCOVER); packets are written with the key they are stored under (EXPKEY); every input path reaches the encoder (ALLINPUTS); hash fields are not crossed (FIELDCROSS); format strings and prefix cuts are literal (FMTCONST, BASECUT); the bulk kernels cover the buffers they are given (ASM, KGUARD); the writer replaces whole files (EFF write-impl).",
		NotDecided:  []string{"the recovery block values", "that blocks 0..n-1 each occur exactly once across the volume files", "the direction of the file-id ordering beyond byte order"},
		Run: func(w *World, r *Report, tier string) {
			guard(r, "CONST", func() { ruleCONST(w, r, constOpts{field: true, generators: true, par2: true}) })
			guard(r, "TABLEFILL", func() { ruleTABLEFILL(w, r, 2) })
			guard(r, "PAIR", func() { rulePAIRpar2(w, r, pairOpts{encoder: true, slicing: true}) })
			guard(r, "EFF", func() { ruleEFF(w, r, effOpts{e1: true, impl: true, onlyPkg: "par2"}) })
			guard(r, "OPTKEEP", func() { ruleOPTKEEP(w, r) })
			guard(r, "GENORDER", func() { ruleGENORDER(w, r) })
			guard(r, "VOLCOVER", func() { ruleVOLCOVER(w, r) })
			guard(r, "VANDER", func() { ruleVANDER(w, r) })
			guard(r, "ALLINPUTS", func() { ruleALLINPUTS(w, r, "par2") })
			guard(r, "EXPKEY", func() { ruleEXPKEY(w, r) })
			guard(r, "FIELDCROSS", func() { ruleFIELDCROSS(w, r) })
			guard(r, "DETERM", func() { ruleDETERM(w, r) })
			guard(r, "FMTCONST", func() { ruleFMTCONST(w, r) })
			guard(r, "BASECUT", func() { ruleBASECUT(w, r) })
			guard(r, "TABLEFILL", func() {
				if w.GOARCH == "amd64" {
					ruleTABLEFILL(w, r, 2, "mulTable", "mulTable64")
				} else {
					ruleTABLEFILL(w, r, 1, "mulTable")
				}
			})
			if w.GOARCH == "amd64" {
				guard(r, "ASM", func() { pres := ruleASM(w, r); ruleKGUARD(w, r, pres) })
			}
			guard(r, "RACE", func() { ruleRACE(w, r) })
		},
	})

	register(&propertySpec{
		ID: "C06", Fixtures: []string{"GLOB", "DEEPEQ"}, NeedCG: true, Quick: cfgAMD, Thorough: cfgAll,
		Explanation: "Decides the reader-side structure that layout independence needs: volume discovery lists the directory with an error-returning API and matches prefix and suffix literally, with no further filter, so no base name is interpreted as a pattern and every '<base>.*.par2' beside the index file is returned (GLOB); a file of the set without a main packet cannot be dereferenced (NILF); packets of other sets and of unknown types are skipped without ending the file or storing anything (GATE G2/G3); the exponent-indexed parity table grows without narrow-type wrap and the coder has a row for every index of it (WIRE S2/S5, PAIR); comparisons of duplicated packets compare like with like and the sparse parity table is never compared as a whole (DEEPEQ); a header-only packet is accepted (CONST length bound). Volume discovery asks for exactly '<base>.' + ext (GLOBCALL); the handling of one packet type never branches on state written while handling another type, so packet order cannot matter (ORDERINDEP); the coder considers every surviving recovery block, also after a gap in the exponents (FILTER). Later additions: extension and prefix cuts by length (EXTCUT, BASECUT); names pass the sanitiser unaltered (SANIT, NAMEFID); a packet is filed under the key parsed with it and a recovery block lands in the table at its own exponent (EXPKEY); usable recovery blocks are counted from the exponent table, once each (DECIDE counts); the double check compares only exponents that were loaded (DCHECKSKIP); parse errors propagate (ERRFLOW on the parsing functions). Reconstruction goes through the solver: the matrix returned without error is RowReduceForInverse output and the rows ReconstructData fills in are applyMatrix output for that matrix (SOLVE).",
		NotDecided:  []string{"insensitivity to packet order and duplication as behaviour"},
		Run: func(w *World, r *Report, tier string) {
			guard(r, "SOLVE", func() { ruleSOLVE(w, r); ruleSOLVEStores(w, r) })
			guard(r, "DCHECKSKIP", func() { ruleDCHECKSKIP(w, r) })
			guard(r, "GLOB", func() { ruleGLOB(w, r, globAll) })
			guard(r, "NILF", func() { ruleNILF(w, r) })
			guard(r, "GATE", func() { r.rule("GATE", ruleGATEText); gateSetID(w, r); gateExpectedSetID(w, r) })
			guard(r, "WIRE", func() { ruleWIRE(w, r, "(*par2.Decoder).LoadParityData") })
			guard(r, "PAIR", func() { rulePAIRpar2(w, r, pairOpts{decoder: true}) })
			guard(r, "DEEPEQ", func() { ruleDEEPEQ(w, r, "par2") })
			guard(r, "DECIDE", func() { ruleDECIDECounts(w, r, map[string]bool{"par2": true}) })
			guard(r, "CONST", func() { constPacketLenBound(w, r) })
			guard(r, "GLOBCALL", func() { ruleGLOBCALL(w, r) })
			guard(r, "CONST", func() { r.rule("CONST", ruleCONSTText); constByteOrder(w, r, "par2") })
			guard(r, "EXTCUT", func() { ruleEXTCUT(w, r) })
			guard(r, "BASECUT", func() { ruleBASECUT(w, r) })
			guard(r, "ORDERINDEP", func() { ruleORDERINDEP(w, r) })
			guard(r, "EXPKEY", func() { ruleEXPKEY(w, r) })
			guard(r, "SANIT", func() { ruleSANIT(w, r) })
			guard(r, "NAMEFID", func() { ruleNAMEFID(w, r, "par2") })
			guard(r, "ERRFLOW", func() { ruleERRFLOW(w, r, errflowScope{fnNames: parseChain, tag: " in the parsing functions"}, 40) })
			guard(r, "FILTER", func() { ruleFILTER(w, r) })
		},
	})

	register(&propertySpec{
		ID: "C07", NeedCG: true, Quick: cfgAMD, Thorough: cfgAll,
		Explanation: "Decides the ownership and error structure of the coder: GenerateParity never writes its data shards; ReconstructData never writes parity and writes data only at depth 1 (nil rows replaced), never at byte depth (OWN, bottom-up write summaries incl. the assembly kernels and the unsafe casts); the dedicated not-enough-parity type is returned exactly on the fewer-inputs-than-data-shards edge and is the type the PAR2 classifier asserts (PAIR-ERRTYPE); a singular system is reported as an error in every frame (ERRFLOW on the coder chain); row and element copies in the matrix code have provably equal lengths (COPYLEN); the workers' ranges are disjoint, word-aligned, cover the shard and are joined (RACE). Row operations cover the full row of the matrix they touch (ROWCOVER); the parity-row selection is a filter over all rows (FILTER). Later additions: elimination and solving shapes - pivot on the diagonal, every other row eliminated, the inverse taken from the reduced right half (ELIM, SOLVE, INVSOLVE); kernels and their tables (ASM, KGUARD, TABLEFILL).",
		NotDecided:  []string{"MDS reconstruction: that a nil error means the restored shards equal the originals", "row swaps and elimination as values"},
		Run: func(w *World, r *Report, tier string) {
			guard(r, "OWN", func() { ruleOWN(w, r, ownOpts{coder: true}) })
			guard(r, "COPYLEN", func() { ruleCOPYLEN(w, r) })
			guard(r, "ROWCOVER", func() { ruleROWCOVER(w, r) })
			guard(r, "ELIM", func() { ruleELIM(w, r) })
			guard(r, "INVSOLVE", func() { ruleINVSOLVE(w, r) })
			guard(r, "SOLVE", func() { ruleSOLVE(w, r); ruleSOLVEStores(w, r) })
			guard(r, "TABLEFILL", func() {
				if w.GOARCH == "amd64" {
					ruleTABLEFILL(w, r, 2, "mulTable", "mulTable64")
				} else {
					ruleTABLEFILL(w, r, 1, "mulTable")
				}
			})
			if w.GOARCH == "amd64" {
				guard(r, "ASM", func() { pres := ruleASM(w, r); ruleKGUARD(w, r, pres) })
			}
			guard(r, "FILTER", func() { ruleFILTER(w, r) })
			guard(r, "PAIR", func() { rulePAIRERRTYPE(w, r) })
			guard(r, "ERRFLOW", func() { ruleERRFLOW(w, r, errflowScope{fnNames: coderChain, tag: " on the coder chain"}, 4) })
			guard(r, "RACE", func() { ruleRACE(w, r) })
		},
	})

	register(&propertySpec{
		ID: "C08", NeedCG: true, Quick: cfgAMD32, Thorough: cfgAll,
		Explanation: "Decides the constants and index arithmetic the field identities depend on: tables are built by reduction modulo 0x1100B, every log-domain modulus is 65535 and equals the table lengths, the tables are filled over their whole range (CONST field, TABLEFILL); every index into a table lies inside it and no intermediate value on the way to an index exceeds its type - zero operands leave before any log lookup, logT*p is formed in 64 bits (RANGE, per GOARCH). Each is necessary: % 65536, a missing zero guard or a 32-bit product all break the stated identities. No value in gf2/gf2p16 passes through a floating-point type or package math (INTONLY). Later additions: 0^p is decided on the unreduced exponent and exponent arithmetic is reduced mod 65535 in 64 bits (ZEROEXP); Div and Inverse return only after the zero test (ZERODIV); the multiplication tables of t.go are filled over their whole index range too (TABLEFILL).",
		NotDecided:  []string{"the products themselves over 2^32 operand pairs", "gf2.Poly64 multiplication and division as values"},
		Run: func(w *World, r *Report, tier string) {
			guard(r, "CONST", func() { ruleCONST(w, r, constOpts{field: true}) })
			guard(r, "TABLEFILL", func() {
				// log/exp tables, and the multiplication tables of t.go that the table-driven products read
				if w.GOARCH == "amd64" {
					ruleTABLEFILL(w, r, 3, "expTable", "logTable", "mulTable", "mulTable64")
				} else {
					ruleTABLEFILL(w, r, 2, "expTable", "logTable", "mulTable")
				}
			})
			guard(r, "INTONLY", func() { ruleINTONLY(w, r) })
			guard(r, "ZEROEXP", func() { ruleZEROEXP(w, r) })
			guard(r, "ZERODIV", func() { ruleZERODIV(w, r) })
			guard(r, "RANGE", func() {
				ruleRANGE(w, r, []string{"gf2p16", "gf2"}, 5, func(fn *ssa.Function) bool {
					return fn.Signature.Recv() != nil && namedTypeName(fn.Signature.Recv().Type()) != "gf2p16.Matrix"
				})
			})
		},
	})

	register(&propertySpec{
		ID: "C09", Fixtures: []string{"IDXLEN"}, NeedCG: true, Quick: cfgAMD32, Thorough: cfgAll,
		Explanation: "Decides 'never read or write outside the given buffers, never modify the input' on all three dispatch paths from source: the twelve assembly TEXT symbols are abstractly interpreted over the assembler's own listing (partial-width operations on lengths, closed-form loop extents, stores only through out*, table operands inside their field, FP operands) and emit caller obligations (ASM); the four production call sites and the two unsafe casts establish them (KGUARD); the exported kernels write out at byte depth only and never in (OWN, amd64/386/arm64 paths); table indices of the portable loops are in range (RANGE); the SSSE3 tables are filled for every constant (TABLEFILL). Later additions: an index counted from the end of a buffer, len(s)-k, is evaluated only where len(s) >= k is known (IDXLEN).",
		NotDecided:  []string{"out[i] = c*in[i] as values", "behaviour for odd buffer lengths (the API documents even lengths)"},
		Run: func(w *World, r *Report, tier string) {
			guard(r, "OWN", func() { ruleOWN(w, r, ownOpts{kernels: true}) })
			guard(r, "RANGE", func() {
				ruleRANGE(w, r, []string{"gf2p16"}, 8, func(fn *ssa.Function) bool { return fn.Signature.Recv() == nil })
			})
			guard(r, "IDXLEN", func() { ruleIDXLEN(w, r, "gf2p16") })
			guard(r, "TABLEFILL", func() {
				if w.GOARCH == "amd64" {
					ruleTABLEFILL(w, r, 2, "mulTable", "mulTable64")
				} else {
					ruleTABLEFILL(w, r, 1, "mulTable")
				}
			})
			if w.GOARCH == "amd64" {
				guard(r, "ASM", func() { pres := ruleASM(w, r); ruleKGUARD(w, r, pres) })
			}
		},
	})

	register(&propertySpec{
		ID: "C10", Fixtures: []string{"FMTCONST"}, NeedCG: true, Quick: cfgAMD, Thorough: cfgAll,
		Explanation: "Compares the PAR1 writer and reader with tables transcribed from the PAR 1.0 specification: header and entry layouts, identification string, version (low 32 bits only on the reader - the high half is the generator id), file list offset 0x60, control hash over bytes from 0x20 on both sides, status bit 0, the 16 KiB prefix, little-endian only (CONST par1); names go through unicode/utf16 on both sides and the PAR1 matrix option is used on both sides (PAIR); the set hash and the data shards cover saved entries only, and a slice that is a filtered image of the entry list is never used to index the unfiltered list (GATE, IDXDOM); table lookups on header fields stay in range (RANGE). Later additions: extension/prefix cuts (EXTCUT, BASECUT); no branch on the decoded name (NAMESYM); saved entries only (SAVEDONLY); header fields are stored before the header is written (HDRFIELDS); the requested volume count is kept (OPTKEEP); volume n carries parity row n-1 in header, file name, reader table and shard position (PAR1VOL); volume names are built with a constant format (FMTCONST); the file counts are pure counters over the saved entries' slots (DECIDE counts); immutability of the entry list (IMMUT); the writer replaces whole files (EFF write-impl). What Create writes is a function of its arguments: package par1 has no package-level variable written after initialisation (GLOBALS); the name conversions pass through unicode/utf16 on every path (PAIR every-path).",
		NotDecided:  []string{"the parity byte values (GF(2^8) arithmetic in klauspost/reedsolomon)"},
		Run: func(w *World, r *Report, tier string) {
			guard(r, "GLOBALS", func() { ruleGLOBALS(w, r, map[string]bool{"par1": true}) })
			guard(r, "DECIDE", func() { ruleDECIDECounts(w, r, map[string]bool{"par1": true}) })
			guard(r, "FMTCONST", func() { ruleFMTCONST(w, r) })
			guard(r, "CONST", func() { ruleCONST(w, r, constOpts{par1: true}) })
			guard(r, "PAIR", func() { rulePAIRpar1(w, r) })
			guard(r, "GATE", func() { ruleGATE(w, r, gateOpts{par1: true, probe: true}) })
			guard(r, "IDXDOM", func() { ruleIDXDOM(w, r) })
			guard(r, "IMMUT", func() { ruleIMMUT(w, r, "par1") })
			guard(r, "EXTCUT", func() { ruleEXTCUT(w, r) })
			guard(r, "NAMESYM", func() { ruleNAMESYM(w, r, "par1") })
			guard(r, "SAVEDONLY", func() { ruleSAVEDONLY(w, r) })
			guard(r, "OPTKEEP", func() { ruleOPTKEEP(w, r) })
			guard(r, "HDRFIELDS", func() { ruleHDRFIELDS(w, r) })
			guard(r, "PAR1VOL", func() { rulePAR1VOL(w, r) })
			guard(r, "BASECUT", func() { ruleBASECUT(w, r) })
			guard(r, "EFF", func() { ruleEFF(w, r, effOpts{e1: true, impl: true, onlyPkg: "par1"}) })
			guard(r, "RANGE", func() { ruleRANGE(w, r, []string{"par1"}, 0) })
		},
	})

	register(&propertySpec{
		ID: "C11", NeedCG: true, Quick: cfgAMD, Thorough: cfgAll,
		Explanation: "Decides 'matrix operations never modify their operands' for every exported gf2p16.Matrix constructor and method: receiver, matrix and slice arguments are never written, through any callee including the bulk kernels and the row views (OWN: mutators run only on fresh clones); that copies of rows and element arrays have provably equal lengths, so no row operation moves part of a row (COPYLEN); that a singular matrix is reported as an error in every frame up to the caller (ERRFLOW on the matrix chain); and that the bulk kernels the row operations run through cover the whole row and stay inside it (ASM, KGUARD: stride, tail offset, dispatcher coverage). Later additions: elimination shapes (ELIM, INVSOLVE), full-row coverage (ROWCOVER), the split multiplication tables are filled for every constant (TABLEFILL).",
		NotDecided:  []string{"correctness of the inverse and of the row-reduced product as values", "that an error is reported exactly when the matrix is singular (pivot search as values)"},
		Run: func(w *World, r *Report, tier string) {
			guard(r, "OWN", func() { ruleOWN(w, r, ownOpts{matrix: true}) })
			guard(r, "COPYLEN", func() { ruleCOPYLEN(w, r) })
			guard(r, "ERRFLOW", func() { ruleERRFLOW(w, r, errflowScope{fnNames: matrixChain, tag: " on the matrix chain"}, 3) })
			guard(r, "ELIM", func() { ruleELIM(w, r) })
			guard(r, "INVSOLVE", func() { ruleINVSOLVE(w, r) })
			guard(r, "TABLEFILL", func() {
				if w.GOARCH == "amd64" {
					ruleTABLEFILL(w, r, 2, "mulTable", "mulTable64")
				} else {
					ruleTABLEFILL(w, r, 1, "mulTable")
				}
			})
			guard(r, "ROWCOVER", func() { ruleROWCOVER(w, r) })
			if w.GOARCH == "amd64" {
				// row scaling and scaled row addition run through the bulk kernels
				guard(r, "ASM", func() { pres := ruleASM(w, r); ruleKGUARD(w, r, pres) })
			}
		},
	})

	register(&propertySpec{
		ID: "C12", Fixtures: []string{"GLOBALS"}, NeedCG: true, Quick: cfgAMD, Thorough: cfgAll,
		Explanation: "Decides race freedom and schedule independence of the coder workers for all goroutine counts, lengths and interleavings from the shape of the code: captures are stable, workers only call applyMatrixSlice, each worker's range is exactly [i*P, min(i*P+P, N)) with P >= 16 a multiple of 16 (word-aligned) and N the true length, the number of workers is ceil(N/P) unmodified - so the ranges are pairwise disjoint AND cover [0,N) -, the other dimension is passed whole, Add/Done/Wait bracket the loop (RACE); the kernels write only through their out argument (OWN, which reads the assembly kernels by their out* parameters); no package-level state is written after initialisation (GLOBALS); the goroutine option reaches nothing but the coder (DETERM D-e). Later additions: the goroutine option is bounded below by 1 wherever the default is not taken (GOPT); the default count itself is >= 1 on every path, an undetectable core count (0) included (DEFPOS); the coder's dimensions are those of the slices handed to it (PAIR); kernels and tables (ASM, KGUARD, TABLEFILL).",
		NotDecided:  []string{"that the single-threaded result is the right one (C07/C09)", "that the assembly kernels stay inside the out slice they are given (decided under C09: ASM/KGUARD)", "the Go memory model itself"},
		Run: func(w *World, r *Report, tier string) {
			guard(r, "RACE", func() { ruleRACE(w, r) })
			guard(r, "GLOBALS", func() { ruleGLOBALS(w, r, map[string]bool{"gf2p16": true, "rsec16": true, "gf2": true}) })
			guard(r, "OWN", func() { ruleOWN(w, r, ownOpts{kernels: true}) })
			guard(r, "DETERM", func() { r.rule("DETERM", ruleDETERMText); determGoroutineOption(w, r) })
			guard(r, "PAIR", func() { rulePAIRpar2(w, r, pairOpts{encoder: true, decoder: true}) })
			guard(r, "GOPT", func() { ruleGOPT(w, r) })
			guard(r, "DEFPOS", func() { ruleDEFPOS(w, r) })
			guard(r, "TABLEFILL", func() {
				if w.GOARCH == "amd64" {
					ruleTABLEFILL(w, r, 2, "mulTable", "mulTable64")
				} else {
					ruleTABLEFILL(w, r, 1, "mulTable")
				}
			})
			if w.GOARCH == "amd64" {
				guard(r, "ASM", func() { pres := ruleASM(w, r); ruleKGUARD(w, r, pres) })
			}
		},
	})

	register(&propertySpec{
		ID: "C13", Fixtures: []string{"BUFNEXT"}, NeedCG: true, Quick: cfgAMD32, Thorough: cfgAll,
		Explanation: "Decides necessary conditions for 'corruption never crashes or misleads': every integer that comes from an archive - including the packet length, which no checksum covers - is bounded before it is converted, used as a size, as a slice bound or as a divisor, and bytes from Buffer.Next are length-checked before indexing (WIRE, per GOARCH); nil-able packet pointers are checked before use (NILF); allocation lengths that are differences are shown non-negative (MKLEN); table lookups on header fields stay in range (RANGE); everything accepted lies behind the packet MD5 / control hash / set id gates, so bit flips stop there (GATE); parse errors are propagated, never turned into results (ERRFLOW on the parsing functions). Nil checks that detect a missing packet can actually fire (NILLIVE); a slice collected by appends is indexed with a constant only under a lower bound on its length (NONEMPTY); the coder has a row for every index of the exponent-indexed parity table (PAIR decoder dims). Later additions: a packet with an empty checksum list is rejected (IFSCPAIRS); reslicing to h is preceded by h <= len or cap (SLICECAP); the slice-record table has one element per checksum pair (SHARDTAB); nothing is allocated from a declared size before it was compared with data held (ALLOCBOUND); the reader returns the OS error itself (ERRIDENT); no write after a failed reconstruction (NOWRITE); the write primitive is whole-file (EFF write-impl); a path is reported and decoder state updated only after its write succeeded (REPORT, POSTWRITE); Repair does not return success before the write loop (WRITELOOP); damage flags reach the record the verdict reads (DEADST/LOCALCOPY). Reconstruction goes through the solver: the matrix returned without error is RowReduceForInverse output and the rows ReconstructData fills in are applyMatrix output for that matrix (SOLVE).",
		NotDecided:  []string{"full panic freedom (the compiler leaves 60+ bounds checks unproven in the readers; relational reasoning)", "termination of every loop", "crash prefixes of Create as histories"},
		Run: func(w *World, r *Report, tier string) {
			guard(r, "SOLVE", func() { ruleSOLVE(w, r); ruleSOLVEStores(w, r) })
			guard(r, "DEADST", func() { ruleDEADST(w, r) })
			guard(r, "WRITELOOP", func() { ruleWRITELOOP(w, r) })
			guard(r, "POSTWRITE", func() { rulePOSTWRITE(w, r) })
			guard(r, "REPORT", func() { ruleREPORT(w, r) })
			guard(r, "WIRE", func() { ruleWIRE(w, r) })
			guard(r, "NILF", func() { ruleNILF(w, r) })
			guard(r, "MKLEN", func() { ruleMKLEN(w, r) })
			guard(r, "RANGE", func() { ruleRANGE(w, r, []string{"par1", "par2"}, 0) })
			guard(r, "GATE", func() { ruleGATE(w, r, gateOpts{par2: true, par1: true}) })
			guard(r, "ERRFLOW", func() { ruleERRFLOW(w, r, errflowScope{fnNames: parseChain, tag: " in the parsing functions"}, 40) })
			guard(r, "NILLIVE", func() { ruleNILLIVE(w, r) })
			guard(r, "NONEMPTY", func() { ruleNONEMPTY(w, r, "rsec16", "par1", "par2") })
			guard(r, "ENTRY-SEQ", func() { ruleENTRYSEQ(w, r, "par1", "par2") })
			guard(r, "IFSCPAIRS", func() { ruleIFSCPAIRS(w, r) })
			guard(r, "ERRIDENT", func() { ruleERRIDENT(w, r) })
			guard(r, "SLICECAP", func() { ruleSLICECAP(w, r) })
			guard(r, "SHARDTAB", func() { ruleSHARDTAB(w, r) })
			guard(r, "ALLOCBOUND", func() { ruleALLOCBOUND(w, r) })
			guard(r, "EFF", func() { ruleEFF(w, r, effOpts{e1: true, impl: true}) })
			guard(r, "NOWRITE", func() { ruleNOWRITE(w, r) })
			guard(r, "PAIR", func() { rulePAIRpar2(w, r, pairOpts{decoder: true}) })
		},
	})

	register(&propertySpec{
		ID: "C14", Fixtures: []string{"GLOBALS", "EFF"}, NeedCG: true, Quick: cfgAMD, Thorough: cfgAll,
		Explanation: "Decides that the only state between operations is the directory and that operations treat it as the property requires: no package-level variable is written after initialisation (GLOBALS); Verify reaches no write (EFF E3); Repair rewrites a file only if the full per-file predicate - evaluated before reconstruction overwrites the slice records, with the same index as the entry - found it damaged, the very predicate Verify's verdict uses (SKIPOK, DECIDE counts); only buffers that matched the entry's hashes are written, each to the entry's own name, and reported iff written (WGUARD, REPORT). The writer primitive replaces whole files (EFF write-impl); damage flags are stored to the record, not to a copy (DEADST/LOCALCOPY); decoder state is marked restored only after the write succeeded (POSTWRITE). Later additions: the checksum map returns exactly m[crc][md5(data)] (GETKEYS); no write after a failed reconstruction, not-enough only with a missing slice (NOWRITE, NEEDSLICE); the PAR1 shard size comes from the first volume found (SIZESENT); every surviving block is a candidate (FILTER); volume listing literal and complete (GLOB); entries immutable (IMMUT); the PAR1 double check verifies what Reconstruct completed (PAIR); PAR2 Repair does not return success before the write loop (WRITELOOP); no error of a read or write is reclassified as mere damage (ERRFLOW over par1 and par2). Reconstruction goes through the solver: the matrix returned without error is RowReduceForInverse output and the rows ReconstructData fills in are applyMatrix output for that matrix (SOLVE).",
		NotDecided:  []string{"closure of the reachable history graph", "that every location of a repeated slice content is credited (value level)"},
		Run: func(w *World, r *Report, tier string) {
			guard(r, "SOLVE", func() { ruleSOLVE(w, r); ruleSOLVEStores(w, r) })
			guard(r, "ERRFLOW", func() { ruleERRFLOW(w, r, errflowScope{pkgs: []string{"par1", "par2"}, tag: " in par1 and par2"}, 60) })
			guard(r, "WRITELOOP", func() { ruleWRITELOOP(w, r) })
			guard(r, "GLOBALS", func() { ruleGLOBALS(w, r, nil) })
			guard(r, "EFF", func() { ruleEFF(w, r, effOpts{e1: true, e3: true, impl: true}) })
			guard(r, "DEADST", func() { ruleDEADST(w, r) })
			guard(r, "POSTWRITE", func() { rulePOSTWRITE(w, r) })
			guard(r, "GETKEYS", func() { ruleGETKEYS(w, r) })
			guard(r, "NOWRITE", func() { ruleNOWRITE(w, r) })
			guard(r, "NEEDSLICE", func() { ruleNEEDSLICE(w, r) })
			guard(r, "SIZESENT", func() { ruleSIZESENT(w, r) })
			guard(r, "FILTER", func() { ruleFILTER(w, r) })
			guard(r, "GLOB", func() { ruleGLOB(w, r, globOpts{literal: true, complete: true}) })
			guard(r, "SKIPOK", func() { ruleSKIPOK(w, r) })
			guard(r, "WGUARD", func() { ruleWGUARD(w, r, false) })
			guard(r, "REPORT", func() { ruleREPORT(w, r) })
			guard(r, "DECIDE", func() { ruleDECIDECounts(w, r, map[string]bool{"par2": true, "par1": true}) })
			guard(r, "ACCUM", func() { ruleACCUM(w, r) })
			guard(r, "ENTRY-SEQ", func() { ruleENTRYSEQ(w, r, "par1", "par2") })
			guard(r, "IMMUT", func() { ruleIMMUT(w, r, "par1", "par2") })
			guard(r, "PAIR", func() { pairPar1Reconstruct(w, r) })
		},
	})

	register(&propertySpec{
		ID: "C15", Fixtures: []string{"EFF"}, NeedCG: true, Quick: cfgAMD, Thorough: cfgAll,
		Explanation: "Decides that every flow from an archive-declared name to a filesystem call passes the check-and-join: the PAR2 reader accepts a description packet only after checkFilename accepted the very name it carries; checkFilename tests the cleaned name, the raw name reaching only IsAbs and Clean; getFilePath joins Dir(index path) with the unmodified validated field (PAR1: only after Base(name)==name); no decoder file operation takes a path derived from a name field except through getFilePath; PAR2 Create stores only Rel(basePath, .) results that do not start with a dot (SANIT); no other filesystem access exists (EFF). Names are not altered between the wire and the path (NAMEFID) and no I/O happens on a bare set-relative name (ANCHOR). Later additions: the write primitive creates temporaries only in the target's directory and renames onto the parameter path (EFF write-impl, where-it-writes clause); Create's base path is the directory of the absolute index path (DETERM D-d).",
		NotDecided:  []string{"that the predicates reject exactly the traversing spellings on every platform (e.g. backslashes on Windows)"},
		Run: func(w *World, r *Report, tier string) {
			guard(r, "SANIT", func() { ruleSANIT(w, r) })
			guard(r, "NAMEFID", func() { ruleNAMEFID(w, r) })
			guard(r, "ANCHOR", func() { ruleANCHOR(w, r, "", 6) })
			guard(r, "DETERM", func() { r.rule("DETERM", ruleDETERMText); determPathsPar2(w, r, false) })
			guard(r, "EFF", func() { ruleEFF(w, r, effOpts{e1: true, e2: true, implDir: true}) })
		},
	})

	register(&propertySpec{
		ID: "C16", NeedCG: true, Quick: cfgAMD, Thorough: cfgAll,
		Explanation: "Decides the structural conditions that finding slices at every offset rests on - not the checksum algebra. In par2.fillShardInfos the search looks at data[j : j+sliceByteCount] (padded) for the scan position j, advances by one byte exactly where the lookup was empty and by one slice exactly where it was not, starts at 0 and is left only when j has reached len(data) (ROLLSCAN R1/R2, SCANALL); a rolled checksum is used only in an iteration that follows a one-byte advance, is rolled from the previous window's checksum with data[j-1] leaving and the padded slice's last byte entering, by a window made for sliceByteCount, and every other iteration computes the full CRC of the same slice; the checksum looked up belongs to the slice looked up (ROLLSCAN R3/R4); the window's 256-entry table is written at every index (WINTAB); the search is run on the very bytes read from the file, on every path (MUSTPASS); a padded slice is exactly end-start bytes long at every offset (PADCUT); without recovery blocks 'not enough' is reported only if a slice is really missing (NEEDSLICE); usable and unusable slices are pure counters over the slice records (DECIDE counts); the lookup returns exactly the set filed under (crc, md5(slice)) (GETKEYS); expected and found locations accumulate, so a slice content found once is credited to every place it is expected (ACCUM); a slice's data is recorded only under a non-empty lookup of that very slice (GATE G7); writer and reader cut and pad slices with the same helper (PAIR slicing); every slice record of a file has an element for every checksum pair (SHARDTAB).",
		NotDecided:  []string{"the rolling CRC32 algebra: that update() returns the CRC of the shifted window (table values, the mask constant)", "that a slice overlapping an edit is the only thing lost (counting argument over offsets)", "the behaviour for slice sizes below 4 (newCRC32Window panics)"},
		Run: func(w *World, r *Report, tier string) {
			guard(r, "DECIDE", func() { ruleDECIDECounts(w, r, map[string]bool{"par2": true}) })
			guard(r, "NEEDSLICE", func() { ruleNEEDSLICE(w, r) })
			guard(r, "PADCUT", func() { rulePADCUT(w, r) })
			guard(r, "ROLLSCAN", func() { ruleROLLSCAN(w, r) })
			guard(r, "SCANALL", func() { ruleSCANALL(w, r) })
			guard(r, "WINTAB", func() { ruleWINTAB(w, r) })
			guard(r, "MUSTPASS", func() { ruleMUSTPASS(w, r) })
			guard(r, "GETKEYS", func() { ruleGETKEYS(w, r) })
			guard(r, "ACCUM", func() { ruleACCUM(w, r) })
			guard(r, "GATE", func() { r.rule("GATE", ruleGATEText); gateSlices(w, r) })
			guard(r, "PAIR", func() { rulePAIRpar2(w, r, pairOpts{slicing: true}) })
			guard(r, "SHARDTAB", func() { ruleSHARDTAB(w, r) })
		},
	})

	register(&propertySpec{
		ID: "C17", Fixtures: []string{"FMTCONST", "GLOBALS"}, NeedCG: true, Quick: cfgAMD, Thorough: cfgAll,
		Explanation: "Decides that Create's output depends only on its inputs: no time, random or process-identity call on Create's call-graph closure; every range over a map has an order-insensitive body or ranges over a field that is never set there; the recovery set is sorted by file id before it is stored; the names hashed into file ids derive from Rel(Dir(Abs(parPath)), Abs(p)) for every input (PAR1: Base(p)) (DETERM); the output names depend only on the index path (CREATE-PATHS); independence from the goroutine count by the worker partition (RACE). No I/O is done on a bare set-relative name, which would make the result depend on the working directory (ANCHOR); the writer primitive truncates, so outputs do not depend on earlier runs (EFF write-impl). Later additions: the input path list is never sorted by spelling (PATHORDER); no reference to a package-level buffer escapes or is written after init (GLOBALS); format strings and prefix cuts are literal (FMTCONST, BASECUT); kernels and tables (ASM, KGUARD, TABLEFILL).",
		NotDecided:  []string{"byte equality of two runs as such (follows only together with the purity of the kernels, which is value level)"},
		Run: func(w *World, r *Report, tier string) {
			guard(r, "DETERM", func() { ruleDETERM(w, r) })
			guard(r, "CREATE-PATHS", func() { ruleCREATEPATHS(w, r) })
			guard(r, "ANCHOR", func() { ruleANCHOR(w, r, "Encoder)", 3) })
			guard(r, "PATHORDER", func() { rulePATHORDER(w, r) })
			guard(r, "GLOBALS", func() { ruleGLOBALS(w, r, nil) })
			guard(r, "FMTCONST", func() { ruleFMTCONST(w, r) })
			guard(r, "BASECUT", func() { ruleBASECUT(w, r) })
			guard(r, "TABLEFILL", func() {
				if w.GOARCH == "amd64" {
					ruleTABLEFILL(w, r, 2, "mulTable", "mulTable64")
				} else {
					ruleTABLEFILL(w, r, 1, "mulTable")
				}
			})
			if w.GOARCH == "amd64" {
				guard(r, "ASM", func() { pres := ruleASM(w, r); ruleKGUARD(w, r, pres) })
			}
			guard(r, "EFF", func() { ruleEFF(w, r, effOpts{e1: true, impl: true}) })
			guard(r, "RACE", func() { ruleRACE(w, r) })
		},
	})

	register(&propertySpec{
		ID: "C18", Fixtures: []string{"GLOB", "EFF", "ERRKEEP"}, NeedCG: true, Quick: cfgAMD, Thorough: cfgAll,
		Explanation: "Decides error discipline over every call site rather than sampled fault indices: every error produced by a call in par1, par2 and cmd/par (where all I/O happens) reaches, on every path on which it may be non-nil, a return in error position, a panic or a no-return call; only os.IsNotExist turns a read failure into 'damage' (ERRFLOW, with per-return-site splitting of the immediately-invoked literals). No success is reported for a write that failed (REPORT), nothing but the file being written is touched and the write primitive replaces the whole file (EFF), and the directory lister uses an error-returning API and matches names literally (GLOB). Decoder state is marked restored only on the success edge of the write (POSTWRITE). Later additions: a deferred or nested function assigns the shared error variable only where it is known nil (ERRKEEP). A return site that constructs its own error while a read or write error obtained on the way is still unsettled counts as carrying that error (masked sources), so a failure reported to the caller as mere damage is found.",
		NotDecided:  []string{"that a rerun after the fault completes as if the fault had never occurred", "torn writes", "faults inside the Go runtime or the OS"},
		Run: func(w *World, r *Report, tier string) {
			guard(r, "ERRFLOW", func() {
				ruleERRFLOW(w, r, errflowScope{pkgs: []string{"par1", "par2", "cmd/par"}}, 110)
			})
			guard(r, "REPORT", func() { ruleREPORT(w, r) })
			guard(r, "POSTWRITE", func() { rulePOSTWRITE(w, r) })
			guard(r, "ERRKEEP", func() { ruleERRKEEP(w, r) })
			guard(r, "EFF", func() { ruleEFF(w, r, effOpts{e1: true, e2: true}) })
			guard(r, "GLOB", func() { ruleGLOB(w, r, globOpts{pattern: true, lists: true}) })
		},
	})

	register(&propertySpec{
		ID: "C19", NeedCG: true, Quick: cfgAMD32, Thorough: cfgAll,
		Explanation: "Decides necessary conditions for rejecting well-checksummed but inconsistent archives without crashing: all wire integers (18 discovered fields, the recovery exponent, the decoder's int copies) are bounded before conversion, allocation, slicing and division; narrow-type arithmetic does not wrap before widening (WIRE, per GOARCH); recovery blocks have the slice size (SHLEN); mandatory packets are checked before use (NILF); differences used as lengths are non-negative (MKLEN); header-field table lookups stay in range (RANGE); and no buffer that fails the archive's own 16k-hash or MD5 is written (WGUARD). Later additions: empty checksum lists rejected (IFSCPAIRS); reslicing bounded by len/cap (SLICECAP); one slice record per checksum pair (SHARDTAB); no allocation from an unchecked declared size (ALLOCBOUND); the coder has a row for every exponent index (PAIR decoder dims); a volume file is accepted only after its main packet matched the index file's slice size and file-id sets (VOLCONS). A file listed in the main packet whose description or slice-checksum packet is missing is rejected (GATE G8): missing mandatory packets never reach the coder as a set with fewer slices than declared.",
		NotDecided:  []string{"proportional allocation in general (the coder matrix is sized by the highest exponent; the slice size is used as allocation unit)", "full panic freedom", "overflow of products such as index*sliceSize"},
		Run: func(w *World, r *Report, tier string) {
			guard(r, "WIRE", func() {
				// truncation (INSLICE, BUFNEXT) is C13's business: a truncated file is not well-checksummed
				wireTruncation = false
				defer func() { wireTruncation = true }()
				ruleWIRE(w, r)
			})
			guard(r, "GATE", func() { r.rule("GATE", ruleGATEText); gateRecoverySetComplete(w, r) })
			guard(r, "SHLEN", func() { ruleSHLEN(w, r) })
			guard(r, "VOLCONS", func() { ruleVOLCONS(w, r) })
			guard(r, "IFSCPAIRS", func() { ruleIFSCPAIRS(w, r) })
			guard(r, "SLICECAP", func() { ruleSLICECAP(w, r) })
			guard(r, "SHARDTAB", func() { ruleSHARDTAB(w, r) })
			guard(r, "ALLOCBOUND", func() { ruleALLOCBOUND(w, r) })
			guard(r, "PAIR", func() { rulePAIRpar2(w, r, pairOpts{decoder: true}) })
			guard(r, "NILF", func() { ruleNILF(w, r) })
			guard(r, "MKLEN", func() { ruleMKLEN(w, r) })
			guard(r, "RANGE", func() { ruleRANGE(w, r, []string{"par1", "par2"}, 0) })
			guard(r, "WGUARD", func() { ruleWGUARD(w, r, false) })
		},
	})

	register(&propertySpec{
		ID: "C20", Fixtures: []string{"GLOB", "EFF", "DIVZERO", "EXTCUT"}, NeedCG: true, Quick: cfgAMD, Thorough: cfgAll,
		Explanation: "Decides the exit-status mapping of cmd/par.main on its control-flow graph with no-return inference and a small abstract interpreter for the helpers: after each library call no path with a non-nil error reaches status 0 and every status there is a known non-zero constant; verify's success side exits with processRepairChecker(result counts); the repair error of each format reaches that format's classifier before any exit and the classifier's true edge exits 2; formats are selected by path.Ext; usage errors exit 3; main cannot fall off its end (CLI 1-6). processRepairChecker and the verdict predicates are evaluated exhaustively over their finite comparison domain against the table in the property (DECIDE). The type the PAR2 classifier asserts is exactly the type ReconstructData returns on the not-enough-parity edge (PAIR-ERRTYPE). Volume discovery returns every matching directory entry, so 'possible' is judged on all recovery files present (GLOB). The library operations declare success only through the decoder (ENTRY-SEQ) and relative data paths are made absolute against the current directory with filepath.Abs (DETERM D-d). The PAR1 double check verifies shards completed by Reconstruct, parity included (PAIR reconstruct-then-verify). Later additions: flag sets use ContinueOnError (CLI 7); the reader returns the OS error itself (ERRIDENT); not-enough needs a missing slice (NEEDSLICE); PAR1 repair without any parity volume reports too few shards (PAR1NOPAR); 'repaired' presupposes that the bytes were written: whole-file write primitive, no dropped write error, reported iff written (EFF write-impl, ERRFLOW, REPORT); PAR1 usability gates (GATE); no division in cmd/par by a count that can be zero - a panic would exit with status 2 (DIVZERO); the volume search prefix is the index path cut by length, so 'possible' is judged on the volumes really present (EXTCUT, BASECUT). The counts the status is computed from come from files judged by the full predicate (MUSTPASS).",
		NotDecided:  []string{"which library error arises in which archive state (e.g. PAR2 'no parity shards' is an unclassified error)", "flag parsing semantics of package flag", "resolution of relative paths by the OS"},
		Run: func(w *World, r *Report, tier string) {
			guard(r, "MUSTPASS", func() { ruleMUSTPASS(w, r) })
			guard(r, "BASECUT", func() { ruleBASECUT(w, r) })
			guard(r, "EXTCUT", func() { ruleEXTCUT(w, r) })
			guard(r, "DIVZERO", func() { ruleDIVZERO(w, r, "cmd/par") })
			guard(r, "CLI", func() { ruleCLI(w, r) })
			guard(r, "DECIDE", func() {
				ruleDECIDEChecker(w, r)
				ruleDECIDEPredicates(w, r, map[string]bool{"par1": true, "par2": true})
			})
			guard(r, "PAIR", func() { rulePAIRERRTYPE(w, r); ruleCLASSIFY(w, r); pairPar1Reconstruct(w, r) })
			guard(r, "ERRIDENT", func() { ruleERRIDENT(w, r) })
			guard(r, "PAR1NOPAR", func() { rulePAR1NOPAR(w, r) })
			guard(r, "EFF", func() { ruleEFF(w, r, effOpts{e1: true, impl: true}) })
			guard(r, "ERRFLOW", func() { ruleERRFLOW(w, r, errflowScope{pkgs: []string{"par1", "par2", "cmd/par"}}, 110) })
			guard(r, "REPORT", func() { ruleREPORT(w, r) })
			guard(r, "NEEDSLICE", func() { ruleNEEDSLICE(w, r) })
			guard(r, "GATE", func() { ruleGATE(w, r, gateOpts{par1: true}) })
			guard(r, "GLOB", func() { ruleGLOB(w, r, globOpts{complete: true}) })
			guard(r, "ENTRY-SEQ", func() { ruleENTRYSEQ(w, r, "par1", "par2") })
			guard(r, "DETERM", func() { r.rule("DETERM", ruleDETERMText); determPathsPar2(w, r, false) })
		},
	})
}
