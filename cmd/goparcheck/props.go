package main

// Property table: which rules decide which property, what they decide and what
// they do not. Texts mirror DESIGN.md section 3.

var (
	cfgAMD   = []string{"amd64"}
	cfgAMD32 = []string{"amd64", "386"}
	cfgAll   = []string{"amd64", "386", "arm64"}
)

var reconstructChain = map[string]bool{
	"(gf2p16.Matrix).rowReduceForInverse": true, "(gf2p16.Matrix).RowReduceForInverse": true, "(gf2p16.Matrix).Inverse": true,
	"rsec16.makeReconstructionMatrix": true, "(rsec16.Coder).ReconstructData": true, "rsec16.NewCoderPAR2Vandermonde": true, "rsec16.NewCoderCauchy": true,
	"(*par2.Decoder).Repair": true, "(*par2.Decoder).newCoderAndShards": true, "par2.repair": true, "par2.Repair": true,
}

var par1Chain = map[string]bool{
	"(*par1.Decoder).Repair": true, "(*par1.Decoder).VerifyAllData": true, "(*par1.Decoder).newReedSolomon": true, "(*par1.Decoder).buildShards": true,
	"par1.repair": true, "par1.Repair": true, "par1.verify": true, "par1.Verify": true,
	"(*par1.Encoder).ComputeParityData": true, "par1.create": true, "par1.Create": true,
}

func init() {
	register(&propertySpec{
		ID:     "C02",
		NeedCG: true, Quick: cfgAMD, Thorough: cfgAll,
		Explanation: "Decides, for every path of the code (hence every archive state and both double-check settings): which code may mutate the filesystem at all (EFF E1-E5), that every byte buffer Repair writes is the very buffer whose 16k-hash and MD5 were just compared with the hashes of the archive entry the target path was derived from (WGUARD), that a path is reported iff its write returned nil and reported paths survive to the caller also when Repair fails later (REPORT, REPORT-PROP), that writes are control-dependent on the file having been found damaged (SKIPOK), that Create's output names do not depend on the input names (CREATE-PATHS), and that no function reachable from Verify contains or reaches a write. These are necessary conditions: breaking any of them breaks the property.",
		NotDecided: []string{"byte equality with the original beyond MD5/16k-hash equality", "the effect of a torn ioutil.WriteFile", "correctness of the reconstruction arithmetic"},
		Run: func(w *World, r *Report, tier string) {
			guard(r, "EFF", func() { ruleEFF(w, r, effOpts{true, true, true, true, true}) })
			guard(r, "WGUARD", func() { ruleWGUARD(w, r, false) })
			guard(r, "REPORT", func() { ruleREPORT(w, r) })
			guard(r, "REPORT-PROP", func() { ruleREPORTPROP(w, r) })
			guard(r, "SKIPOK", func() { ruleSKIPOK(w, r) })
			guard(r, "CREATE-PATHS", func() { ruleCREATEPATHS(w, r) })
		},
	})

	register(&propertySpec{
		ID:     "C18",
		NeedCG: true, Quick: cfgAMD, Thorough: cfgAll,
		Explanation: "Decides error discipline over every call site rather than sampled fault indices: every error produced by a call in par1, par2, rsec16, gf2p16 and cmd/par reaches, on every path on which it may be non-nil, a return in error position, a panic or a no-return call; only os.IsNotExist turns a read failure into 'damage' (ERRFLOW, with per-return-site splitting of the immediately-invoked literals). No success is reported for a write that failed (REPORT), nothing but the file being written is touched (EFF), and the directory lister neither interprets the base name as a pattern nor uses an API that swallows listing errors (GLOB).",
		NotDecided: []string{"that a rerun after the fault completes as if the fault had never occurred", "torn writes", "faults inside the Go runtime or the OS"},
		Run: func(w *World, r *Report, tier string) {
			guard(r, "ERRFLOW", func() {
				ruleERRFLOW(w, r, errflowScope{pkgs: []string{"par1", "par2", "rsec16", "gf2p16", "cmd/par"}}, 120)
			})
			guard(r, "REPORT", func() { ruleREPORT(w, r) })
			guard(r, "EFF", func() { ruleEFF(w, r, effOpts{e1: true, e2: true}) })
		},
	})

	register(&propertySpec{
		ID:     "C20",
		NeedCG: false, Quick: cfgAMD, Thorough: cfgAll,
		Explanation: "Decides the exit-status mapping of cmd/par.main on its control-flow graph with no-return inference and a small abstract interpreter for the helpers: after each library call no path with a non-nil error reaches status 0 and every status there is a known non-zero constant; verify's success side exits with processRepairChecker(result counts); the repair error of each format reaches that format's classifier before any exit and the classifier's true edge exits 2; formats are selected by path.Ext; usage errors exit 3; main cannot fall off its end (CLI 1-6). processRepairChecker and the verdict predicates are evaluated exhaustively over their finite comparison domain against the table in the property (DECIDE). The concrete type the PAR2 classifier asserts is exactly the type ReconstructData returns on the not-enough-parity edge (PAIR-ERRTYPE).",
		NotDecided: []string{"which library error arises in which archive state (e.g. PAR2 'no parity shards' is an unclassified error)", "flag parsing semantics of package flag", "resolution of relative paths by the OS"},
		Run: func(w *World, r *Report, tier string) {
			guard(r, "CLI", func() { ruleCLI(w, r) })
			guard(r, "DECIDE", func() {
				ruleDECIDEChecker(w, r)
				ruleDECIDEPredicates(w, r, map[string]bool{"par1": true, "par2": true})
			})
		},
	})
}

func init() {
	register(&propertySpec{
		ID: "T01", NeedCG: true, Quick: cfgAMD, Thorough: cfgAll,
		Explanation: "scratch",
		Run: func(w *World, r *Report, tier string) {
			guard(r, "DEADST", func() { ruleDEADST(w, r) })
			guard(r, "IDXDOM", func() { ruleIDXDOM(w, r) })
			guard(r, "DEEPEQ", func() { ruleDEEPEQ(w, r, "par1", "par2") })
			guard(r, "TABLEFILL", func() { ruleTABLEFILL(w, r) })
		},
	})
}
