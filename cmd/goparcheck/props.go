package main

func init() {
	register(&propertySpec{
		ID:          "C02",
		Explanation: "placeholder",
		NeedCG:      true,
		Run: func(w *World, r *Report, tier string) {
			guard(r, "EFF", func() { ruleEFF(w, r, effOpts{true, true, true, true, true}) })
			guard(r, "WGUARD", func() { ruleWGUARD(w, r, false) })
			guard(r, "REPORT", func() { ruleREPORT(w, r) })
			guard(r, "REPORT-PROP", func() { ruleREPORTPROP(w, r) })
			guard(r, "SKIPOK", func() { ruleSKIPOK(w, r) })
			guard(r, "CREATE-PATHS", func() { ruleCREATEPATHS(w, r) })
		},
	})
}

func init() {
	register(&propertySpec{
		ID:          "C18",
		Explanation: "placeholder",
		NeedCG:      true,
		Run: func(w *World, r *Report, tier string) {
			guard(r, "ERRFLOW", func() {
				ruleERRFLOW(w, r, errflowScope{pkgs: []string{"par1", "par2", "rsec16", "gf2p16", "cmd/par"}}, 60)
			})
		},
	})
}

func init() {
	register(&propertySpec{
		ID:          "C20",
		Explanation: "placeholder",
		NeedCG:      false,
		Run: func(w *World, r *Report, tier string) {
			guard(r, "CLI", func() { ruleCLI(w, r) })
			guard(r, "DECIDE", func() {
				ruleDECIDEChecker(w, r)
				ruleDECIDEPredicates(w, r, map[string]bool{"par1": true, "par2": true})
				ruleDECIDECounts(w, r, map[string]bool{"par1": true, "par2": true})
			})
		},
	})
}
