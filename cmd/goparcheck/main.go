// goparcheck decides structural obligations of akalin/gopar statically.
//
//	goparcheck -property C02 -tier quick [-repo /repo] [-verif /verif]
//
// exit 0: every obligation discharged (or listed as a known finding)
// exit 1: a VIOLATION line was printed (violated or undecided obligation)
// exit 2: the tree could not be analysed at all (does not load / type-check)
package main

import (
	"encoding/json"
	"flag"
	"fmt"
	"os"
	"path/filepath"
	"runtime/debug"
	"sort"
	"strconv"
	"strings"
	"time"
)

type propertySpec struct {
	ID          string
	Explanation string
	NotDecided  []string
	// Configs per tier: GOARCH values to load.
	Quick    []string
	Thorough []string
	NeedCG   bool
	// Run is called once per configuration.
	Run func(w *World, r *Report, tier string)
	// Once is called once per run (not per configuration), e.g. assembly analysis.
	Once func(repo string, r *Report, tier string)
	// Fixtures names the zero-instance rules that are self-tested on /verif/fixtures on every run.
	Fixtures []string
}

var properties = map[string]*propertySpec{}

func register(p *propertySpec) { properties[p.ID] = p }

func main() {
	prop := flag.String("property", "", "property id (C01..C20)")
	tier := flag.String("tier", os.Getenv("VERIF_TIER"), "quick|thorough")
	repo := flag.String("repo", "/repo", "repository to analyse")
	verif := flag.String("verif", "", "verification directory (default: parent of the binary's directory)")
	list := flag.Bool("list", false, "list registered properties")
	dump := flag.Bool("dump", false, "print every obligation")
	evdir := flag.String("evidence-dir", "", "where to write evidence (default <verif>/evidence)")
	describe := flag.Bool("describe", false, "print the property table as JSON")
	flag.Parse()

	if *describe {
		describeProperties()
		return
	}
	if *list {
		ids := []string{}
		for id := range properties {
			ids = append(ids, id)
		}
		sort.Strings(ids)
		fmt.Println(strings.Join(ids, " "))
		return
	}
	if *tier == "" {
		*tier = "quick"
	}
	if *tier != "quick" && *tier != "thorough" {
		fmt.Fprintln(os.Stderr, "bad tier", *tier)
		os.Exit(2)
	}
	if *verif == "" {
		exe, err := os.Executable()
		if err == nil {
			*verif = filepath.Dir(filepath.Dir(exe))
		} else {
			*verif = "/verif"
		}
	}
	p := properties[*prop]
	if p == nil {
		fmt.Fprintf(os.Stderr, "unknown property %q\n", *prop)
		os.Exit(2)
	}
	seed := 0
	if s := os.Getenv("VERIF_SEED"); s != "" {
		if n, err := strconv.Atoi(s); err == nil {
			seed = n
		}
	}
	absRepo, err := filepath.Abs(*repo)
	if err != nil {
		fmt.Fprintln(os.Stderr, err)
		os.Exit(2)
	}
	if rp, err := filepath.EvalSymlinks(absRepo); err == nil {
		absRepo = rp
	}

	start := time.Now()
	kf, err := loadKnown(filepath.Join(*verif, "known_findings.json"))
	if err != nil {
		fmt.Fprintln(os.Stderr, "known_findings.json:", err)
		os.Exit(2)
	}
	r := newReport()
	configs := p.Quick
	if *tier == "thorough" {
		configs = p.Thorough
	}
	if len(configs) == 0 {
		configs = []string{"amd64"}
	}
	for _, cfg := range configs {
		w, err := loadWorld(absRepo, cfg, p.NeedCG)
		if err != nil {
			fmt.Fprintf(os.Stderr, "goparcheck: cannot analyse %s (GOARCH=%s): %v\n", absRepo, cfg, err)
			os.Exit(2)
		}
		r.curConfig = cfg
		r.stat("functions_analysed", len(w.Funcs))
		if p.Run != nil {
			runGuarded(r, p.ID+":"+cfg, func() { p.Run(w, r, *tier) })
		}
	}
	r.curConfig = ""
	runFixtures(r, *verif, p.Fixtures)
	if *tier == "thorough" {
		runGuarded(r, p.ID+":pinned-regression", func() { regressPinned(r, absRepo, p, kf) })
	}
	if p.Once != nil {
		runGuarded(r, p.ID+":once", func() { p.Once(absRepo, r, *tier) })
	}
	cmdline := fmt.Sprintf("bin/goparcheck -property %s -tier %s -repo %s", p.ID, *tier, absRepo)
	if *evdir == "" {
		*evdir = filepath.Join(*verif, "evidence")
	}
	code := r.finish(*evdir, p, *tier, seed, start, configs, kf, cmdline)
	if *dump {
		for _, o := range r.obls {
			fmt.Printf("%-10s %s @%s :: %s\n", o.Status, o.Key, o.Pos, o.Detail)
		}
	}
	os.Exit(code)
}

// runGuarded turns a panic inside a rule into an undecided obligation: a
// matcher that crashes on edited code has not decided anything.
func runGuarded(r *Report, what string, f func()) {
	defer func() {
		if e := recover(); e != nil {
			st := string(debug.Stack())
			lines := strings.Split(st, "\n")
			if len(lines) > 24 {
				lines = lines[:24]
			}
			r.add("INTERNAL", what, Undecided, "-", fmt.Sprintf("analyzer panic: %v", e), lines...)
		}
	}()
	f()
}

// guard runs one rule and records a panic as an undecided obligation of that rule.
func guard(r *Report, rule string, f func()) {
	runGuarded(r, rule, f)
}

func describeProperties() {
	type d struct {
		ID          string   `json:"id"`
		Explanation string   `json:"explanation"`
		NotDecided  []string `json:"not_decided"`
	}
	var out []d
	ids := []string{}
	for id := range properties {
		ids = append(ids, id)
	}
	sort.Strings(ids)
	for _, id := range ids {
		p := properties[id]
		out = append(out, d{p.ID, p.Explanation, p.NotDecided})
	}
	b, _ := json.MarshalIndent(out, "", " ")
	fmt.Println(string(b))
}
