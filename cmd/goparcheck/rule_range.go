package main

import (
	"fmt"
	"go/token"
	"go/types"
	"math/big"
	"strings"

	"golang.org/x/tools/go/ssa"
)

// ---------------------------------------------------------------------------
// RANGE: type-derived intervals for indexing fixed-size arrays.

const ruleRANGEText = "for every index into a fixed-size array outside the package initialisers, the interval of the index - computed from operand types, constants, & mask, >> k, % c, loop bounds and dominating comparisons with constants - lies in [0, len-1], and no intermediate value on the way to a table index exceeds the range of its type (a wrapped product or sum silently selects the wrong table entry)"

type ival struct {
	lo, hi  *big.Int
	wrapped string // non-empty: an operation feeding this value may have exceeded its type
}

func typeRange(t types.Type) (lo, hi *big.Int, ok bool) {
	b, isB := t.Underlying().(*types.Basic)
	if !isB || b.Info()&types.IsInteger == 0 {
		return nil, nil, false
	}
	bits := 64
	switch b.Kind() {
	case types.Int8, types.Uint8:
		bits = 8
	case types.Int16, types.Uint16:
		bits = 16
	case types.Int32, types.Uint32:
		bits = 32
	case types.Int, types.Uint, types.Uintptr:
		bits = intBits
	}
	one := big.NewInt(1)
	if b.Info()&types.IsUnsigned != 0 {
		return big.NewInt(0), new(big.Int).Sub(new(big.Int).Lsh(one, uint(bits)), one), true
	}
	h := new(big.Int).Sub(new(big.Int).Lsh(one, uint(bits-1)), one)
	l := new(big.Int).Neg(new(big.Int).Lsh(one, uint(bits-1)))
	return l, h, true
}

var intBits = 64

// rangeWorld is the program the interval engine is currently looking at (set by the
// rules that use it); tableContent needs all functions of a table's package.
var rangeWorld *World
var tableContentMemo = map[*ssa.Global]*ival{}
var tableContentBusy = map[*ssa.Global]bool{}

// tableContent returns an interval containing every value an element of the package-level
// integer array g can hold: its zero value and everything any function of the module stores
// into it through an index expression. If the table can be written in any other way
// (sliced, address passed on) nothing is known and nil is returned.
func tableContent(g *ssa.Global) *ival {
	if iv, ok := tableContentMemo[g]; ok {
		return iv
	}
	if rangeWorld == nil || tableContentBusy[g] {
		return nil
	}
	pt, ok := g.Type().Underlying().(*types.Pointer)
	if !ok {
		return nil
	}
	arr, ok := pt.Elem().Underlying().(*types.Array)
	if !ok {
		return nil
	}
	if _, _, isInt := typeRange(arr.Elem()); !isInt {
		return nil
	}
	tableContentBusy[g] = true
	defer delete(tableContentBusy, g)
	res := &ival{lo: big.NewInt(0), hi: big.NewInt(0)}
	known := true
	for _, fn := range rangeWorld.Funcs {
		for _, f := range withAnon(fn) {
			for _, b := range f.Blocks {
				for _, in := range b.Instrs {
					for _, op := range in.Operands(nil) {
						if *op != ssa.Value(g) {
							continue
						}
						ia, isIA := in.(*ssa.IndexAddr)
						if !isIA {
							known = false // sliced, copied into, address escapes
							continue
						}
						for _, ref := range referrersOf(ia) {
							switch y := ref.(type) {
							case *ssa.UnOp, *ssa.DebugRef:
							case *ssa.Store:
								if y.Addr != ssa.Value(ia) {
									known = false
									continue
								}
								rc := &rangeCtx{memo: map[ssa.Value]*ival{}, busy: map[ssa.Value]bool{}}
								iv := rc.eval(y.Val, y.Block())
								if iv == nil || iv.wrapped != "" {
									known = false
									continue
								}
								res = &ival{lo: bmin(res.lo, iv.lo), hi: bmax(res.hi, iv.hi)}
							default:
								known = false
							}
						}
					}
				}
			}
		}
	}
	if !known {
		res = nil
	}
	tableContentMemo[g] = res
	return res
}

type rangeCtx struct {
	memo   map[ssa.Value]*ival
	busy   map[ssa.Value]bool
	busyFn map[*ssa.Function]bool
}

func bmin(a, b *big.Int) *big.Int {
	if a.Cmp(b) <= 0 {
		return a
	}
	return b
}
func bmax(a, b *big.Int) *big.Int {
	if a.Cmp(b) >= 0 {
		return a
	}
	return b
}

func (rc *rangeCtx) full(t types.Type) *ival {
	lo, hi, ok := typeRange(t)
	if !ok {
		return nil
	}
	return &ival{lo: lo, hi: hi}
}

// clip records a wrap if the exact interval leaves the type's range.
func (rc *rangeCtx) clip(iv *ival, t types.Type, what string) *ival {
	lo, hi, ok := typeRange(t)
	if !ok {
		return iv
	}
	if iv.lo.Cmp(lo) < 0 || iv.hi.Cmp(hi) > 0 {
		w := iv.wrapped
		if w == "" {
			w = fmt.Sprintf("%s may leave the range of %s: [%s, %s]", what, t.String(), iv.lo.String(), iv.hi.String())
		}
		return &ival{lo: lo, hi: hi, wrapped: w}
	}
	return iv
}

// eval computes the interval of v as seen at block `at` (dominating facts refine it).
func (rc *rangeCtx) eval(v ssa.Value, at *ssa.BasicBlock) *ival {
	rcx = rc
	iv := rc.evalRaw(v)
	if iv == nil {
		return nil
	}
	return refine(v, iv, at)
}

// sameImage: a and b are the same value, or value-preserving widenings of the same value.
func sameImage(a, b ssa.Value) bool {
	strip := func(v ssa.Value) ssa.Value {
		for {
			switch x := v.(type) {
			case *ssa.ChangeType:
				v = x.X
				continue
			case *ssa.Convert:
				// only widening conversions between integer types preserve the value
				lo1, hi1, ok1 := typeRange(x.X.Type())
				lo2, hi2, ok2 := typeRange(x.Type())
				if ok1 && ok2 && lo2.Cmp(lo1) <= 0 && hi2.Cmp(hi1) >= 0 {
					v = x.X
					continue
				}
			}
			return v
		}
	}
	a, b = strip(a), strip(b)
	if a == b {
		return true
	}
	// two loads of the same location
	la, ok1 := a.(*ssa.UnOp)
	lb, ok2 := b.(*ssa.UnOp)
	if ok1 && ok2 && la.Op == token.MUL && lb.Op == token.MUL {
		va, vb := valuePath(la), valuePath(lb)
		if va.Root != nil && va.Root == vb.Root && va.Path == vb.Path && !strings.Contains(va.Path, "[*]") {
			return true
		}
		pa, pb := deepPath(la), deepPath(lb)
		if pa.Root != nil && pa.Root == pb.Root && pa.Path == pb.Path && !strings.Contains(pa.Path, "[*]") {
			return true
		}
	}
	return false
}

var rcx *rangeCtx

func indexOfEdge(phi *ssa.Phi, e ssa.Value) int {
	for i, x := range phi.Edges {
		if x == e {
			return i
		}
	}
	return -1
}

func refine(v ssa.Value, iv *ival, at *ssa.BasicBlock) *ival {
	if at == nil {
		return iv
	}
	return refineByFacts(v, iv, cmpsAt(at))
}

func refineByFacts(v ssa.Value, iv *ival, cmps []Cmp) *ival {
	return refineMatch(func(x ssa.Value) bool { return sameImage(x, v) }, iv, cmps)
}

// refineMatch refines iv by the comparisons whose one side satisfies match.
func refineMatch(match func(ssa.Value) bool, iv *ival, cmps []Cmp) *ival {
	out := &ival{lo: iv.lo, hi: iv.hi, wrapped: iv.wrapped}
	for _, c := range cmps {
		if c.Y == nil {
			continue
		}
		op := c.Op
		var k *big.Int
		var other ssa.Value
		if match(c.X) {
			other = c.Y
		} else if match(c.Y) {
			other = c.X
			op = swapOp(op)
		} else {
			continue
		}
		one := big.NewInt(1)
		if kv, ok := constBig(other); ok {
			k = kv
		} else if rcx != nil {
			// symbolic bound: v <= Y implies v <= hi(Y); v >= Y implies v >= lo(Y)
			oiv := rcx.evalRaw(other)
			if oiv == nil || oiv.wrapped != "" {
				continue
			}
			switch op {
			case token.LSS:
				out.hi = bmin(out.hi, new(big.Int).Sub(oiv.hi, one))
			case token.LEQ, token.EQL:
				out.hi = bmin(out.hi, oiv.hi)
				if op == token.EQL {
					out.lo = bmax(out.lo, oiv.lo)
				}
			case token.GTR:
				out.lo = bmax(out.lo, new(big.Int).Add(oiv.lo, one))
			case token.GEQ:
				out.lo = bmax(out.lo, oiv.lo)
			}
			continue
		}
		if k == nil {
			continue
		}
		switch op {
		case token.LSS:
			out.hi = bmin(out.hi, new(big.Int).Sub(k, one))
		case token.LEQ:
			out.hi = bmin(out.hi, k)
		case token.GTR:
			out.lo = bmax(out.lo, new(big.Int).Add(k, one))
		case token.GEQ:
			out.lo = bmax(out.lo, k)
		case token.EQL:
			out.lo, out.hi = bmax(out.lo, k), bmin(out.hi, k)
		case token.NEQ:
			if out.lo.Cmp(k) == 0 {
				out.lo = new(big.Int).Add(k, one)
			} else if out.hi.Cmp(k) == 0 {
				out.hi = new(big.Int).Sub(k, one)
			}
		}
	}
	return out
}

func constBig(v ssa.Value) (*big.Int, bool) {
	if i, ok := constInt(v); ok {
		return big.NewInt(i), true
	}
	if u, ok := constUint(v); ok {
		return new(big.Int).SetUint64(u), true
	}
	return nil, false
}

func (rc *rangeCtx) evalRaw(v ssa.Value) *ival {
	if iv, ok := rc.memo[v]; ok {
		return iv
	}
	if rc.busy[v] {
		return rc.full(v.Type())
	}
	rc.busy[v] = true
	defer delete(rc.busy, v)
	iv := rc.compute(v)
	rc.memo[v] = iv
	return iv
}

func (rc *rangeCtx) compute(v ssa.Value) *ival {
	if k, ok := constBig(v); ok {
		return &ival{lo: k, hi: k}
	}
	switch x := v.(type) {
	case *ssa.Parameter:
		// a parameter of an unexported module function takes the values its call sites pass
		if iv := rc.paramFromCallers(x); iv != nil {
			return iv
		}
	case *ssa.Convert:
		// the operand is refined by the facts that dominate the conversion
		src := rc.eval(x.X, x.Block())
		if src == nil {
			return rc.full(x.Type())
		}
		lo, hi, ok := typeRange(x.Type())
		if !ok {
			return nil
		}
		if src.lo.Cmp(lo) >= 0 && src.hi.Cmp(hi) <= 0 {
			return src
		}
		// truncating / sign-changing conversion: value-changing but defined; result is anything in the target
		return &ival{lo: lo, hi: hi, wrapped: src.wrapped}
	case *ssa.ChangeType:
		return rc.evalRaw(x.X)
	case *ssa.UnOp:
		if x.Op == token.MUL {
			// an element of a package-level table: what the module's functions ever store there
			if ia, ok := x.X.(*ssa.IndexAddr); ok {
				if g, ok := ia.X.(*ssa.Global); ok {
					if iv := tableContent(g); iv != nil {
						return iv
					}
				}
			}
		}
		if x.Op == token.SUB {
			a := rc.eval(x.X, x.Block())
			if a == nil {
				return rc.full(x.Type())
			}
			return rc.clip(&ival{lo: new(big.Int).Neg(a.hi), hi: new(big.Int).Neg(a.lo), wrapped: a.wrapped}, x.Type(), "-"+x.X.Name())
		}
	case *ssa.BinOp:
		// operands are refined by the facts that dominate this operation
		a, b := rc.eval(x.X, x.Block()), rc.eval(x.Y, x.Block())
		if a == nil || b == nil {
			return rc.full(x.Type())
		}
		w := a.wrapped
		if w == "" {
			w = b.wrapped
		}
		var res *ival
		switch x.Op {
		case token.ADD:
			res = &ival{lo: new(big.Int).Add(a.lo, b.lo), hi: new(big.Int).Add(a.hi, b.hi), wrapped: w}
		case token.SUB:
			res = &ival{lo: new(big.Int).Sub(a.lo, b.hi), hi: new(big.Int).Sub(a.hi, b.lo), wrapped: w}
			if tl, _, ok := typeRange(x.Type()); ok && tl.Sign() == 0 && res.lo.Sign() < 0 {
				// an unsigned difference that wraps becomes huge: any later upper-bound guard rejects
				// it, so it is sound to continue with the full range and no wrap mark
				return rc.full(x.Type())
			}
		case token.MUL:
			c := []*big.Int{new(big.Int).Mul(a.lo, b.lo), new(big.Int).Mul(a.lo, b.hi), new(big.Int).Mul(a.hi, b.lo), new(big.Int).Mul(a.hi, b.hi)}
			lo, hi := c[0], c[0]
			for _, z := range c[1:] {
				lo, hi = bmin(lo, z), bmax(hi, z)
			}
			res = &ival{lo: lo, hi: hi, wrapped: w}
		case token.REM:
			if b.lo.Sign() > 0 {
				m := new(big.Int).Sub(b.hi, big.NewInt(1))
				if a.lo.Sign() >= 0 {
					return &ival{lo: big.NewInt(0), hi: bmin(m, a.hi), wrapped: w}
				}
				return &ival{lo: new(big.Int).Neg(m), hi: m, wrapped: w}
			}
			return rc.full(x.Type())
		case token.QUO:
			if b.lo.Sign() > 0 && a.lo.Sign() >= 0 {
				return &ival{lo: new(big.Int).Quo(a.lo, b.hi), hi: new(big.Int).Quo(a.hi, b.lo), wrapped: w}
			}
			if b.lo.Sign() >= 0 && a.lo.Sign() >= 0 {
				// x / y <= x for y >= 1 (y == 0 panics)
				return &ival{lo: big.NewInt(0), hi: a.hi, wrapped: w}
			}
			return rc.full(x.Type())
		case token.AND:
			if a.lo.Sign() >= 0 && b.lo.Sign() >= 0 {
				return &ival{lo: big.NewInt(0), hi: bmin(a.hi, b.hi), wrapped: w}
			}
			if b.lo.Sign() >= 0 {
				return &ival{lo: big.NewInt(0), hi: b.hi, wrapped: w}
			}
			if a.lo.Sign() >= 0 {
				return &ival{lo: big.NewInt(0), hi: a.hi, wrapped: w}
			}
			return rc.full(x.Type())
		case token.OR, token.XOR:
			if a.lo.Sign() >= 0 && b.lo.Sign() >= 0 {
				// bounded by the next power of two above max(hi)
				m := bmax(a.hi, b.hi)
				bits := m.BitLen()
				return &ival{lo: big.NewInt(0), hi: new(big.Int).Sub(new(big.Int).Lsh(big.NewInt(1), uint(bits)), big.NewInt(1)), wrapped: w}
			}
			return rc.full(x.Type())
		case token.SHR:
			if b.lo.Cmp(b.hi) == 0 && b.lo.IsInt64() && a.lo.Sign() >= 0 {
				k := uint(b.lo.Int64())
				return &ival{lo: new(big.Int).Rsh(a.lo, k), hi: new(big.Int).Rsh(a.hi, k), wrapped: w}
			}
			if a.lo.Sign() >= 0 {
				return &ival{lo: big.NewInt(0), hi: a.hi, wrapped: w}
			}
			return rc.full(x.Type())
		case token.SHL:
			if b.lo.Cmp(b.hi) == 0 && b.lo.IsInt64() && b.lo.Int64() < 128 && a.lo.Sign() >= 0 {
				k := uint(b.lo.Int64())
				res = &ival{lo: new(big.Int).Lsh(a.lo, k), hi: new(big.Int).Lsh(a.hi, k), wrapped: w}
			} else {
				return rc.full(x.Type())
			}
		default:
			return rc.full(x.Type())
		}
		return rc.clip(res, x.Type(), fmt.Sprintf("%s %s %s", x.X.Name(), x.Op, x.Y.Name()))
	case *ssa.Phi:
		// a web of phis that only copy each other (a running maximum, a value threaded through
		// nested loops): the value is one of the non-phi values that enter the web
		if iv := rc.phiCopyWeb(x); iv != nil {
			return iv
		}
		// induction variable: constants and phi +/- positive constant
		var inits []*ival
		up, down, other := false, false, false
		var upBound *big.Int // what the facts on the back edge say about the incremented value (rotated loops: `k = phi+1; if k < n`)
		upBounded := true
		for ei, e := range x.Edges {
			if bo, ok := e.(*ssa.BinOp); ok && (bo.Op == token.ADD || bo.Op == token.SUB) && bo.X == ssa.Value(x) {
				if k, ok := constBig(bo.Y); ok && k.Sign() > 0 {
					if bo.Op == token.ADD {
						up = true
						fullE := rc.full(e.Type())
						if fullE != nil && ei < len(x.Block().Preds) {
							pred := x.Block().Preds[ei]
							ive := refine(e, &ival{lo: fullE.lo, hi: fullE.hi}, pred)
							if len(pred.Instrs) > 0 {
								if iff, ok := pred.Instrs[len(pred.Instrs)-1].(*ssa.If); ok && pred.Succs[0] != pred.Succs[1] {
									truth := pred.Succs[0] == x.Block()
									ive = refineByFacts(e, ive, factCmps(Fact{iff.Cond, truth, iff}))
								}
							}
							if ive != nil && ive.hi.Cmp(fullE.hi) < 0 {
								if upBound == nil || ive.hi.Cmp(upBound) > 0 {
									upBound = ive.hi
								}
							} else {
								upBounded = false
							}
						} else {
							upBounded = false
						}
					} else {
						down = true
					}
					continue
				}
			}
			if e == ssa.Value(x) {
				continue
			}
			iv := rc.evalRaw(e)
			if iv == nil {
				other = true
				continue
			}
			// refine by what holds on the incoming edge
			if ei := indexOfEdge(x, e); ei >= 0 && ei < len(x.Block().Preds) {
				pred := x.Block().Preds[ei]
				iv = refine(e, iv, pred)
				if len(pred.Instrs) > 0 {
					if iff, ok := pred.Instrs[len(pred.Instrs)-1].(*ssa.If); ok && pred.Succs[0] != pred.Succs[1] {
						truth := pred.Succs[0] == x.Block()
						iv = refineByFacts(e, iv, factCmps(Fact{iff.Cond, truth, iff}))
					}
				}
			}
			inits = append(inits, iv)
		}
		full := rc.full(x.Type())
		if full == nil || other || len(inits) == 0 {
			return full
		}
		lo, hi := inits[0].lo, inits[0].hi
		for _, iv := range inits[1:] {
			lo, hi = bmin(lo, iv.lo), bmax(hi, iv.hi)
		}
		if up {
			if upBounded && upBound != nil {
				hi = bmax(hi, upBound)
			} else {
				hi = full.hi
			}
		}
		if down {
			lo = full.lo
		}
		return &ival{lo: lo, hi: hi}
	case *ssa.Call:
		if c := isBuiltinCall(x, "len"); c != nil {
			if arr, ok := c.Call.Args[0].Type().Underlying().(*types.Array); ok {
				k := big.NewInt(arr.Len())
				return &ival{lo: k, hi: k}
			}
			full := rc.full(x.Type())
			return &ival{lo: big.NewInt(0), hi: full.hi}
		}
		if c := isBuiltinCall(x, "cap"); c != nil {
			full := rc.full(x.Type())
			return &ival{lo: big.NewInt(0), hi: full.hi}
		}
		if f := x.Call.StaticCallee(); f != nil {
			switch f.String() {
			case "(*bytes.Buffer).Len", "(*bytes.Buffer).Cap", "(*bytes.Reader).Len", "(*strings.Reader).Len":
				full := rc.full(x.Type())
				return &ival{lo: big.NewInt(0), hi: full.hi}
			}
			// a module function with one integer result: the join of what its returns can yield,
			// its parameters taken as unknown (e.g. `func (t T) log() int { return int(logTable[t-1]) }`)
			if len(f.Blocks) > 0 && f.Pkg != nil && isModPath(f.Pkg.Pkg.Path()) && f.Signature.Results().Len() == 1 && !rc.busyFn[f] {
				if _, _, isInt := typeRange(x.Type()); isInt {
					if rc.busyFn == nil {
						rc.busyFn = map[*ssa.Function]bool{}
					}
					rc.busyFn[f] = true
					var res *ival
					okAll := true
					for _, b := range f.Blocks {
						ret, isRet := b.Instrs[len(b.Instrs)-1].(*ssa.Return)
						if !isRet {
							continue
						}
						iv := rc.eval(ret.Results[0], b)
						if iv == nil || iv.wrapped != "" {
							okAll = false
							break
						}
						if res == nil {
							res = &ival{lo: iv.lo, hi: iv.hi}
						} else {
							res = &ival{lo: bmin(res.lo, iv.lo), hi: bmax(res.hi, iv.hi)}
						}
					}
					delete(rc.busyFn, f)
					if okAll && res != nil {
						return res
					}
				}
			}
		}
	case *ssa.Extract:
		// range-loop key over an array / integer
		if nx, ok := x.Tuple.(*ssa.Next); ok && x.Index == 1 {
			_ = nx
		}
	}
	return rc.full(v.Type())
}

// paramFromCallers: the join of the argument intervals over all static call sites of an
// unexported function of the module (refined by the facts at each call site). nil if the
// function is exported, is used as a value, has no call site, or an argument is unknown.
func (rc *rangeCtx) paramFromCallers(p *ssa.Parameter) *ival {
	f := p.Parent()
	if f == nil || rangeWorld == nil || f.Pkg == nil || !isModPath(f.Pkg.Pkg.Path()) || f.Parent() != nil {
		return nil
	}
	if f.Object() == nil || f.Object().Exported() {
		return nil
	}
	if _, _, isInt := typeRange(p.Type()); !isInt {
		return nil
	}
	if rc.busyFn == nil {
		rc.busyFn = map[*ssa.Function]bool{}
	}
	if rc.busyFn[f] {
		return nil
	}
	idx := -1
	for i, q := range f.Params {
		if q == p {
			idx = i
		}
	}
	if idx < 0 {
		return nil
	}
	rc.busyFn[f] = true
	defer delete(rc.busyFn, f)
	var res *ival
	for _, g := range rangeWorld.Funcs {
		for _, h := range withAnon(g) {
			for _, b := range h.Blocks {
				for _, in := range b.Instrs {
					// any use of f as a value defeats the enumeration
					for _, op := range in.Operands(nil) {
						if *op == ssa.Value(f) {
							if ci, ok := in.(ssa.CallInstruction); !ok || ci.Common().Value != ssa.Value(f) {
								return nil
							}
						}
					}
					ci, ok := in.(ssa.CallInstruction)
					if !ok || ci.Common().StaticCallee() != f || idx >= len(ci.Common().Args) {
						continue
					}
					iv := rc.eval(ci.Common().Args[idx], b)
					if iv == nil || iv.wrapped != "" {
						return nil
					}
					if res == nil {
						res = &ival{lo: iv.lo, hi: iv.hi}
					} else {
						res = &ival{lo: bmin(res.lo, iv.lo), hi: bmax(res.hi, iv.hi)}
					}
				}
			}
		}
	}
	return res
}

func arrayLenOf(t types.Type) (int64, bool) {
	if p, ok := t.Underlying().(*types.Pointer); ok {
		t = p.Elem()
	}
	if a, ok := t.Underlying().(*types.Array); ok {
		return a.Len(), true
	}
	return 0, false
}

func ruleRANGE(w *World, r *Report, pkgs []string, floor int, filter ...func(fn *ssa.Function) bool) {
	r.rule("RANGE", ruleRANGEText)
	rangeWorld = w
	tableContentMemo = map[*ssa.Global]*ival{}
	if w.GOARCH == "386" {
		intBits = 32
	} else {
		intBits = 64
	}
	initFns := w.initOnly()
	n := 0
	for _, fn := range w.funcsInPkgs(pkgs...) {
		if initFns[fn] {
			continue
		}
		if len(filter) > 0 && !filter[0](fn) {
			continue
		}
		rc := &rangeCtx{memo: map[ssa.Value]*ival{}, busy: map[ssa.Value]bool{}}
		k := 0
		for _, b := range fn.Blocks {
			for _, in := range b.Instrs {
				var idx, base ssa.Value
				switch x := in.(type) {
				case *ssa.IndexAddr:
					idx, base = x.Index, x.X
				case *ssa.Index:
					idx, base = x.Index, x.X
				}
				if idx == nil {
					continue
				}
				alen, isArr := arrayLenOf(base.Type())
				if !isArr {
					continue
				}
				if _, isConst := idx.(*ssa.Const); isConst {
					continue // checked by the compiler
				}
				n++
				key := fmt.Sprintf("%s:index#%d(len %d)", shortName(fn), k, alen)
				k++
				iv := rc.eval(idx, b)
				if iv == nil {
					r.unk("RANGE", key, w.ipos(in), "index is not an integer expression the analysis understands")
					continue
				}
				desc := describeArray(base)
				switch {
				case iv.wrapped != "":
					r.bad("RANGE", key, w.ipos(in), fmt.Sprintf("an intermediate value of the index into %s can exceed its type: %s", desc, iv.wrapped))
				case iv.lo.Sign() < 0 || iv.hi.Cmp(big.NewInt(alen-1)) > 0:
					r.bad("RANGE", key, w.ipos(in), fmt.Sprintf("index into %s ranges over [%s, %s] but the array has %d elements", desc, iv.lo, iv.hi, alen))
				default:
					r.ok("RANGE", key, w.ipos(in), fmt.Sprintf("index into %s in [%s, %s] within [0, %d]", desc, iv.lo, iv.hi, alen-1))
				}
			}
		}
	}
	r.stat("array_index_sites", n)
	r.floor("RANGE", "variable index sites into fixed-size arrays in "+strings.Join(pkgs, ","), n, floor)
}

func describeArray(base ssa.Value) string {
	p := addrPath(base)
	if g, ok := p.Root.(*ssa.Global); ok {
		return g.Name() + p.Path
	}
	if p.Root != nil {
		return p.Root.Name() + p.Path
	}
	return "array"
}

func bigZero() *big.Int { return big.NewInt(0) }

// phiCopyWeb: x belongs to a set of phis whose edges are either members of the set or values that
// do not depend on the set; then x is the union of those values (each refined on its incoming edge).
// Returns nil when x is a plain phi (no other phi involved) or when a leaf depends on the set.
func (rc *rangeCtx) phiCopyWeb(x *ssa.Phi) *ival {
	web := map[*ssa.Phi]bool{x: true}
	work := []*ssa.Phi{x}
	type leaf struct {
		v    ssa.Value
		phi  *ssa.Phi
		edge int
	}
	var leaves []leaf
	for len(work) > 0 {
		p := work[len(work)-1]
		work = work[:len(work)-1]
		for i, e := range p.Edges {
			if q, ok := e.(*ssa.Phi); ok {
				if !web[q] {
					web[q] = true
					work = append(work, q)
				}
				continue
			}
			leaves = append(leaves, leaf{e, p, i})
		}
		if len(web) > 12 {
			return nil
		}
	}
	if len(web) < 2 || len(leaves) == 0 {
		return nil
	}
	// independence: no leaf reaches a member of the web through its operands
	var dep func(v ssa.Value, depth int) bool
	seen := map[ssa.Value]bool{}
	dep = func(v ssa.Value, depth int) bool {
		if p, ok := v.(*ssa.Phi); ok {
			if web[p] {
				return true
			}
		}
		if seen[v] {
			return false
		}
		seen[v] = true
		if depth > 10 {
			return true // unknown: assume dependent
		}
		in, ok := v.(ssa.Instruction)
		if !ok {
			return false
		}
		switch v.(type) {
		case *ssa.Call, *ssa.UnOp, *ssa.Extract, *ssa.Next, *ssa.Lookup, *ssa.Index, *ssa.Field:
			// values read from memory or returned by calls carry no arithmetic on the web
			// unless an operand does; fall through to the operand walk
		}
		for _, op := range in.Operands(nil) {
			if *op != nil && dep(*op, depth+1) {
				return true
			}
		}
		return false
	}
	for _, l := range leaves {
		if dep(l.v, 0) {
			return nil
		}
	}
	var out *ival
	for _, l := range leaves {
		iv := rc.evalRaw(l.v)
		if iv == nil {
			return nil
		}
		if l.edge < len(l.phi.Block().Preds) {
			pred := l.phi.Block().Preds[l.edge]
			iv = refine(l.v, iv, pred)
			if len(pred.Instrs) > 0 {
				if iff, ok := pred.Instrs[len(pred.Instrs)-1].(*ssa.If); ok && pred.Succs[0] != pred.Succs[1] {
					iv = refineByFacts(l.v, iv, factCmps(Fact{iff.Cond, pred.Succs[0] == l.phi.Block(), iff}))
				}
			}
		}
		if iv == nil {
			return nil
		}
		if out == nil {
			out = &ival{lo: iv.lo, hi: iv.hi, wrapped: iv.wrapped}
		} else {
			out = &ival{lo: bmin(out.lo, iv.lo), hi: bmax(out.hi, iv.hi), wrapped: out.wrapped}
			if out.wrapped == "" {
				out.wrapped = iv.wrapped
			}
		}
	}
	return out
}
