package main

import (
	"fmt"
	"go/constant"
	"go/token"
	"go/types"
	"sort"
	"strings"

	"golang.org/x/tools/go/callgraph"
	"golang.org/x/tools/go/ssa"
)

// ---------------------------------------------------------------------------
// CFG helpers

// edgeDominates reports whether the CFG edge from -> from.Succs[idx] dominates
// block b: every path from entry to b uses that edge.
func edgeDominates(from *ssa.BasicBlock, idx int, b *ssa.BasicBlock) bool {
	if idx >= len(from.Succs) {
		return false
	}
	s := from.Succs[idx]
	// both successors identical: the edge decides nothing
	if len(from.Succs) == 2 && from.Succs[0] == from.Succs[1] {
		return false
	}
	if !s.Dominates(b) {
		return false
	}
	for _, p := range s.Preds {
		if p == from {
			continue
		}
		// other predecessors must be back-edges (dominated by s)
		if !s.Dominates(p) {
			return false
		}
	}
	return true
}

// A Fact is a branch condition known to hold at some block.
type Fact struct {
	Cond  ssa.Value
	Truth bool
	If    *ssa.If
}

// domFacts returns the branch facts that dominate block b (innermost last).
func domFacts(b *ssa.BasicBlock) []Fact {
	var out []Fact
	for d := b.Idom(); d != nil; d = d.Idom() {
		if len(d.Instrs) == 0 {
			continue
		}
		if iff, ok := d.Instrs[len(d.Instrs)-1].(*ssa.If); ok {
			if edgeDominates(d, 0, b) {
				out = append(out, Fact{iff.Cond, true, iff})
			} else if edgeDominates(d, 1, b) {
				out = append(out, Fact{iff.Cond, false, iff})
			}
		}
	}
	// reverse: outermost first
	for i, j := 0, len(out)-1; i < j; i, j = i+1, j-1 {
		out[i], out[j] = out[j], out[i]
	}
	return out
}

// A Cmp is a normalised comparison: X op Y holds.
type Cmp struct {
	Op   token.Token
	X, Y ssa.Value
}

func negate(op token.Token) token.Token {
	switch op {
	case token.EQL:
		return token.NEQ
	case token.NEQ:
		return token.EQL
	case token.LSS:
		return token.GEQ
	case token.GEQ:
		return token.LSS
	case token.GTR:
		return token.LEQ
	case token.LEQ:
		return token.GTR
	}
	return token.ILLEGAL
}

func swapOp(op token.Token) token.Token {
	switch op {
	case token.LSS:
		return token.GTR
	case token.GTR:
		return token.LSS
	case token.LEQ:
		return token.GEQ
	case token.GEQ:
		return token.LEQ
	}
	return op
}

// factCmps expands a fact into the comparisons it implies. `!x` is unwrapped.
// A fact on a non-comparison boolean value v yields Cmp{EQL/NEQ, v, nil}.
func factCmps(f Fact) []Cmp {
	v, truth := f.Cond, f.Truth
	for {
		if u, ok := v.(*ssa.UnOp); ok && u.Op == token.NOT {
			v = u.X
			truth = !truth
			continue
		}
		break
	}
	if b, ok := v.(*ssa.BinOp); ok {
		switch b.Op {
		case token.EQL, token.NEQ, token.LSS, token.LEQ, token.GTR, token.GEQ:
			op := b.Op
			if !truth {
				op = negate(op)
			}
			return []Cmp{{op, b.X, b.Y}}
		}
	}
	if truth {
		return []Cmp{{token.NEQ, v, nil}} // v is true
	}
	return []Cmp{{token.EQL, v, nil}} // v is false
}

// cmpsAt returns all comparisons known to hold on entry to block b.
func cmpsAt(b *ssa.BasicBlock) []Cmp {
	var out []Cmp
	for _, f := range domFacts(b) {
		out = append(out, factCmps(f)...)
	}
	return out
}

// instrDominates reports whether instruction a is executed before b on every path to b.
func instrDominates(a, b ssa.Instruction) bool {
	ba, bb := a.Block(), b.Block()
	if ba == bb {
		for _, in := range ba.Instrs {
			if in == a {
				return true
			}
			if in == b {
				return false
			}
		}
		return false
	}
	return ba.Dominates(bb)
}

// instrReaches reports whether b can execute after a on some path (a != b).
func instrReaches(a, b ssa.Instruction) bool {
	ba, bb := a.Block(), b.Block()
	if ba == bb {
		ia, ib := -1, -1
		for i, in := range ba.Instrs {
			if in == a {
				ia = i
			}
			if in == b {
				ib = i
			}
		}
		if ia < ib {
			return true
		}
	}
	seen := map[*ssa.BasicBlock]bool{}
	work := append([]*ssa.BasicBlock{}, ba.Succs...)
	for len(work) > 0 {
		x := work[len(work)-1]
		work = work[:len(work)-1]
		if seen[x] {
			continue
		}
		seen[x] = true
		if x == bb {
			return true
		}
		work = append(work, x.Succs...)
	}
	return false
}

// reachableBlocks returns the set of blocks reachable from start (inclusive)
// following edges for which keep(from, succIdx) is true.
func reachableBlocks(start *ssa.BasicBlock, keep func(from *ssa.BasicBlock, idx int) bool) map[*ssa.BasicBlock]bool {
	seen := map[*ssa.BasicBlock]bool{start: true}
	work := []*ssa.BasicBlock{start}
	for len(work) > 0 {
		b := work[len(work)-1]
		work = work[:len(work)-1]
		for i, s := range b.Succs {
			if keep != nil && !keep(b, i) {
				continue
			}
			if !seen[s] {
				seen[s] = true
				work = append(work, s)
			}
		}
	}
	return seen
}

// ---------------------------------------------------------------------------
// value helpers

// stripConv removes value-preserving wrappers: ChangeType, MakeInterface,
// ChangeInterface. Not numeric conversions.
func stripConv(v ssa.Value) ssa.Value {
	for {
		switch x := v.(type) {
		case *ssa.ChangeType:
			v = x.X
		case *ssa.MakeInterface:
			v = x.X
		case *ssa.ChangeInterface:
			v = x.X
		default:
			return v
		}
	}
}

func constInt(v ssa.Value) (int64, bool) {
	c, ok := v.(*ssa.Const)
	if !ok || c.Value == nil {
		return 0, false
	}
	if c.Value.Kind() != constant.Int {
		return 0, false
	}
	if i, ok := constant.Int64Val(c.Value); ok {
		return i, true
	}
	return 0, false
}

func constUint(v ssa.Value) (uint64, bool) {
	c, ok := v.(*ssa.Const)
	if !ok || c.Value == nil {
		return 0, false
	}
	if c.Value.Kind() != constant.Int {
		return 0, false
	}
	if i, ok := constant.Uint64Val(c.Value); ok {
		return i, true
	}
	return 0, false
}

func isNilConst(v ssa.Value) bool {
	c, ok := v.(*ssa.Const)
	return ok && c.Value == nil
}

func constBool(v ssa.Value) (bool, bool) {
	c, ok := v.(*ssa.Const)
	if !ok || c.Value == nil || c.Value.Kind() != constant.Bool {
		return false, false
	}
	return constant.BoolVal(c.Value), true
}

func constString(v ssa.Value) (string, bool) {
	c, ok := v.(*ssa.Const)
	if !ok || c.Value == nil || c.Value.Kind() != constant.String {
		return "", false
	}
	return constant.StringVal(c.Value), true
}

// ---------------------------------------------------------------------------
// calls

// calleeName returns a stable name for the callee of a call: for static calls
// the full function name ("os.Remove", "(*os.File).Write",
// "github.com/akalin/gopar/par2.readFile"); for interface invokes
// "invoke <pkg>.<Iface>.<Method>"; for dynamic calls "dynamic".
func calleeName(c *ssa.CallCommon) string {
	if c.IsInvoke() {
		recv := c.Value.Type()
		return "invoke " + types.TypeString(recv, nil) + "." + c.Method.Name()
	}
	if f := c.StaticCallee(); f != nil {
		return f.String()
	}
	if b, ok := c.Value.(*ssa.Builtin); ok {
		return "builtin " + b.Name()
	}
	return "dynamic"
}

// staticCalleeShort returns the short module-relative name of a static callee, or "".
func staticCalleeShort(c *ssa.CallCommon) string {
	if f := c.StaticCallee(); f != nil {
		return shortName(f)
	}
	return ""
}

// isInvokeOf reports whether c is an interface method call of the named method
// on an interface type declared in one of the module packages pkgs (short names)
// or, when pkgs is empty, any.
func isInvokeOf(c *ssa.CallCommon, method string, pkgs ...string) bool {
	if !c.IsInvoke() || c.Method.Name() != method {
		return false
	}
	if len(pkgs) == 0 {
		return true
	}
	if c.Method.Pkg() == nil {
		return false
	}
	ps := pkgShort(c.Method.Pkg().Path())
	for _, p := range pkgs {
		if p == ps {
			return true
		}
	}
	return false
}

// callInstrs returns every call-like instruction (Call, Go, Defer) of fn.
func callInstrs(fn *ssa.Function) []ssa.CallInstruction {
	var out []ssa.CallInstruction
	for _, b := range fn.Blocks {
		for _, in := range b.Instrs {
			if c, ok := in.(ssa.CallInstruction); ok {
				out = append(out, c)
			}
		}
	}
	return out
}

// withAnon returns fn and all functions nested in it.
func withAnon(fn *ssa.Function) []*ssa.Function {
	out := []*ssa.Function{fn}
	for _, a := range fn.AnonFuncs {
		out = append(out, withAnon(a)...)
	}
	return out
}

// ---------------------------------------------------------------------------
// call-graph closures

// moduleClosure returns the set of module functions reachable from roots through
// call-graph edges whose callee is a module function. frontier, if non-nil, is
// called for every edge leaving the module (callee outside module or unresolved).
func (w *World) moduleClosure(g *callgraph.Graph, roots []*ssa.Function, frontier func(site ssa.CallInstruction, caller, callee *ssa.Function)) map[*ssa.Function]bool {
	seen := map[*ssa.Function]bool{}
	var work []*ssa.Function
	push := func(f *ssa.Function) {
		if f != nil && !seen[f] {
			seen[f] = true
			work = append(work, f)
		}
	}
	for _, r := range roots {
		push(r)
	}
	for len(work) > 0 {
		f := work[len(work)-1]
		work = work[:len(work)-1]
		// nested function literals are part of the function's behaviour when
		// they are created there (MakeClosure); follow them conservatively.
		for _, a := range f.AnonFuncs {
			push(a)
		}
		n := g.Nodes[f]
		if n == nil {
			continue
		}
		for _, e := range n.Out {
			cal := e.Callee.Func
			if cal == nil {
				continue
			}
			if w.inModule(cal) {
				// synthetic wrappers/thunks/bounds in module: traverse
				push(cal)
			} else if frontier != nil {
				frontier(e.Site, f, cal)
			}
		}
	}
	return seen
}

// pathTo returns one call path (function names) from any root to target in the
// module-internal call graph, for diagnostics.
func (w *World) pathTo(g *callgraph.Graph, roots []*ssa.Function, target *ssa.Function) []string {
	prev := map[*ssa.Function]*ssa.Function{}
	seen := map[*ssa.Function]bool{}
	var queue []*ssa.Function
	for _, r := range roots {
		if r != nil && !seen[r] {
			seen[r] = true
			queue = append(queue, r)
		}
	}
	for len(queue) > 0 {
		f := queue[0]
		queue = queue[1:]
		if f == target {
			var p []string
			for x := f; x != nil; x = prev[x] {
				p = append([]string{shortName(x)}, p...)
			}
			return p
		}
		var next []*ssa.Function
		next = append(next, f.AnonFuncs...)
		if n := g.Nodes[f]; n != nil {
			for _, e := range n.Out {
				if e.Callee.Func != nil && w.inModule(e.Callee.Func) {
					next = append(next, e.Callee.Func)
				}
			}
		}
		sort.Slice(next, func(i, j int) bool { return next[i].String() < next[j].String() })
		for _, c := range next {
			if !seen[c] {
				seen[c] = true
				prev[c] = f
				queue = append(queue, c)
			}
		}
	}
	return nil
}

// ---------------------------------------------------------------------------
// access paths

// An access path names a memory location relative to a root value:
// root.field.field[*]...
type accessPath struct {
	Root ssa.Value
	Path string // e.g. ".header.FileBytes" or ".fileData[*]"
}

func (a accessPath) String() string {
	if a.Root == nil {
		return "?" + a.Path
	}
	return a.Root.Name() + a.Path
}

func fieldName(t types.Type, i int) string {
	if p, ok := t.Underlying().(*types.Pointer); ok {
		t = p.Elem()
	}
	if s, ok := t.Underlying().(*types.Struct); ok && i < s.NumFields() {
		return s.Field(i).Name()
	}
	return fmt.Sprintf("f%d", i)
}

// addrPath computes the access path of an address-valued expression
// (FieldAddr / IndexAddr chains down to a root pointer).
func addrPath(v ssa.Value) accessPath {
	switch x := v.(type) {
	case *ssa.FieldAddr:
		p := addrPath(x.X)
		p.Path += "." + fieldName(x.X.Type(), x.Field)
		return p
	case *ssa.IndexAddr:
		p := valuePath(x.X)
		p.Path += "[*]"
		return p
	}
	return accessPath{Root: v}
}

// valuePath computes the access path of a value: loads of addresses, Field
// extractions, and roots.
func valuePath(v ssa.Value) accessPath {
	switch x := v.(type) {
	case *ssa.UnOp:
		if x.Op == token.MUL {
			p := addrPath(x.X)
			return p
		}
	case *ssa.Field:
		p := valuePath(x.X)
		p.Path += "." + fieldName(x.X.Type(), x.Field)
		return p
	case *ssa.Index:
		p := valuePath(x.X)
		p.Path += "[*]"
		return p
	case *ssa.ChangeType:
		return valuePath(x.X)
	case *ssa.Extract:
		p := valuePath(x.Tuple)
		p.Path += fmt.Sprintf("#%d", x.Index)
		return p
	}
	return accessPath{Root: v}
}

// namedType returns the short qualified name of a named (or pointer-to-named) type.
func namedTypeName(t types.Type) string {
	if p, ok := t.(*types.Pointer); ok {
		t = p.Elem()
	}
	if n, ok := t.(*types.Named); ok {
		if n.Obj().Pkg() != nil {
			return pkgShort(n.Obj().Pkg().Path()) + "." + n.Obj().Name()
		}
		return n.Obj().Name()
	}
	return types.TypeString(t, nil)
}

func typeStr(t types.Type) string {
	return strings.ReplaceAll(types.TypeString(t, nil), modPath+"/", "")
}

// referrersOf returns the referrers of v, nil-safe.
func referrersOf(v ssa.Value) []ssa.Instruction {
	r := v.Referrers()
	if r == nil {
		return nil
	}
	return *r
}

// errorType is the universe error type.
var errorType = types.Universe.Lookup("error").Type()

func isErrorType(t types.Type) bool { return types.Identical(t, errorType) }

// methodNames returns the method names of an interface type (or named type's method set).
func methodNames(t types.Type) map[string]bool {
	out := map[string]bool{}
	if it, ok := t.Underlying().(*types.Interface); ok {
		for i := 0; i < it.NumMethods(); i++ {
			out[it.Method(i).Name()] = true
		}
		return out
	}
	ms := types.NewMethodSet(t)
	for i := 0; i < ms.Len(); i++ {
		out[ms.At(i).Obj().Name()] = true
	}
	return out
}
