package main

import (
	"fmt"
	"go/token"
	"go/types"
	"strings"

	"golang.org/x/tools/go/ssa"
)

// Rules motivated by the fourth round of seeded changes.

// ---------------------------------------------------------------------------
// SAVEDONLY: only entries saved in the volume set occupy a data slot

const ruleSAVEDONLYText = "one data slot per saved entry: in (*par1.Decoder).LoadFileData every append to the slice that becomes d.fileData - a file's bytes or the nil that marks it unusable - is dominated by the entry's savedInVolumeSet() being true; an entry outside the set never adds a slot, whatever the state of its file (the coder's shard count and Repair's entry mapping are built on that)"

func ruleSAVEDONLY(w *World, r *Report) {
	r.rule("SAVEDONLY", ruleSAVEDONLYText)
	fn := w.Fn("(*par1.Decoder).LoadFileData")
	if fn == nil {
		r.unk("SAVEDONLY", "(*par1.Decoder).LoadFileData", "", "function not found")
		return
	}
	// the slice stored into d.fileData
	var web []*ssa.Call
	for _, b := range fn.Blocks {
		for _, in := range b.Instrs {
			if st, ok := in.(*ssa.Store); ok && strings.HasSuffix(addrPath(st.Addr).Path, ".fileData") {
				apps, _ := appendWeb(st.Val)
				web = append(web, apps...)
			}
		}
	}
	n := 0
	for _, ap := range web {
		key := fmt.Sprintf("%s:append#%d", shortName(fn), n)
		n++
		ok := false
		for _, c := range cmpsAt(ap.Block()) {
			if c.Y != nil || c.Op != token.NEQ {
				continue
			}
			// the status method itself or a wrapper of the same name on the entry
			if cl, isCall := stripConv(c.X).(*ssa.Call); isCall {
				if f := cl.Call.StaticCallee(); f != nil && f.Name() == "savedInVolumeSet" && w.fnPkg(f) == "par1" {
					ok = true
				}
			}
		}
		if ok {
			r.ok("SAVEDONLY", key, w.ipos(ap), "slot added only for an entry saved in the volume set")
		} else {
			r.bad("SAVEDONLY", key, w.ipos(ap), "a data slot can be added for an entry that is not saved in the volume set: the number of shards no longer matches the set and Repair's entry mapping is shifted")
		}
	}
	r.floor("SAVEDONLY", "appends to the data slots", n, 2)
}

// ---------------------------------------------------------------------------
// HDRFIELDS: every computed header field of a PAR1 volume is assigned on all paths

const ruleHDRFIELDSText = "volume header fields are unconditional: in par1.writeVolume the stores into FileCount, FileListOffset, FileListBytes, DataOffset and DataBytes of the header each dominate the first writeHeader call - no field of the fixed layout depends on the volume having data or comments"

func ruleHDRFIELDS(w *World, r *Report) {
	r.rule("HDRFIELDS", ruleHDRFIELDSText)
	fn := w.Fn("par1.writeVolume")
	if fn == nil {
		r.unk("HDRFIELDS", "par1.writeVolume", "", "function not found")
		return
	}
	var first ssa.CallInstruction
	for _, c := range callsIn(fn, "par1.writeHeader") {
		if c.Parent() != fn {
			continue
		}
		if first == nil || instrDominates(c, first) {
			first = c
		}
	}
	if first == nil {
		r.unk("HDRFIELDS", "par1.writeVolume", w.pos(fn.Pos()), "no writeHeader call")
		return
	}
	want := []string{"FileCount", "FileListOffset", "FileListBytes", "DataOffset", "DataBytes"}
	n := 0
	for _, f := range want {
		key := "par1.writeVolume:" + f
		var dom, any ssa.Instruction
		for _, b := range fn.Blocks {
			for _, in := range b.Instrs {
				st, ok := in.(*ssa.Store)
				if !ok {
					continue
				}
				fa, ok := st.Addr.(*ssa.FieldAddr)
				if !ok || fieldName(fa.X.Type(), fa.Field) != f {
					continue
				}
				any = st
				if instrDominates(st, first) {
					dom = st
				}
			}
		}
		switch {
		case dom != nil:
			n++
			r.ok("HDRFIELDS", key, w.ipos(dom), "assigned on every path before the header is serialised")
		case any != nil:
			n++
			r.bad("HDRFIELDS", key, w.ipos(any), "header field "+f+" is assigned only on some paths: for the others the volume carries the zero value, which is not what the format's fixed layout prescribes")
		default:
			r.unk("HDRFIELDS", key, w.pos(fn.Pos()), "no store into header field "+f)
		}
	}
	r.floor("HDRFIELDS", "computed header fields", n, 5)
}

// ---------------------------------------------------------------------------
// NOTENOUGH-EDGE (par2 decoder): the 'not enough parity' verdict needs a missing slice

const ruleNEEDSLICEText = "'repair needed but not possible' needs a missing slice: in (*par2.Decoder).newCoderAndShards every return of rsec16.NotEnoughParityShardsError is dominated by a data shard having been found nil - per-file flags alone (content shifted, bytes appended) never make a set unrepairable, those files are rewritten from slices that are all present"

func ruleNEEDSLICE(w *World, r *Report) {
	r.rule("NEEDSLICE", ruleNEEDSLICEText)
	fn := w.Fn("(*par2.Decoder).newCoderAndShards")
	if fn == nil {
		r.unk("NEEDSLICE", "(*par2.Decoder).newCoderAndShards", "", "function not found")
		return
	}
	n := 0
	for _, b := range fn.Blocks {
		ret, ok := b.Instrs[len(b.Instrs)-1].(*ssa.Return)
		if !ok || len(ret.Results) == 0 {
			continue
		}
		mi, ok := ret.Results[len(ret.Results)-1].(*ssa.MakeInterface)
		if !ok || !strings.HasSuffix(typeStr(mi.X.Type()), "NotEnoughParityShardsError") {
			continue
		}
		key := fmt.Sprintf("%s:not-enough#%d", shortName(fn), n)
		n++
		good := false
		for _, c := range cmpsAt(b) {
			if c.Op != token.EQL || c.Y == nil {
				continue
			}
			for _, pr := range [][2]ssa.Value{{c.X, c.Y}, {c.Y, c.X}} {
				if isNilConst(pr[1]) && typeStr(pr[0].Type()) == "[]byte" {
					good = true
				}
			}
		}
		if good {
			r.ok("NEEDSLICE", key, w.ipos(ret), "returned only where a data shard is nil")
		} else {
			r.bad("NEEDSLICE", key, w.ipos(ret), "NotEnoughParityShardsError is returned on a path where no data shard was found missing: a set whose slices are all present is declared unrepairable")
		}
	}
	r.floor("NEEDSLICE", "returns of NotEnoughParityShardsError in newCoderAndShards", n, 1)
}

// ---------------------------------------------------------------------------
// NOWRITE: nothing is written once reconstruction has failed

const ruleNOWRITEText = "a failed reconstruction writes nothing: in the Repair methods of the par1 and par2 decoders no WriteFile is reachable from the call of the coder's Reconstruct / ReconstructData along paths on which its error may be non-nil (edges that establish err == nil are the only way on): a partial repair can overwrite the only stray copies of slices another file still needs"

func ruleNOWRITE(w *World, r *Report) {
	r.rule("NOWRITE", ruleNOWRITEText)
	n := 0
	for _, name := range []string{"(*par1.Decoder).Repair", "(*par2.Decoder).Repair"} {
		root := w.Fn(name)
		if root == nil {
			r.unk("NOWRITE", name, "", "function not found")
			continue
		}
		for _, fn := range region(root) {
			for _, c := range callInstrs(fn) {
				cn := calleeName(c.Common())
				if !(strings.HasSuffix(cn, ".ReconstructData") || strings.HasSuffix(cn, ".Reconstruct") || c.Common().IsInvoke() && (c.Common().Method.Name() == "Reconstruct" || c.Common().Method.Name() == "ReconstructData")) {
					continue
				}
				errv := c.Value()
				if errv == nil || !isErrorType(errv.Type()) {
					continue
				}
				n++
				mname := lastSeg(cn)
				if c.Common().IsInvoke() {
					mname = c.Common().Method.Name()
				}
				key := fmt.Sprintf("%s:after-%s", shortName(fn), mname)
				// forward exploration, pruning the err==nil side
				seen := map[*ssa.BasicBlock]bool{}
				var hit ssa.Instruction
				var walk func(b *ssa.BasicBlock, from int)
				walk = func(b *ssa.BasicBlock, from int) {
					for i := from; i < len(b.Instrs) && hit == nil; i++ {
						if ci, ok := b.Instrs[i].(ssa.CallInstruction); ok && isInvokeOf(ci.Common(), "WriteFile", "par1", "par2") {
							hit = b.Instrs[i]
							return
						}
					}
					if hit != nil {
						return
					}
					iff, _ := b.Instrs[len(b.Instrs)-1].(*ssa.If)
					for si, s := range b.Succs {
						if iff != nil {
							skip := false
							for _, cm := range factCmps(Fact{iff.Cond, si == 0, iff}) {
								if cm.Op == token.EQL && cm.Y != nil && ((cm.X == errv && isNilConst(cm.Y)) || (cm.Y == errv && isNilConst(cm.X))) {
									skip = true // this edge means the reconstruction succeeded
								}
							}
							if skip {
								continue
							}
						}
						if !seen[s] {
							seen[s] = true
							walk(s, 0)
						}
					}
				}
				idx := 0
				for i, in := range c.Block().Instrs {
					if in == ssa.Instruction(c) {
						idx = i + 1
					}
				}
				walk(c.Block(), idx)
				if hit != nil {
					r.bad("NOWRITE", key, w.ipos(hit), "a WriteFile is reachable although the reconstruction at "+w.ipos(c)+" may have failed: files are rewritten from an incomplete reconstruction")
				} else {
					r.ok("NOWRITE", key, w.ipos(c), "every path to a write goes through the err == nil edge of the reconstruction")
				}
			}
		}
	}
	r.floor("NOWRITE", "reconstruction calls in Repair", n, 2)
}

func lastSeg(s string) string {
	if i := strings.LastIndex(s, "."); i >= 0 {
		return s[i+1:]
	}
	return s
}

// ---------------------------------------------------------------------------
// BASECUT: the base name of a set is its index path minus the extension

const ruleBASECUTText = "the base name is the index path without its extension: in par1 and par2, a prefix indexPath[:h] of an index path (a parameter or field named indexPath / indexFile / parPath) has h = len(indexPath) - len(ext) with ext = path.Ext(indexPath) (or filepath.Ext): the names written and looked for do not depend on where else '.par2' occurs in the path"

func ruleBASECUT(w *World, r *Report) {
	r.rule("BASECUT", ruleBASECUTText)
	isIndexPath := func(v ssa.Value) bool {
		v = stripConv(v)
		if p, ok := v.(*ssa.Parameter); ok {
			switch p.Name() {
			case "indexPath", "indexFile", "parPath":
				return true
			}
		}
		ps := resolvedPath(v).Path
		return strings.HasSuffix(ps, ".indexPath") || strings.HasSuffix(ps, ".indexFile")
	}
	n := 0
	for _, fn := range w.funcsInPkgs("par1", "par2") {
		k := 0
		for _, b := range fn.Blocks {
			for _, in := range b.Instrs {
				sl, ok := in.(*ssa.Slice)
				if !ok || sl.Low != nil || sl.High == nil || !isIndexPath(sl.X) {
					continue
				}
				if bt, ok := sl.X.Type().Underlying().(*types.Basic); !ok || bt.Info()&types.IsString == 0 {
					continue
				}
				key := fmt.Sprintf("%s:prefix#%d", shortName(fn), k)
				k++
				n++
				good := false
				if sub, ok := sl.High.(*ssa.BinOp); ok && sub.Op == token.SUB {
					l1 := isBuiltinCall(sub.X, "len")
					l2 := isBuiltinCall(sub.Y, "len")
					if l1 != nil && l2 != nil && isIndexPath(l1.Call.Args[0]) {
						if ec, ok := stripConv(l2.Call.Args[0]).(*ssa.Call); ok {
							if nm := calleeName(&ec.Call); (nm == "path.Ext" || nm == "path/filepath.Ext") && isIndexPath(ec.Call.Args[0]) {
								good = true
							}
						}
					}
				}
				if good {
					r.ok("BASECUT", key, w.ipos(sl), "prefix cut at len(path) - len(Ext(path))")
				} else {
					r.bad("BASECUT", key, w.ipos(sl), "the index path is cut at "+sl.High.String()+", not at len(path)-len(Ext(path)): the base name depends on the rest of the path (e.g. a directory whose name contains the extension)")
				}
			}
		}
	}
	r.floor("BASECUT", "prefixes taken of an index path", n, 2)
}

// ---------------------------------------------------------------------------
// IFSCPAIRS: an accepted slice-checksum packet lists at least one slice

const ruleIFSCPAIRSText = "no protected file without slices: every success return of par2.readIFSCPacket is dominated by a test that what remains after the file id is not empty (buf.Len() != 0 after the id has been read, or a non-empty pair list) - a packet holding only the file id would give the coder zero data shards"

func ruleIFSCPAIRS(w *World, r *Report) {
	r.rule("IFSCPAIRS", ruleIFSCPAIRSText)
	fn := w.Fn("par2.readIFSCPacket")
	if fn == nil {
		r.unk("IFSCPAIRS", "par2.readIFSCPacket", "", "function not found")
		return
	}
	// the read of the file id: first binary.Read
	var idRead ssa.Instruction
	for _, c := range callInstrs(fn) {
		if calleeName(c.Common()) == "encoding/binary.Read" {
			if idRead == nil || instrDominates(c, idRead) {
				idRead = c
			}
		}
	}
	rets := successReturns(fn)
	for i, ret := range rets {
		key := fmt.Sprintf("par2.readIFSCPacket:return#%d", i)
		good := false
		for _, c := range cmpsAt(ret.Block()) {
			if c.Y == nil {
				continue
			}
			for _, pr := range []struct {
				x, y ssa.Value
				op   token.Token
			}{{c.X, c.Y, c.Op}, {c.Y, c.X, swapOp(c.Op)}} {
				z, isC := constInt(pr.y)
				if !isC {
					continue
				}
				nonEmpty := (pr.op == token.NEQ && z == 0) || (pr.op == token.GTR && z >= 0) || (pr.op == token.GEQ && z >= 1)
				if !nonEmpty {
					continue
				}
				x := stripConv(pr.x)
				if cl, ok := x.(*ssa.Call); ok {
					if calleeName(&cl.Call) == "(*bytes.Buffer).Len" && idRead != nil && instrDominates(idRead, cl) {
						good = true
					}
					if lc := isBuiltinCall(cl, "len"); lc != nil && strings.Contains(typeStr(lc.Call.Args[0].Type()), "checksumPair") {
						good = true
					}
				}
			}
		}
		if good {
			r.ok("IFSCPAIRS", key, w.ipos(ret), "at least one checksum pair follows the file id")
		} else {
			r.bad("IFSCPAIRS", key, w.ipos(ret), "a slice-checksum packet with an empty pair list can be accepted: its file has no slices, and a set of such files makes the coder panic on zero data shards")
		}
	}
	r.floor("IFSCPAIRS", "success returns of readIFSCPacket", len(rets), 1)
}

// ---------------------------------------------------------------------------
// ERRIDENT: the file layer hands errors on unchanged

const ruleERRIDENTText = "I/O errors keep their identity: every error a defaultFileIO.ReadFile of par1/par2 returns is nil or the very error value returned by the os / io/ioutil call - callers classify it with os.IsNotExist, which does not look inside wrapped errors, so a wrapped 'file not found' turns a missing (repairable) data file into a hard failure"

func ruleERRIDENT(w *World, r *Report) {
	r.rule("ERRIDENT", ruleERRIDENTText)
	n := 0
	for _, fn := range w.funcsInPkgs("par1", "par2") {
		if fn.Name() != "ReadFile" || fn.Signature.Recv() == nil || !strings.Contains(shortName(fn), "defaultFileIO") {
			continue
		}
		k := 0
		for _, b := range fn.Blocks {
			ret, ok := b.Instrs[len(b.Instrs)-1].(*ssa.Return)
			if !ok || len(ret.Results) != 2 {
				continue
			}
			key := fmt.Sprintf("%s:return#%d", shortName(fn), k)
			k++
			n++
			var ok2 func(v ssa.Value, d int) bool
			ok2 = func(v ssa.Value, d int) bool {
				if isNilConst(v) {
					return true
				}
				if ex, isEx := v.(*ssa.Extract); isEx {
					if c, isC := ex.Tuple.(*ssa.Call); isC {
						if f := c.Call.StaticCallee(); f != nil && f.Pkg != nil {
							switch f.Pkg.Pkg.Path() {
							case "os", "io/ioutil", "io":
								return true
							}
						}
					}
				}
				if phi, isPhi := v.(*ssa.Phi); isPhi && d < 4 {
					for _, e := range phi.Edges {
						if !ok2(e, d+1) {
							return false
						}
					}
					return true
				}
				return false
			}
			if ok2(ret.Results[1], 0) {
				r.ok("ERRIDENT", key, w.ipos(ret), "error returned as the os layer produced it")
			} else {
				r.bad("ERRIDENT", key, w.ipos(ret), "the error returned is "+ret.Results[1].String()+", not the value the os layer produced: os.IsNotExist at the callers no longer recognises a missing file")
			}
		}
	}
	r.floor("ERRIDENT", "returns of defaultFileIO.ReadFile", n, 2)
}

// ---------------------------------------------------------------------------
// INVSOLVE: Inverse goes through the elimination

const ruleINVSOLVEText = "no closed-form shortcut: every success return of (gf2p16.Matrix).Inverse and RowReduceForInverse is dominated by the call of rowReduceForInverse - a special case for small matrices is a second implementation nobody cross-checks"

func ruleINVSOLVE(w *World, r *Report) {
	r.rule("INVSOLVE", ruleINVSOLVEText)
	n := 0
	for _, name := range []string{"(gf2p16.Matrix).Inverse", "(gf2p16.Matrix).RowReduceForInverse"} {
		fn := w.Fn(name)
		if fn == nil {
			r.unk("INVSOLVE", name, "", "function not found")
			continue
		}
		// returns whose error may be nil (`return x, nil` and `return m.RowReduceForInverse(...)` alike)
		var rets []*ssa.Return
		for _, b := range fn.Blocks {
			if ret, ok := b.Instrs[len(b.Instrs)-1].(*ssa.Return); ok && len(ret.Results) == 2 && !definitelyNonNilError(ret.Results[1]) {
				rets = append(rets, ret)
			}
		}
		for i, ret := range rets {
			key := fmt.Sprintf("%s:return#%d", name, i)
			n++
			if mustPassCall(ret, "(gf2p16.Matrix).rowReduceForInverse", 0) || (name != "(gf2p16.Matrix).RowReduceForInverse" && mustPassCall(ret, "(gf2p16.Matrix).RowReduceForInverse", 0)) {
				r.ok("INVSOLVE", key, w.ipos(ret), "result produced by rowReduceForInverse")
			} else {
				r.bad("INVSOLVE", key, w.ipos(ret), "a result is returned without going through rowReduceForInverse: a hand-written special case")
			}
		}
	}
	r.floor("INVSOLVE", "success returns of Inverse / RowReduceForInverse", n, 2)
}

// ---------------------------------------------------------------------------
// ERRKEEP: a deferred clean-up does not overwrite the error it follows

const ruleERRKEEPText = "an earlier error survives the clean-up: in par1, par2 and cmd/par, a function literal that assigns to an error variable captured from the enclosing function (its named result) does so only where that variable is known to be nil - `defer func() { err = f.Close() }()` replaces a failed write's error with Close's nil"

func ruleERRKEEP(w *World, r *Report) {
	r.rule("ERRKEEP", ruleERRKEEPText)
	n := 0
	for _, fn := range w.funcsInPkgs("par1", "par2", "cmd/par", "rsec16") {
		for _, lit := range fn.AnonFuncs {
			k := 0
			for _, b := range lit.Blocks {
				for _, in := range b.Instrs {
					st, ok := in.(*ssa.Store)
					if !ok {
						continue
					}
					fv, ok := st.Addr.(*ssa.FreeVar)
					if !ok || !isErrorPtr(fv.Type()) {
						continue
					}
					n++
					key := fmt.Sprintf("%s:store(%s)#%d", shortName(lit), fv.Name(), k)
					k++
					guarded := false
					for _, c := range cmpsAt(b) {
						if c.Op != token.EQL || c.Y == nil {
							continue
						}
						for _, pr := range [][2]ssa.Value{{c.X, c.Y}, {c.Y, c.X}} {
							if ld, ok := pr[0].(*ssa.UnOp); ok && ld.Op == token.MUL && ld.X == ssa.Value(fv) && isNilConst(pr[1]) {
								guarded = true
							}
						}
					}
					// only deferred / later-running literals matter; an immediately stored non-nil error is also fine
					if guarded || definitelyNonNilError(st.Val) {
						r.ok("ERRKEEP", key, w.ipos(st), "assigned only where the captured error is nil (or to a definite error)")
					} else {
						r.bad("ERRKEEP", key, w.ipos(st), "the captured error variable "+fv.Name()+" is overwritten without checking that it is nil: an earlier failure (a failed write) is replaced by this value, possibly nil")
					}
				}
			}
		}
	}
	r.stat("errkeep_sites", n)
}
