package main

import (
	"fmt"
	"go/token"
	"go/types"
	"strings"

	"golang.org/x/tools/go/ssa"
)

// Rules motivated by the fourth round of seeded changes.

// ---------------------------------------------------------------------------
// SAVEDONLY: only entries saved in the volume set occupy a data slot

const ruleSAVEDONLYText = "one data slot per saved entry: in (*par1.Decoder).LoadFileData every append to the slice that becomes d.fileData - a file's bytes or the nil that marks it unusable - is dominated by the entry's savedInVolumeSet() being true; an entry outside the set never adds a slot, whatever the state of its file (the coder's shard count and Repair's entry mapping are built on that); in the methods of the PAR1 decoder, FileBytes of an element of the unfiltered entry list is read only under savedInVolumeSet() - sizes of files that are listed but not protected take no part"

func ruleSAVEDONLY(w *World, r *Report) {
	r.rule("SAVEDONLY", ruleSAVEDONLYText)
	fn := w.Fn("(*par1.Decoder).LoadFileData")
	if fn == nil {
		r.unk("SAVEDONLY", "(*par1.Decoder).LoadFileData", "", "function not found")
		return
	}
	// the slice stored into d.fileData
	var web []*ssa.Call
	for _, b := range fn.Blocks {
		for _, in := range b.Instrs {
			if st, ok := in.(*ssa.Store); ok && strings.HasSuffix(addrPath(st.Addr).Path, ".fileData") {
				apps, _ := appendWeb(st.Val)
				web = append(web, apps...)
			}
		}
	}
	n := 0
	for _, ap := range web {
		key := fmt.Sprintf("%s:append#%d", shortName(fn), n)
		n++
		ok := false
		for _, c := range cmpsAt(ap.Block()) {
			if c.Y != nil || c.Op != token.NEQ {
				continue
			}
			// the status method itself or a wrapper of the same name on the entry
			if cl, isCall := stripConv(c.X).(*ssa.Call); isCall {
				if f := cl.Call.StaticCallee(); f != nil && f.Name() == "savedInVolumeSet" && w.fnPkg(f) == "par1" {
					ok = true
				}
			}
		}
		if ok {
			r.ok("SAVEDONLY", key, w.ipos(ap), "slot added only for an entry saved in the volume set")
		} else {
			r.bad("SAVEDONLY", key, w.ipos(ap), "a data slot can be added for an entry that is not saved in the volume set: the number of shards no longer matches the set and Repair's entry mapping is shifted")
		}
	}
	r.floor("SAVEDONLY", "appends to the data slots", n, 1)
	// sizes of entries outside the set play no part: in the decoder, FileBytes of an element of the
	// raw entry list (d.indexVolume.entries itself, not a filtered copy) is read only where that
	// entry is known to be saved in the volume set
	k := 0
	for _, top := range w.funcsInPkgs("par1") {
		for _, f := range withAnon(top) {
			root := f
			for root.Parent() != nil {
				root = root.Parent()
			}
			if root.Signature.Recv() == nil || !strings.HasSuffix(namedTypeName(root.Signature.Recv().Type()), ".Decoder") {
				continue
			}
			for _, b := range f.Blocks {
				for _, in := range b.Instrs {
					var base ssa.Value
					switch x := in.(type) {
					case *ssa.Field:
						if st, ok := x.X.Type().Underlying().(*types.Struct); ok && st.Field(x.Field).Name() == "FileBytes" {
							base = x.X
						}
					case *ssa.FieldAddr:
						if st, ok := derefType(x.X.Type()).Underlying().(*types.Struct); ok && st.Field(x.Field).Name() == "FileBytes" {
							base = x.X
						}
					}
					if base == nil {
						continue
					}
					// walk to the element the header belongs to
					raw := false
					for d := 0; d < 8 && base != nil; d++ {
						switch y := base.(type) {
						case *ssa.Field:
							base = y.X
						case *ssa.FieldAddr:
							base = y.X
						case *ssa.UnOp:
							base = y.X
						case *ssa.Alloc:
							// the loop variable kept in a cell: what is stored into it
							base = nil
							for _, ref := range referrersOf(y) {
								if st, ok := ref.(*ssa.Store); ok && st.Addr == ssa.Value(y) {
									base = st.Val
								}
							}
						case *ssa.IndexAddr:
							if ld, ok := stripConv(y.X).(*ssa.UnOp); ok && ld.Op == token.MUL {
								if fa, ok := ld.X.(*ssa.FieldAddr); ok {
									if st, ok := derefType(fa.X.Type()).Underlying().(*types.Struct); ok && st.Field(fa.Field).Name() == "entries" {
										raw = true
									}
								}
							}
							base = nil
						default:
							base = nil
						}
					}
					if !raw {
						continue
					}
					// only a size that takes part in a decision or ends up in state counts: one that is
					// merely handed to a call (a delegate callback, a log line) is not the rule's business
					decides := false
					seenV := map[ssa.Value]bool{}
					var fwd func(v ssa.Value, d int)
					fwd = func(v ssa.Value, d int) {
						if v == nil || seenV[v] || d > 8 || decides {
							return
						}
						seenV[v] = true
						for _, ref := range referrersOf(v) {
							switch y := ref.(type) {
							case *ssa.If, *ssa.Return:
								decides = true
							case *ssa.Store:
								if al, isAl := y.Addr.(*ssa.Alloc); isAl && y.Val == v {
									fwd(al, d+1)
								} else if y.Val == v {
									decides = true
								}
							case *ssa.BinOp:
								fwd(y, d+1)
							case *ssa.UnOp:
								fwd(y, d+1)
							case *ssa.Convert:
								fwd(y, d+1)
							case *ssa.ChangeType:
								fwd(y, d+1)
							case *ssa.Phi:
								fwd(y, d+1)
							case *ssa.Slice, *ssa.IndexAddr, *ssa.MakeSlice:
								decides = true
							}
						}
					}
					if fa, isAddr := in.(*ssa.FieldAddr); isAddr {
						for _, ref := range referrersOf(fa) {
							if ld, ok := ref.(*ssa.UnOp); ok && ld.Op == token.MUL {
								fwd(ld, 0)
							}
						}
					} else {
						fwd(in.(ssa.Value), 0)
					}
					if !decides {
						continue
					}
					key := fmt.Sprintf("%s:FileBytes-of-raw-entry#%d", shortName(root), k)
					k++
					guarded := false
					cmps := cmpsAt(b)
					// inside a function literal: what holds where the literal is made holds inside
					for lit := f; lit.Parent() != nil; lit = lit.Parent() {
						for _, pb := range lit.Parent().Blocks {
							for _, pin := range pb.Instrs {
								if mc, ok := pin.(*ssa.MakeClosure); ok && mc.Fn == ssa.Value(lit) {
									cmps = append(cmps, cmpsAt(pb)...)
								}
							}
						}
					}
					for _, c := range cmps {
						if c.Y != nil || c.Op != token.NEQ {
							continue
						}
						if cl, isCall := stripConv(c.X).(*ssa.Call); isCall {
							if g := cl.Call.StaticCallee(); g != nil && g.Name() == "savedInVolumeSet" && w.fnPkg(g) == "par1" {
								guarded = true
							}
						}
					}
					if guarded {
						r.ok("SAVEDONLY", key, w.ipos(in), "the size is read only for an entry saved in the volume set")
					} else {
						r.bad("SAVEDONLY", key, w.ipos(in), "the decoder reads FileBytes of an element of the unfiltered entry list without knowing that the entry is saved in the volume set: the size of a file that is merely listed (not protected) takes part in a decision about the set")
					}
				}
			}
		}
	}
}

// ---------------------------------------------------------------------------
// HDRFIELDS: every computed header field of a PAR1 volume is assigned on all paths

const ruleHDRFIELDSText = "volume header fields are unconditional: in par1.writeVolume the stores into FileCount, FileListOffset, FileListBytes, DataOffset and DataBytes of the header each dominate the first writeHeader call - no field of the fixed layout depends on the volume having data or comments"

func ruleHDRFIELDS(w *World, r *Report) {
	r.rule("HDRFIELDS", ruleHDRFIELDSText)
	fn := w.Fn("par1.writeVolume")
	if fn == nil {
		r.unk("HDRFIELDS", "par1.writeVolume", "", "function not found")
		return
	}
	var first ssa.CallInstruction
	for _, c := range callsIn(fn, "par1.writeHeader") {
		if c.Parent() != fn {
			continue
		}
		if first == nil || instrDominates(c, first) {
			first = c
		}
	}
	if first == nil {
		r.unk("HDRFIELDS", "par1.writeVolume", w.pos(fn.Pos()), "no writeHeader call")
		return
	}
	want := []string{"FileCount", "FileListOffset", "FileListBytes", "DataOffset", "DataBytes"}
	n := 0
	for _, f := range want {
		key := "par1.writeVolume:" + f
		var dom, any ssa.Instruction
		for _, b := range fn.Blocks {
			for _, in := range b.Instrs {
				st, ok := in.(*ssa.Store)
				if !ok {
					continue
				}
				fa, ok := st.Addr.(*ssa.FieldAddr)
				if !ok || fieldName(fa.X.Type(), fa.Field) != f {
					continue
				}
				any = st
				if instrDominates(st, first) {
					dom = st
				}
			}
		}
		switch {
		case dom != nil:
			n++
			r.ok("HDRFIELDS", key, w.ipos(dom), "assigned on every path before the header is serialised")
		case any != nil:
			n++
			r.bad("HDRFIELDS", key, w.ipos(any), "header field "+f+" is assigned only on some paths: for the others the volume carries the zero value, which is not what the format's fixed layout prescribes")
		default:
			r.unk("HDRFIELDS", key, w.pos(fn.Pos()), "no store into header field "+f)
		}
	}
	r.floor("HDRFIELDS", "computed header fields", n, 5)
}

// ---------------------------------------------------------------------------
// NOTENOUGH-EDGE (par2 decoder): the 'not enough parity' verdict needs a missing slice

const ruleNEEDSLICEText = "'repair needed but not possible' needs a missing slice: in (*par2.Decoder).newCoderAndShards every return of rsec16.NotEnoughParityShardsError is dominated by a data shard having been found nil - per-file flags alone (content shifted, bytes appended) never make a set unrepairable, those files are rewritten from slices that are all present"

func ruleNEEDSLICE(w *World, r *Report) {
	r.rule("NEEDSLICE", ruleNEEDSLICEText)
	fn := w.Fn("(*par2.Decoder).newCoderAndShards")
	if fn == nil {
		r.unk("NEEDSLICE", "(*par2.Decoder).newCoderAndShards", "", "function not found")
		return
	}
	n := 0
	for _, b := range fn.Blocks {
		ret, ok := b.Instrs[len(b.Instrs)-1].(*ssa.Return)
		if !ok || len(ret.Results) == 0 {
			continue
		}
		mi, ok := ret.Results[len(ret.Results)-1].(*ssa.MakeInterface)
		if !ok || !strings.HasSuffix(typeStr(mi.X.Type()), "NotEnoughParityShardsError") {
			continue
		}
		key := fmt.Sprintf("%s:not-enough#%d", shortName(fn), n)
		n++
		good := false
		for _, c := range cmpsAt(b) {
			if c.Op != token.EQL || c.Y == nil {
				continue
			}
			for _, pr := range [][2]ssa.Value{{c.X, c.Y}, {c.Y, c.X}} {
				if isNilConst(pr[1]) && typeStr(pr[0].Type()) == "[]byte" {
					good = true
				}
			}
		}
		if good {
			r.ok("NEEDSLICE", key, w.ipos(ret), "returned only where a data shard is nil")
		} else {
			r.bad("NEEDSLICE", key, w.ipos(ret), "NotEnoughParityShardsError is returned on a path where no data shard was found missing: a set whose slices are all present is declared unrepairable")
		}
	}
	r.floor("NEEDSLICE", "returns of NotEnoughParityShardsError in newCoderAndShards", n, 1)
}

// ---------------------------------------------------------------------------
// NOWRITE: nothing is written once reconstruction has failed

const ruleNOWRITEText = "a failed reconstruction writes nothing: in the Repair methods of the par1 and par2 decoders no WriteFile is reachable from the call of the coder's Reconstruct / ReconstructData along paths on which its error may be non-nil (edges that establish err == nil are the only way on): a partial repair can overwrite the only stray copies of slices another file still needs"

func ruleNOWRITE(w *World, r *Report) {
	r.rule("NOWRITE", ruleNOWRITEText)
	n := 0
	for _, name := range []string{"(*par1.Decoder).Repair", "(*par2.Decoder).Repair"} {
		root := w.Fn(name)
		if root == nil {
			r.unk("NOWRITE", name, "", "function not found")
			continue
		}
		for _, fn := range region(root) {
			for _, c := range callInstrs(fn) {
				cn := calleeName(c.Common())
				if !(strings.HasSuffix(cn, ".ReconstructData") || strings.HasSuffix(cn, ".Reconstruct") || c.Common().IsInvoke() && (c.Common().Method.Name() == "Reconstruct" || c.Common().Method.Name() == "ReconstructData")) {
					continue
				}
				errv := c.Value()
				if errv == nil || !isErrorType(errv.Type()) {
					continue
				}
				n++
				mname := lastSeg(cn)
				if c.Common().IsInvoke() {
					mname = c.Common().Method.Name()
				}
				key := fmt.Sprintf("%s:after-%s", shortName(fn), mname)
				// forward exploration, pruning the err==nil side
				seen := map[*ssa.BasicBlock]bool{}
				var hit ssa.Instruction
				var walk func(b *ssa.BasicBlock, from int)
				walk = func(b *ssa.BasicBlock, from int) {
					for i := from; i < len(b.Instrs) && hit == nil; i++ {
						if ci, ok := b.Instrs[i].(ssa.CallInstruction); ok && isInvokeOf(ci.Common(), "WriteFile", "par1", "par2") {
							hit = b.Instrs[i]
							return
						}
					}
					if hit != nil {
						return
					}
					iff, _ := b.Instrs[len(b.Instrs)-1].(*ssa.If)
					for si, s := range b.Succs {
						if iff != nil {
							skip := false
							for _, cm := range factCmps(Fact{iff.Cond, si == 0, iff}) {
								if cm.Op == token.EQL && cm.Y != nil && ((cm.X == errv && isNilConst(cm.Y)) || (cm.Y == errv && isNilConst(cm.X))) {
									skip = true // this edge means the reconstruction succeeded
								}
							}
							if skip {
								continue
							}
						}
						if !seen[s] {
							seen[s] = true
							walk(s, 0)
						}
					}
				}
				idx := 0
				for i, in := range c.Block().Instrs {
					if in == ssa.Instruction(c) {
						idx = i + 1
					}
				}
				walk(c.Block(), idx)
				if hit != nil {
					r.bad("NOWRITE", key, w.ipos(hit), "a WriteFile is reachable although the reconstruction at "+w.ipos(c)+" may have failed: files are rewritten from an incomplete reconstruction")
				} else {
					r.ok("NOWRITE", key, w.ipos(c), "every path to a write goes through the err == nil edge of the reconstruction")
				}
			}
		}
	}
	r.floor("NOWRITE", "reconstruction calls in Repair", n, 2)
}

func lastSeg(s string) string {
	if i := strings.LastIndex(s, "."); i >= 0 {
		return s[i+1:]
	}
	return s
}

// ---------------------------------------------------------------------------
// BASECUT: the base name of a set is its index path minus the extension

const ruleBASECUTText = "the base name is the index path without its extension: in par1 and par2, a prefix indexPath[:h] of an index path (a parameter or field named indexPath / indexFile / parPath) has h = len(indexPath) - len(ext) with ext = path.Ext(indexPath) (or filepath.Ext): the names written and looked for do not depend on where else '.par2' occurs in the path"

func ruleBASECUT(w *World, r *Report) {
	r.rule("BASECUT", ruleBASECUTText)
	isIndexPath := func(v ssa.Value) bool {
		v = stripConv(v)
		if p, ok := v.(*ssa.Parameter); ok {
			switch p.Name() {
			case "indexPath", "indexFile", "parPath":
				return true
			}
		}
		ps := resolvedPath(v).Path
		return strings.HasSuffix(ps, ".indexPath") || strings.HasSuffix(ps, ".indexFile")
	}
	n := 0
	for _, fn := range w.funcsInPkgs("par1", "par2") {
		k := 0
		for _, b := range fn.Blocks {
			for _, in := range b.Instrs {
				sl, ok := in.(*ssa.Slice)
				if !ok || sl.Low != nil || sl.High == nil || !isIndexPath(sl.X) {
					continue
				}
				if bt, ok := sl.X.Type().Underlying().(*types.Basic); !ok || bt.Info()&types.IsString == 0 {
					continue
				}
				key := fmt.Sprintf("%s:prefix#%d", shortName(fn), k)
				k++
				n++
				good := false
				if sub, ok := sl.High.(*ssa.BinOp); ok && sub.Op == token.SUB {
					l1 := isBuiltinCall(sub.X, "len")
					l2 := isBuiltinCall(sub.Y, "len")
					if l1 != nil && l2 != nil && isIndexPath(l1.Call.Args[0]) {
						if ec, ok := stripConv(l2.Call.Args[0]).(*ssa.Call); ok {
							if nm := calleeName(&ec.Call); (nm == "path.Ext" || nm == "path/filepath.Ext") && isIndexPath(ec.Call.Args[0]) {
								good = true
							}
						}
					}
				}
				if good {
					r.ok("BASECUT", key, w.ipos(sl), "prefix cut at len(path) - len(Ext(path))")
				} else {
					r.bad("BASECUT", key, w.ipos(sl), "the index path is cut at "+sl.High.String()+", not at len(path)-len(Ext(path)): the base name depends on the rest of the path (e.g. a directory whose name contains the extension)")
				}
			}
		}
	}
	r.floor("BASECUT", "prefixes taken of an index path", n, 2)
}

// ---------------------------------------------------------------------------
// IFSCPAIRS: an accepted slice-checksum packet lists at least one slice

const ruleIFSCPAIRSText = "no protected file without slices: every success return of par2.readIFSCPacket is dominated by a test that what remains after the file id is not empty (buf.Len() != 0 after the id has been read, or a non-empty pair list) - a packet holding only the file id would give the coder zero data shards"

func ruleIFSCPAIRS(w *World, r *Report) {
	r.rule("IFSCPAIRS", ruleIFSCPAIRSText)
	fn := w.Fn("par2.readIFSCPacket")
	if fn == nil {
		r.unk("IFSCPAIRS", "par2.readIFSCPacket", "", "function not found")
		return
	}
	// the read of the file id: first binary.Read
	var idRead ssa.Instruction
	for _, c := range callInstrs(fn) {
		if calleeName(c.Common()) == "encoding/binary.Read" {
			if idRead == nil || instrDominates(c, idRead) {
				idRead = c
			}
		}
	}
	rets := successReturns(fn)
	for i, ret := range rets {
		key := fmt.Sprintf("par2.readIFSCPacket:return#%d", i)
		good := false
		for _, c := range cmpsAt(ret.Block()) {
			if c.Y == nil {
				continue
			}
			for _, pr := range []struct {
				x, y ssa.Value
				op   token.Token
			}{{c.X, c.Y, c.Op}, {c.Y, c.X, swapOp(c.Op)}} {
				z, isC := constInt(pr.y)
				if !isC {
					continue
				}
				nonEmpty := (pr.op == token.NEQ && z == 0) || (pr.op == token.GTR && z >= 0) || (pr.op == token.GEQ && z >= 1)
				if !nonEmpty {
					continue
				}
				x := stripConv(pr.x)
				if cl, ok := x.(*ssa.Call); ok {
					if calleeName(&cl.Call) == "(*bytes.Buffer).Len" && idRead != nil && instrDominates(idRead, cl) {
						good = true
					}
					if lc := isBuiltinCall(cl, "len"); lc != nil && strings.Contains(typeStr(lc.Call.Args[0].Type()), "checksumPair") {
						good = true
					}
				}
			}
		}
		if good {
			r.ok("IFSCPAIRS", key, w.ipos(ret), "at least one checksum pair follows the file id")
		} else {
			r.bad("IFSCPAIRS", key, w.ipos(ret), "a slice-checksum packet with an empty pair list can be accepted: its file has no slices, and a set of such files makes the coder panic on zero data shards")
		}
	}
	r.floor("IFSCPAIRS", "success returns of readIFSCPacket", len(rets), 1)
}

// ---------------------------------------------------------------------------
// ERRIDENT: the file layer hands errors on unchanged

const ruleERRIDENTText = "I/O errors keep their identity: every error a defaultFileIO.ReadFile of par1/par2 returns is nil or the very error value returned by the os / io/ioutil call - callers classify it with os.IsNotExist, which does not look inside wrapped errors, so a wrapped 'file not found' turns a missing (repairable) data file into a hard failure"

func ruleERRIDENT(w *World, r *Report) {
	r.rule("ERRIDENT", ruleERRIDENTText)
	n := 0
	for _, fn := range w.funcsInPkgs("par1", "par2") {
		if fn.Name() != "ReadFile" || fn.Signature.Recv() == nil || !strings.Contains(shortName(fn), "defaultFileIO") {
			continue
		}
		k := 0
		for _, b := range fn.Blocks {
			ret, ok := b.Instrs[len(b.Instrs)-1].(*ssa.Return)
			if !ok || len(ret.Results) != 2 {
				continue
			}
			key := fmt.Sprintf("%s:return#%d", shortName(fn), k)
			k++
			n++
			var ok2 func(v ssa.Value, d int) bool
			ok2 = func(v ssa.Value, d int) bool {
				if isNilConst(v) {
					return true
				}
				if ex, isEx := v.(*ssa.Extract); isEx {
					if c, isC := ex.Tuple.(*ssa.Call); isC {
						if f := c.Call.StaticCallee(); f != nil && f.Pkg != nil {
							switch f.Pkg.Pkg.Path() {
							case "os", "io/ioutil", "io":
								return true
							}
						}
					}
				}
				if phi, isPhi := v.(*ssa.Phi); isPhi && d < 4 {
					for _, e := range phi.Edges {
						if !ok2(e, d+1) {
							return false
						}
					}
					return true
				}
				return false
			}
			if ok2(ret.Results[1], 0) {
				r.ok("ERRIDENT", key, w.ipos(ret), "error returned as the os layer produced it")
			} else {
				r.bad("ERRIDENT", key, w.ipos(ret), "the error returned is "+ret.Results[1].String()+", not the value the os layer produced: os.IsNotExist at the callers no longer recognises a missing file")
			}
		}
	}
	r.floor("ERRIDENT", "returns of defaultFileIO.ReadFile", n, 2)
}

// ---------------------------------------------------------------------------
// INVSOLVE: Inverse goes through the elimination

const ruleINVSOLVEText = "no closed-form shortcut: every success return of (gf2p16.Matrix).Inverse and RowReduceForInverse is dominated by the call of rowReduceForInverse - a special case for small matrices is a second implementation nobody cross-checks"

func ruleINVSOLVE(w *World, r *Report) {
	r.rule("INVSOLVE", ruleINVSOLVEText)
	n := 0
	for _, name := range []string{"(gf2p16.Matrix).Inverse", "(gf2p16.Matrix).RowReduceForInverse"} {
		fn := w.Fn(name)
		if fn == nil {
			r.unk("INVSOLVE", name, "", "function not found")
			continue
		}
		// returns whose error may be nil (`return x, nil` and `return m.RowReduceForInverse(...)` alike)
		var rets []*ssa.Return
		for _, b := range fn.Blocks {
			if ret, ok := b.Instrs[len(b.Instrs)-1].(*ssa.Return); ok && len(ret.Results) == 2 && !definitelyNonNilError(ret.Results[1]) {
				rets = append(rets, ret)
			}
		}
		for i, ret := range rets {
			key := fmt.Sprintf("%s:return#%d", name, i)
			n++
			if mustPassCall(ret, "(gf2p16.Matrix).rowReduceForInverse", 0) || (name != "(gf2p16.Matrix).RowReduceForInverse" && mustPassCall(ret, "(gf2p16.Matrix).RowReduceForInverse", 0)) {
				r.ok("INVSOLVE", key, w.ipos(ret), "result produced by rowReduceForInverse")
			} else {
				r.bad("INVSOLVE", key, w.ipos(ret), "a result is returned without going through rowReduceForInverse: a hand-written special case")
			}
		}
	}
	r.floor("INVSOLVE", "success returns of Inverse / RowReduceForInverse", n, 2)
}

// ---------------------------------------------------------------------------
// ERRKEEP: a deferred clean-up does not overwrite the error it follows

const ruleERRKEEPText = "an earlier error survives the clean-up: in par1, par2 and cmd/par, a function literal that assigns to an error variable captured from the enclosing function (its named result) does so only where that variable is known to be nil - `defer func() { err = f.Close() }()` replaces a failed write's error with Close's nil"

func ruleERRKEEP(w *World, r *Report) {
	r.rule("ERRKEEP", ruleERRKEEPText)
	n := 0
	for _, fn := range w.funcsInPkgs("par1", "par2", "cmd/par", "rsec16") {
		for _, lit := range fn.AnonFuncs {
			k := 0
			for _, b := range lit.Blocks {
				for _, in := range b.Instrs {
					st, ok := in.(*ssa.Store)
					if !ok {
						continue
					}
					fv, ok := st.Addr.(*ssa.FreeVar)
					if !ok || !isErrorPtr(fv.Type()) {
						continue
					}
					n++
					key := fmt.Sprintf("%s:store(%s)#%d", shortName(lit), fv.Name(), k)
					k++
					guarded := false
					for _, c := range cmpsAt(b) {
						if c.Op != token.EQL || c.Y == nil {
							continue
						}
						for _, pr := range [][2]ssa.Value{{c.X, c.Y}, {c.Y, c.X}} {
							if ld, ok := pr[0].(*ssa.UnOp); ok && ld.Op == token.MUL && ld.X == ssa.Value(fv) && isNilConst(pr[1]) {
								guarded = true
							}
						}
					}
					// only deferred / later-running literals matter; an immediately stored non-nil error is also fine
					if guarded || definitelyNonNilError(st.Val) {
						r.ok("ERRKEEP", key, w.ipos(st), "assigned only where the captured error is nil (or to a definite error)")
					} else {
						r.bad("ERRKEEP", key, w.ipos(st), "the captured error variable "+fv.Name()+" is overwritten without checking that it is nil: an earlier failure (a failed write) is replaced by this value, possibly nil")
					}
				}
			}
		}
	}
	r.stat("errkeep_sites", n)
}

// ---------------------------------------------------------------------------
// SLICECAP: a table made with make(n) is resliced only within its length

const ruleSLICECAPText = "reslicing a made table stays inside it: in par1 and par2, for x = make([]T, n) and a later x[:h], h <= n is shown - by constants, by intervals, or structurally: h = a + c where every value a can take is a constant k with n >= k + c established at the reslice (n != 0, n > k', len(x) > 0 ...) or a loop index v assigned under v < n with c <= 1. A table of archive-determined size can have length 0 (PAR1: 256 listed files leave room for no parity volume), and `x[:last+1]` with last still 0 then panics"

func ruleSLICECAP(w *World, r *Report) {
	r.rule("SLICECAP", ruleSLICECAPText)
	rangeWorld = w
	n := 0
	// only code that Verify/Repair can reach: there the table sizes come from an archive
	readerFns := w.moduleClosure(w.CG, w.fns(append(append([]string{}, verifyRootNames...), repairRootNames...)...), nil)
	for _, fn := range w.funcsInPkgs("par1", "par2") {
		top := fn
		for top.Parent() != nil {
			top = top.Parent()
		}
		if !readerFns[fn] && !readerFns[top] {
			continue
		}
		k := 0
		for _, b := range fn.Blocks {
			for _, in := range b.Instrs {
				sl, ok := in.(*ssa.Slice)
				if !ok || sl.High == nil {
					continue
				}
				mk, ok := stripConv(sl.X).(*ssa.MakeSlice)
				if !ok {
					continue
				}
				key := fmt.Sprintf("%s:reslice#%d", shortName(fn), k)
				k++
				n++
				nv := mk.Len
				// lower bound on n known at the reslice: from facts on n itself or on len(x)
				rc := &rangeCtx{memo: map[ssa.Value]*ival{}, busy: map[ssa.Value]bool{}}
				nlo := int64(0)
				if iv := rc.eval(nv, b); iv != nil && iv.lo.IsInt64() && iv.lo.Int64() > nlo {
					nlo = iv.lo.Int64()
				}
				for _, c := range cmpsAt(b) {
					if c.Y == nil {
						continue
					}
					for _, pr := range []struct {
						x, y ssa.Value
						op   token.Token
					}{{c.X, c.Y, c.Op}, {c.Y, c.X, swapOp(c.Op)}} {
						isN := stripAllConv(pr.x) == stripAllConv(nv)
						if lc := isBuiltinCall(stripConv(pr.x), "len"); lc != nil && stripConv(lc.Call.Args[0]) == ssa.Value(mk) {
							isN = true
						}
						z, isC := constInt(pr.y)
						if !isN || !isC {
							continue
						}
						switch pr.op {
						case token.NEQ:
							if z == 0 && nlo < 1 {
								nlo = 1
							}
						case token.GTR:
							if z+1 > nlo {
								nlo = z + 1
							}
						case token.GEQ:
							if z > nlo {
								nlo = z
							}
						}
					}
				}
				// h = a + c
				h := stripAllConv(sl.High)
				c := int64(0)
				a := h
				if bo, ok := h.(*ssa.BinOp); ok && bo.Op == token.ADD {
					if cv, isC := constInt(bo.Y); isC && cv >= 0 {
						a, c = stripAllConv(bo.X), cv
					}
				}
				why := ""
				seen := map[ssa.Value]bool{}
				var leaf func(v ssa.Value, at *ssa.BasicBlock)
				leaf = func(v ssa.Value, at *ssa.BasicBlock) {
					if why != "" || seen[v] {
						return
					}
					seen[v] = true
					v = stripAllConv(resolveSingle(stripAllConv(v)))
					if kv, isC := constInt(v); isC {
						if kv+c > nlo {
							why = fmt.Sprintf("the bound can be %d while the table is only known to have at least %d elements", kv+c, nlo)
						}
						return
					}
					// a value assigned under a bound by n (a loop index is a phi too: ask this first):
					// v = w + k with w < n needs k + c <= 1, with w <= n needs k + c <= 0
					if at != nil {
						wv, kk := v, int64(0)
						if bo, ok := v.(*ssa.BinOp); ok && (bo.Op == token.ADD || bo.Op == token.SUB) {
							if kv, isC := constInt(bo.Y); isC {
								wv = stripAllConv(bo.X)
								if bo.Op == token.SUB {
									kv = -kv
								}
								kk = kv
							}
						}
						for _, f := range cmpsAt(at) {
							if f.Y == nil || stripAllConv(f.Y) != stripAllConv(nv) {
								continue
							}
							if fx := stripAllConv(f.X); fx != wv && !cellLoadsEqual(fx, wv) {
								continue
							}
							if (f.Op == token.LSS && kk+c <= 1) || (f.Op == token.LEQ && kk+c <= 0) {
								return
							}
						}
						// the comparison may be the pred block's own branch (rotated loops)
						if len(at.Instrs) > 0 {
							if iff, ok := at.Instrs[len(at.Instrs)-1].(*ssa.If); ok {
								for _, truth := range []bool{true, false} {
									si := 0
									if !truth {
										si = 1
									}
									if si < len(at.Succs) && at.Succs[si] != nil {
										for _, f := range factCmps(Fact{iff.Cond, truth, iff}) {
											_ = f
										}
									}
								}
							}
						}
					}
					if phi, ok := v.(*ssa.Phi); ok {
						for i, e := range phi.Edges {
							if i < len(phi.Block().Preds) {
								leaf(e, phi.Block().Preds[i])
							}
						}
						return
					}
					// a value assigned under v < n
					if c <= 1 && at != nil {
						facts := cmpsAt(at)
						if iff, ok := at.Instrs[len(at.Instrs)-1].(*ssa.If); ok {
							_ = iff
						}
						for _, f := range facts {
							if f.Op == token.LSS && f.Y != nil && (stripAllConv(f.X) == v || cellLoadsEqual(stripAllConv(f.X), v)) && stripAllConv(f.Y) == stripAllConv(nv) {
								return
							}
						}
					}
					// v <= len(x) / v <= n established at the reslice (c must be 0), e.g. `if v > len(x) { return err }`
					if c == 0 {
						for _, f := range cmpsAt(b) {
							if f.Y == nil {
								continue
							}
							for _, pr := range []struct {
								x, y ssa.Value
								op   token.Token
							}{{f.X, f.Y, f.Op}, {f.Y, f.X, swapOp(f.Op)}} {
								if (stripAllConv(pr.x) != v && !sameImage(stripAllConv(pr.x), v)) || (pr.op != token.LEQ && pr.op != token.LSS) {
									continue
								}
								y := stripAllConv(pr.y)
								if y == stripAllConv(nv) {
									return
								}
								if lc := isBuiltinCall(y, "len"); lc != nil && stripConv(lc.Call.Args[0]) == ssa.Value(mk) {
									return
								}
							}
						}
					}
					// interval fallback
					if iv := rc.eval(v, at); iv != nil && iv.hi.IsInt64() && iv.hi.Int64()+c <= nlo {
						return
					}
					why = fmt.Sprintf("nothing bounds %s (+%d) by the table's length", v.Name(), c)
				}
				leaf(a, b)
				if why == "" {
					r.ok("SLICECAP", key, w.ipos(sl), "the new length is shown not to exceed the length the table was made with")
				} else {
					r.bad("SLICECAP", key, w.ipos(sl), "x[:h] on a table made with make(n): "+why+" - when the archive makes n zero this reslice panics")
				}
			}
		}
	}
	r.floor("SLICECAP", "reslices of made tables", n, 1)
}

// cellLoadsEqual: a and b are loads of the same local cell (a variable captured by a closure
// lives in one) and no store to the cell can execute between them: a's block dominates b's,
// and from no store to the cell can b be reached without passing through a's block again.
func cellLoadsEqual(a, b ssa.Value) bool {
	la, ok1 := a.(*ssa.UnOp)
	lb, ok2 := b.(*ssa.UnOp)
	if !ok1 || !ok2 || la.Op != token.MUL || lb.Op != token.MUL || la.X != lb.X {
		return false
	}
	cell, ok := la.X.(*ssa.Alloc)
	if !ok {
		return false
	}
	if !(la.Block() == lb.Block() || la.Block().Dominates(lb.Block())) {
		return false
	}
	pos := func(in ssa.Instruction) int {
		for i, x := range in.Block().Instrs {
			if x == in {
				return i
			}
		}
		return -1
	}
	for _, ref := range referrersOf(cell) {
		var at ssa.Instruction
		switch x := ref.(type) {
		case *ssa.Store:
			if x.Addr == ssa.Value(cell) {
				at = x
			}
		case *ssa.MakeClosure:
			// a closure that captured the cell may assign it when called: look for stores through its free variable
			if lit, ok := x.Fn.(*ssa.Function); ok {
				for j, bnd := range x.Bindings {
					if bnd == ssa.Value(cell) && j < len(lit.FreeVars) {
						for _, r2 := range referrersOf(lit.FreeVars[j]) {
							if st, ok := r2.(*ssa.Store); ok && st.Addr == ssa.Value(lit.FreeVars[j]) {
								return false
							}
						}
					}
				}
			}
		}
		if at == nil {
			continue
		}
		sb := at.Block()
		// a store between the two loads in straight-line order
		if sb == la.Block() && pos(at) > pos(la) && (lb.Block() != sb || pos(at) < pos(lb)) {
			return false
		}
		if sb == lb.Block() && sb != la.Block() && pos(at) < pos(lb) {
			return false
		}
		if sb == la.Block() || sb == lb.Block() {
			continue
		}
		// can b's block be reached from the store without passing a's block?
		seen := map[*ssa.BasicBlock]bool{la.Block(): true}
		work := []*ssa.BasicBlock{sb}
		for len(work) > 0 {
			x := work[len(work)-1]
			work = work[:len(work)-1]
			for _, sx := range x.Succs {
				if seen[sx] {
					continue
				}
				seen[sx] = true
				if sx == lb.Block() {
					return false
				}
				work = append(work, sx)
			}
		}
	}
	return true
}

// ---------------------------------------------------------------------------
// PAR1NOPAR: without any parity volume PAR1 repair gives the classifier's verdict

const rulePAR1NOPARText = "no parity volume is 'needed but not possible', not a generic failure: in (*par1.Decoder).Repair the shards are built (buildShards, whose size check 'data file bigger than parity data' misfires when no parity volume was loaded and the shard size is still 0) only on a path where a parity volume is known to have been loaded (shardByteCount != 0 or a non-empty parity table), and on the other path a missing data file yields reedsolomon.ErrTooFewShards - the error the PAR1 classifier and the CLI's exit status 2 recognise"

func rulePAR1NOPAR(w *World, r *Report) {
	r.rule("PAR1NOPAR", rulePAR1NOPARText)
	fn := w.Fn("(*par1.Decoder).Repair")
	if fn == nil {
		r.unk("PAR1NOPAR", "(*par1.Decoder).Repair", "", "function not found")
		return
	}
	parityFact := func(c Cmp, wantZero bool) bool {
		if c.Y == nil {
			return false
		}
		for _, pr := range []struct {
			x, y ssa.Value
			op   token.Token
		}{{c.X, c.Y, c.Op}, {c.Y, c.X, swapOp(c.Op)}} {
			z, isC := constInt(pr.y)
			if !isC {
				continue
			}
			x := stripAllConv(pr.x)
			isParity := strings.HasSuffix(deepPath(x).Path, ".shardByteCount")
			if lc := isBuiltinCall(x, "len"); lc != nil && strings.HasSuffix(deepPath(lc.Call.Args[0]).Path, ".parityData") {
				isParity = true
			}
			if !isParity {
				continue
			}
			if wantZero && pr.op == token.EQL && z == 0 {
				return true
			}
			if !wantZero && ((pr.op == token.NEQ && z == 0) || (pr.op == token.GTR && z >= 0) || (pr.op == token.GEQ && z >= 1)) {
				return true
			}
		}
		return false
	}
	n := 0
	for _, f := range region(fn) {
		for _, c := range callInstrs(f) {
			if staticCalleeShort(c.Common()) != "(*par1.Decoder).buildShards" {
				continue
			}
			n++
			key := fmt.Sprintf("%s:buildShards#%d", shortName(f), n-1)
			// the fact must hold at the call - or, when the call sits in a helper shared with
			// other entry points (VerifyAllData), at every call of that helper made from Repair
			holdsAt := func(in ssa.Instruction) bool {
				for _, cm := range w.factsAt(in) {
					if parityFact(cm, false) {
						return true
					}
				}
				return false
			}
			var judge func(in ssa.Instruction, depth int) bool
			judge = func(in ssa.Instruction, depth int) bool {
				if holdsAt(in) {
					return true
				}
				g := in.Parent()
				if g == fn || depth > 3 {
					return false
				}
				var sites []ssa.CallInstruction
				for _, cs := range w.callSites(g) {
					if cs.Parent() == fn || (cs.Parent() != g && inRegion(fn, cs.Parent()) && cs.Parent().Parent() == nil && len(w.callSites(cs.Parent())) > 0) {
						// only the calls that can come from Repair
						if cs.Parent() == fn || reachesOnlyFrom(w, cs.Parent(), fn) {
							sites = append(sites, cs)
						}
					}
				}
				if len(sites) == 0 {
					return false
				}
				for _, cs := range sites {
					if !judge(cs, depth+1) {
						return false
					}
				}
				return true
			}
			ok := judge(c, 0)
			if ok {
				r.ok("PAR1NOPAR", key, w.ipos(c), "shards are built only when a parity volume was loaded")
			} else {
				r.bad("PAR1NOPAR", key, w.ipos(c), "buildShards is reached also when no parity volume was loaded (shard size 0): its size check then fails with a generic error, so `par r` exits 7 where the property demands 2 (repair needed but not possible) - or fails although nothing needs repair")
			}
		}
	}
	r.floor("PAR1NOPAR", "buildShards calls in Repair", n, 1)
	// the no-parity path: a missing data file is reported with the classifier's error
	found := false
	for _, b := range fn.Blocks {
		ret, ok := b.Instrs[len(b.Instrs)-1].(*ssa.Return)
		if !ok || len(ret.Results) != 2 {
			continue
		}
		ld, ok := ret.Results[1].(*ssa.UnOp)
		if !ok {
			continue
		}
		g, ok := ld.X.(*ssa.Global)
		if !ok || g.Name() != "ErrTooFewShards" {
			continue
		}
		noParity, missing := false, false
		for _, cm := range cmpsAt(b) {
			if parityFact(cm, true) {
				noParity = true
			}
			if cm.Op == token.EQL && cm.Y != nil {
				for _, pr := range [][2]ssa.Value{{cm.X, cm.Y}, {cm.Y, cm.X}} {
					if isNilConst(pr[1]) && typeStr(pr[0].Type()) == "[]byte" {
						missing = true
					}
				}
			}
			// the same, said through the counts: d.FileCounts().RepairNeeded() is true exactly when a
			// data file is unusable (DECIDE checks that predicate and the counter's edges)
			if cm.Op == token.NEQ && cm.Y == nil {
				if rn, ok := stripAllConv(cm.X).(*ssa.Call); ok && staticCalleeShort(&rn.Call) == "(par1.FileCounts).RepairNeeded" && len(rn.Call.Args) == 1 {
					if fc, ok := stripAllConv(resolveSingle(rn.Call.Args[0])).(*ssa.Call); ok && staticCalleeShort(&fc.Call) == "(*par1.Decoder).FileCounts" {
						missing = true
					}
				}
			}
		}
		if noParity && missing {
			found = true
			r.ok("PAR1NOPAR", shortName(fn)+":no-parity-verdict", w.ipos(ret), "without parity volumes a missing data file returns reedsolomon.ErrTooFewShards")
		}
	}
	if !found {
		r.bad("PAR1NOPAR", shortName(fn)+":no-parity-verdict", w.pos(fn.Pos()), "no path returns reedsolomon.ErrTooFewShards for 'no parity volume loaded and a data file missing': that state is not classified as 'needed but not possible'")
	}
}

// ---------------------------------------------------------------------------
// ZERODIV: division by zero is refused before anything else

const ruleZERODIVText = "zero has no inverse, whatever the dividend: in gf2p16, every return of T.Div is dominated by the divisor having been found non-zero (the panic on u == 0 comes before the shortcut for a zero dividend), and every return of T.Inverse by t != 0 - directly, or through a call of a helper on that value all of whose returns are dominated by its non-zero test"

func ruleZERODIV(w *World, r *Report) {
	r.rule("ZERODIV", ruleZERODIVText)
	nonZeroAt := func(b *ssa.BasicBlock, v ssa.Value) bool {
		for _, c := range cmpsAt(b) {
			if c.Y == nil || c.Op != token.NEQ {
				continue
			}
			for _, pr := range [][2]ssa.Value{{c.X, c.Y}, {c.Y, c.X}} {
				if z, ok := constInt(pr[1]); ok && z == 0 && stripAllConv(pr[0]) == v {
					return true
				}
				if z, ok := constUint(pr[1]); ok && z == 0 && stripAllConv(pr[0]) == v {
					return true
				}
			}
		}
		return false
	}
	var guaranteed func(ret ssa.Instruction, v ssa.Value, depth int) bool
	guaranteed = func(ret ssa.Instruction, v ssa.Value, depth int) bool {
		if nonZeroAt(ret.Block(), v) {
			return true
		}
		if depth > 1 {
			return false
		}
		for _, c := range callInstrs(ret.Parent()) {
			g := c.Common().StaticCallee()
			if g == nil || len(g.Blocks) == 0 || !w.inModule(g) || !instrDominates(c, ret) {
				continue
			}
			for j, a := range c.Common().Args {
				if stripAllConv(a) != v || j >= len(g.Params) {
					continue
				}
				all, n := true, 0
				for _, gb := range g.Blocks {
					if gr, ok := gb.Instrs[len(gb.Instrs)-1].(*ssa.Return); ok {
						n++
						if !guaranteed(gr, g.Params[j], depth+1) {
							all = false
						}
					}
				}
				if all && n > 0 {
					return true
				}
			}
		}
		return false
	}
	n := 0
	for _, spec := range []struct {
		fn  string
		idx int
	}{{"(gf2p16.T).Div", 1}, {"(gf2p16.T).Inverse", 0}} {
		fn := w.Fn(spec.fn)
		if fn == nil || spec.idx >= len(fn.Params) {
			r.unk("ZERODIV", spec.fn, "", "function not found")
			continue
		}
		v := ssa.Value(fn.Params[spec.idx])
		k := 0
		for _, b := range fn.Blocks {
			ret, ok := b.Instrs[len(b.Instrs)-1].(*ssa.Return)
			if !ok {
				continue
			}
			key := fmt.Sprintf("%s:return#%d", spec.fn, k)
			k++
			n++
			if guaranteed(ret, v, 0) {
				r.ok("ZERODIV", key, w.ipos(ret), "returns only after "+fn.Params[spec.idx].Name()+" was found non-zero")
			} else {
				r.bad("ZERODIV", key, w.ipos(ret), spec.fn+" can return without "+fn.Params[spec.idx].Name()+" having been tested for zero: 0/0 (or the inverse of 0) yields a value instead of the panic, so a/b = a*inverse(b) fails for that pair")
			}
		}
	}
	r.floor("ZERODIV", "returns of Div and Inverse", n, 3)
}

// ---------------------------------------------------------------------------
// FIELDCROSS: like-named fields are copied to like-named fields

const ruleFIELDCROSSText = "no crossed fields: in par1 and par2, when a field f of a struct value is initialised from field g of another module struct and the destination struct has a field named g of the same type (g != f), the value goes to the wrong field - the signature of a positional composite literal that no longer matches the order of the struct's declaration (hash and sixteenKHash are both [16]byte, so the compiler cannot object)"

func ruleFIELDCROSS(w *World, r *Report) {
	r.rule("FIELDCROSS", ruleFIELDCROSSText)
	n, bad := 0, 0
	for _, fn := range w.funcsInPkgs("par1", "par2") {
		k := 0
		for _, b := range fn.Blocks {
			for _, in := range b.Instrs {
				st, ok := in.(*ssa.Store)
				if !ok {
					continue
				}
				fa, ok := st.Addr.(*ssa.FieldAddr)
				if !ok {
					continue
				}
				dstT := fa.X.Type()
				if p, ok := dstT.Underlying().(*types.Pointer); ok {
					dstT = p.Elem()
				}
				dst, ok := dstT.Underlying().(*types.Struct)
				if !ok || !isModTypeName(namedTypeName(dstT)) {
					continue
				}
				f := fieldName(fa.X.Type(), fa.Field)
				// source: a field of another struct
				var g string
				var gT types.Type
				switch x := stripConv(st.Val).(type) {
				case *ssa.UnOp:
					if sfa, ok := x.X.(*ssa.FieldAddr); ok && x.Op == token.MUL {
						g, gT = fieldName(sfa.X.Type(), sfa.Field), x.Type()
					}
				case *ssa.Field:
					g, gT = fieldName(x.X.Type(), x.Field), x.Type()
				}
				if g == "" {
					continue
				}
				n++
				if g == f {
					continue
				}
				for i := 0; i < dst.NumFields(); i++ {
					if dst.Field(i).Name() == g && types.Identical(dst.Field(i).Type(), gT) {
						bad++
						r.bad("FIELDCROSS", fmt.Sprintf("%s:%s<-%s#%d", shortName(fn), f, g, k), w.ipos(st), fmt.Sprintf("field %s of %s is initialised from a field named %s, although %s has its own field %s of the same type: the two are crossed (a positional literal that no longer matches the declaration order?)", f, namedTypeName(dstT), g, namedTypeName(dstT), g))
						k++
					}
				}
			}
		}
	}
	if bad == 0 {
		r.ok("FIELDCROSS", "all", "", fmt.Sprintf("%d field-to-field initialisations, none crossed", n))
	}
	r.floor("FIELDCROSS", "field-to-field initialisations", n, 5)
}

// ---------------------------------------------------------------------------
// OPTKEEP: the requested number of recovery blocks / volumes is what gets written

const ruleOPTKEEPText = "the caller's counts are kept: Encoder.volumeCount (par1) and Encoder.parityShardCount (par2) are stored only in the constructor, and with the constructor's parameter itself - not clamped to the number of files or slices (more recovery data than data is a legitimate request and the index records what was asked for)"

func ruleOPTKEEP(w *World, r *Report) {
	r.rule("OPTKEEP", ruleOPTKEEPText)
	n := 0
	for _, spec := range []struct{ pkg, field, ctor string }{{"par1", "volumeCount", "par1.newEncoder"}, {"par2", "parityShardCount", "par2.newEncoder"}} {
		for _, fn := range w.funcsInPkgs(spec.pkg) {
			k := 0
			for _, b := range fn.Blocks {
				for _, in := range b.Instrs {
					st, ok := in.(*ssa.Store)
					if !ok {
						continue
					}
					fa, ok := st.Addr.(*ssa.FieldAddr)
					if !ok || fieldName(fa.X.Type(), fa.Field) != spec.field || namedTypeName(fa.X.Type()) != spec.pkg+".Encoder" {
						continue
					}
					n++
					key := fmt.Sprintf("%s:store(%s)#%d", shortName(fn), spec.field, k)
					k++
					_, isParam := stripConv(st.Val).(*ssa.Parameter)
					switch {
					case shortName(fn) != spec.ctor:
						r.bad("OPTKEEP", key, w.ipos(st), fmt.Sprintf("Encoder.%s is changed after construction: fewer recovery blocks/volumes are written than were asked for", spec.field))
					case !isParam:
						r.bad("OPTKEEP", key, w.ipos(st), fmt.Sprintf("Encoder.%s is not set to the constructor's parameter as given (%s): the requested count is altered", spec.field, st.Val))
					default:
						r.ok("OPTKEEP", key, w.ipos(st), "set once, to the parameter as given")
					}
				}
			}
		}
	}
	r.floor("OPTKEEP", "stores of the requested counts", n, 2)
}

// ---------------------------------------------------------------------------
// GENORDER: the PAR2 constants stay in exponent order

const ruleGENORDERText = "the table of PAR2 constants keeps its order: in rsec16 the package-level generators slice is only appended to, indexed, measured and loaded - it is never handed to a function (sort.Slice would renumber the constants: slice i must get 2^(n_i) with n_i the i-th exponent coprime to 65535, not the i-th smallest value)"

func ruleGENORDER(w *World, r *Report) {
	r.rule("GENORDER", ruleGENORDERText)
	n := 0
	bad := ""
	for _, fn := range w.funcsInPkgs("rsec16") {
		for _, f := range withAnon(fn) {
			for _, b := range f.Blocks {
				for _, in := range b.Instrs {
					ld, ok := in.(*ssa.UnOp)
					if !ok || ld.Op != token.MUL {
						continue
					}
					g, ok := ld.X.(*ssa.Global)
					if !ok || g.Name() != "generators" {
						continue
					}
					n++
					for _, ref := range referrersOf(ld) {
						switch x := ref.(type) {
						case *ssa.IndexAddr, *ssa.Index, *ssa.Slice, *ssa.DebugRef, *ssa.Store, *ssa.Phi, *ssa.Lookup:
						case *ssa.Call:
							if isBuiltinCall(x, "len") != nil || isBuiltinCall(x, "cap") != nil || isBuiltinCall(x, "append") != nil {
								continue
							}
							bad = fmt.Sprintf("the table is passed to %s at %s", calleeName(&x.Call), w.ipos(x))
						case *ssa.MakeInterface:
							for _, r2 := range referrersOf(x) {
								if c, ok := r2.(*ssa.Call); ok {
									bad = fmt.Sprintf("the table is passed to %s at %s", calleeName(&c.Call), w.ipos(c))
								}
							}
						case *ssa.MakeClosure:
							bad = "the table is captured by a function literal at " + w.ipos(x)
						default:
							_ = x
						}
					}
				}
			}
		}
	}
	if bad != "" {
		r.bad("GENORDER", "rsec16.generators", "", bad+": its elements can be reordered, which renumbers the PAR2 constants")
	} else {
		r.ok("GENORDER", "rsec16.generators", "", fmt.Sprintf("%d uses: append, index, len only", n))
	}
	r.floor("GENORDER", "uses of the generators table", n, 2)
}

// ---------------------------------------------------------------------------
// GOPT: a goroutine count that reaches the coder is at least 1

const ruleGOPTText = "the goroutine option is normalised: in par2.create / verify / repair the count handed to newEncoder / newDecoder is, on every path that does not take the package default, bounded below by 1 (the option is replaced by the default when it is <= 0, not only when it is 0) - a negative count makes the coder's constructor panic"

func ruleGOPT(w *World, r *Report) {
	r.rule("GOPT", ruleGOPTText)
	rangeWorld = w
	n := 0
	for _, name := range []string{"par2.create", "par2.verify", "par2.repair"} {
		fn := w.Fn(name)
		if fn == nil {
			r.unk("GOPT", name, "", "function not found")
			continue
		}
		for _, f := range region(fn) {
			for _, c := range callInstrs(f) {
				cn := staticCalleeShort(c.Common())
				if cn != "par2.newEncoder" && cn != "par2.newDecoder" {
					continue
				}
				args := c.Common().Args
				count := args[len(args)-1]
				n++
				key := fmt.Sprintf("%s:%s:goroutines", name, cn)
				why := posProblem(w, count, c.Block(), 0, true)
				if why == "" {
					r.ok("GOPT", key, w.ipos(c), "the count is the package default or a value known to be >= 1")
				} else {
					r.bad("GOPT", key, w.ipos(c), why+": a zero or negative NumGoroutines option reaches the coder and panics there")
				}
			}
		}
	}
	r.floor("GOPT", "constructor calls in create/verify/repair", n, 3)
}

// ---------------------------------------------------------------------------
// SHARDTAB: the per-file slice table has one record per checksum pair

const ruleSHARDTABText = "one slice record per checksum pair: in (*par2.Decoder).LoadFileData the shardInfos table of a file is made with len(info.checksumPairs) elements - the expected locations that index it are derived from the positions of the checksum pairs, so a length computed from the declared file size can be too short for a well-checksummed but inconsistent index"

func ruleSHARDTAB(w *World, r *Report) {
	r.rule("SHARDTAB", ruleSHARDTABText)
	fn := w.Fn("(*par2.Decoder).LoadFileData")
	if fn == nil {
		r.unk("SHARDTAB", "(*par2.Decoder).LoadFileData", "", "function not found")
		return
	}
	n := 0
	for _, f := range region(fn) {
		for _, b := range f.Blocks {
			for _, in := range b.Instrs {
				st, ok := in.(*ssa.Store)
				if !ok {
					continue
				}
				fa, ok := st.Addr.(*ssa.FieldAddr)
				if !ok || fieldName(fa.X.Type(), fa.Field) != "shardInfos" {
					continue
				}
				mk, ok := stripConv(st.Val).(*ssa.MakeSlice)
				if !ok {
					continue
				}
				n++
				key := fmt.Sprintf("%s:shardInfos-make#%d", shortName(f), n-1)
				lc := isBuiltinCall(stripAllConv(mk.Len), "len")
				if lc != nil && strings.HasSuffix(deepPath(w.up(lc.Call.Args[0])).Path, ".checksumPairs") {
					r.ok("SHARDTAB", key, w.ipos(mk), "made with len(info.checksumPairs)")
				} else {
					r.bad("SHARDTAB", key, w.ipos(mk), "the slice table is not made with len(info.checksumPairs) elements ("+mk.Len.String()+"): the locations computed from the checksum pairs can index past it")
				}
			}
		}
	}
	r.floor("SHARDTAB", "shardInfos tables made", n, 1)
}

// ---------------------------------------------------------------------------
// SIZESENT: the parity shard size is fixed by the first volume that loads

const ruleSIZESENTText = "the shard size comes from the first volume found: in (*par1.Decoder).LoadParityData the assignment of a volume's byte count to shardByteCount is guarded by shardByteCount == 0 (nothing loaded yet), not by the volume's position - .p01 may be the one that is missing"

func ruleSIZESENT(w *World, r *Report) {
	r.rule("SIZESENT", ruleSIZESENTText)
	fn := w.Fn("(*par1.Decoder).LoadParityData")
	if fn == nil {
		r.unk("SIZESENT", "(*par1.Decoder).LoadParityData", "", "function not found")
		return
	}
	n := 0
	for _, f := range region(fn) {
		for _, b := range f.Blocks {
			for _, in := range b.Instrs {
				st, ok := in.(*ssa.Store)
				if !ok {
					continue
				}
				var cellName string
				switch a := st.Addr.(type) {
				case *ssa.FreeVar:
					cellName = a.Name()
				case *ssa.Alloc:
					cellName = a.Comment
				}
				if cellName != "shardByteCount" {
					continue
				}
				if _, isC := constInt(st.Val); isC {
					continue // the initial 0
				}
				n++
				key := fmt.Sprintf("%s:shardByteCount-set#%d", shortName(f), n-1)
				// the cell is still 0, or the value stored is the value it already has
				holds := func(cmps []Cmp) bool {
					for _, c := range cmps {
						if c.Op != token.EQL || c.Y == nil {
							continue
						}
						for _, pr := range [][2]ssa.Value{{c.X, c.Y}, {c.Y, c.X}} {
							z, isC := constInt(pr[1])
							ld, isLd := stripAllConv(pr[0]).(*ssa.UnOp)
							if !isLd || ld.Op != token.MUL || ld.X != st.Addr {
								continue
							}
							if isC && z == 0 {
								return true
							}
							if stripAllConv(pr[1]) == stripAllConv(st.Val) {
								return true
							}
						}
					}
					return false
				}
				good := holds(cmpsAt(b))
				if !good && len(b.Preds) > 1 {
					good = true
					for _, p := range b.Preds {
						cm := cmpsAt(p)
						if iff, ok := p.Instrs[len(p.Instrs)-1].(*ssa.If); ok && p.Succs[0] != p.Succs[1] {
							cm = append(cm, factCmps(Fact{iff.Cond, p.Succs[0] == b, iff})...)
						}
						if !holds(cm) {
							good = false
						}
					}
				}
				if good {
					r.ok("SIZESENT", key, w.ipos(st), "set only while it is still 0 (or to the value it already has)")
				} else {
					r.bad("SIZESENT", key, w.ipos(st), "shardByteCount is set on a condition other than 'still 0': when the first volume found is not the one the condition expects, every volume is rejected as mismatched")
				}
			}
		}
	}
	if n == 0 {
		// the shard size kept in an ordinary local (no closure captures it): it is an SSA value,
		// a web of phis ending in the store to d.shardByteCount. Every edge that brings a new value
		// into the web must be taken under "previous value == 0".
		for _, b := range fn.Blocks {
			for _, in := range b.Instrs {
				st, ok := in.(*ssa.Store)
				if !ok {
					continue
				}
				fa, ok := st.Addr.(*ssa.FieldAddr)
				if !ok || fieldName(fa.X.Type(), fa.Field) != "shardByteCount" {
					continue
				}
				web := map[*ssa.Phi]bool{}
				var collect func(v ssa.Value)
				collect = func(v ssa.Value) {
					if p, ok := stripAllConv(v).(*ssa.Phi); ok && !web[p] && len(web) < 16 {
						web[p] = true
						for _, e := range p.Edges {
							collect(e)
						}
					}
				}
				collect(st.Val)
				for p := range web {
					for i, e := range p.Edges {
						ev := stripAllConv(e)
						if q, isPhi := ev.(*ssa.Phi); isPhi && web[q] {
							continue
						}
						if c, isC := constInt(ev); isC && c == 0 {
							continue
						}
						n++
						key := fmt.Sprintf("%s:shardByteCount-set#%d", shortName(fn), n-1)
						pred := p.Block().Preds[i]
						cm := cmpsAt(pred)
						if iff, ok := pred.Instrs[len(pred.Instrs)-1].(*ssa.If); ok && pred.Succs[0] != pred.Succs[1] {
							cm = append(cm, factCmps(Fact{iff.Cond, pred.Succs[0] == p.Block(), iff})...)
						}
						good := false
						for _, c := range cm {
							if c.Op != token.EQL || c.Y == nil {
								continue
							}
							for _, pr := range [][2]ssa.Value{{c.X, c.Y}, {c.Y, c.X}} {
								z, isC := constInt(pr[1])
								q, isPhi := stripAllConv(pr[0]).(*ssa.Phi)
								if isC && z == 0 && isPhi && web[q] {
									good = true
								}
								if isPhi && web[q] && stripAllConv(pr[1]) == ev {
									good = true
								}
							}
						}
						if good {
							r.ok("SIZESENT", key, w.ipos(pred.Instrs[len(pred.Instrs)-1]), "set only while it is still 0 (or to the value it already has)")
						} else {
							r.bad("SIZESENT", key, w.ipos(pred.Instrs[len(pred.Instrs)-1]), "shardByteCount is set on a condition other than 'still 0': when the first volume found is not the one the condition expects, every volume is rejected as mismatched")
						}
					}
				}
			}
		}
	}
	r.floor("SIZESENT", "assignments of the shard size", n, 1)
}

// ---------------------------------------------------------------------------
// PATHORDER: the list of input paths is not reordered by how the paths are spelled

const rulePATHORDERText = "inputs keep their order: in par1.create / par2.create (and their private helpers) the list of data-file paths is not handed to a sort function - an order derived from the spelling of the paths (./b.dat sorts before a.dat) makes the volume set depend on how the same files were named on the command line"

func rulePATHORDER(w *World, r *Report) {
	r.rule("PATHORDER", rulePATHORDERText)
	n := 0
	for _, name := range []string{"par1.create", "par2.create"} {
		fn := w.Fn(name)
		if fn == nil || len(fn.Params) < 3 {
			r.unk("PATHORDER", name, "", "function not found")
			continue
		}
		n++
		paths := ssa.Value(fn.Params[2])
		bad := ""
		for _, f := range region(fn) {
			for _, c := range callInstrs(f) {
				cn := calleeName(c.Common())
				if !strings.HasPrefix(cn, "sort.") && !strings.HasPrefix(cn, "slices.Sort") {
					continue
				}
				if len(c.Common().Args) == 0 {
					continue
				}
				dep := false
				backSlice(c.Common().Args[0], func(v ssa.Value) bool {
					if w.up(v) == paths || v == paths {
						dep = true
					}
					return !dep
				})
				if dep {
					bad = cn + " at " + w.ipos(c)
				}
			}
		}
		if bad != "" {
			r.bad("PATHORDER", name, w.pos(fn.Pos()), "the input path list (or a copy of it) is sorted by "+bad+": the order of the entries, and with it every hash and parity byte, depends on the spelling of the paths")
		} else {
			r.ok("PATHORDER", name, w.pos(fn.Pos()), "the input path list is not sorted")
		}
	}
	r.floor("PATHORDER", "create functions", n, 2)
}

// ---------------------------------------------------------------------------
// ALLOCBOUND: nothing is allocated from a declared file length before it has been checked

const ruleALLOCBOUNDText = "no allocation from an unchecked declared length: in the Repair methods of par1 and par2 a make whose length or capacity depends on an entry's declared size (byteCount / FileBytes) is dominated by a comparison of that size with the length of data actually held (the reconstructed slices or the shard) - a well-checksummed description packet can declare 2^62 bytes"

func ruleALLOCBOUND(w *World, r *Report) {
	r.rule("ALLOCBOUND", ruleALLOCBOUNDText)
	n := 0
	isSize := func(v ssa.Value) bool {
		p := resolvedPath(stripAllConv(v)).Path
		return strings.HasSuffix(p, ".byteCount") || strings.HasSuffix(p, ".FileBytes")
	}
	for _, name := range []string{"(*par1.Decoder).Repair", "(*par2.Decoder).Repair"} {
		fn := w.Fn(name)
		if fn == nil {
			r.unk("ALLOCBOUND", name, "", "function not found")
			continue
		}
		n++
		k := 0
		for _, f := range region(fn) {
			for _, b := range f.Blocks {
				for _, in := range b.Instrs {
					var mk ssa.Instruction
					var opnds []ssa.Value
					switch x := in.(type) {
					case *ssa.MakeSlice:
						mk, opnds = x, []ssa.Value{x.Len, x.Cap}
					case *ssa.Call:
						// (*bytes.Buffer).Grow(n), slices.Grow(s, n), strings.Builder.Grow(n): allocations too
						cn := calleeName(&x.Call)
						if strings.HasSuffix(cn, ".Grow") && len(x.Call.Args) > 0 {
							mk, opnds = x, []ssa.Value{x.Call.Args[len(x.Call.Args)-1]}
						}
					}
					if mk == nil {
						continue
					}
					var size ssa.Value
					for _, opnd := range opnds {
						backSlice(opnd, func(v ssa.Value) bool {
							if isSize(v) {
								size = v
							}
							return size == nil
						})
					}
					if size == nil {
						continue
					}
					key := fmt.Sprintf("%s:make#%d", shortName(f), k)
					k++
					guarded := false
					for _, c := range w.factsAt(mk) {
						if c.Y == nil {
							continue
						}
						for _, pr := range [][2]ssa.Value{{c.X, c.Y}, {c.Y, c.X}} {
							if isSize(pr[0]) && isBuiltinCall(stripAllConv(pr[1]), "len") != nil {
								guarded = true
							}
						}
					}
					if guarded {
						r.ok("ALLOCBOUND", key, w.ipos(mk), "allocation after the declared size was compared with the data held")
					} else {
						r.bad("ALLOCBOUND", key, w.ipos(mk), "a buffer is allocated from the declared size "+size.Name()+" before that size has been compared with the data actually present: a description packet declaring an enormous length makes Repair panic (makeslice) or reserve memory out of proportion")
					}
				}
			}
		}
	}
	r.floor("ALLOCBOUND", "Repair methods examined", n, 2)
}

// ---------------------------------------------------------------------------
// SCANALL: the slice search looks at every offset of the file

const ruleSCANALLText = "the slice search covers the whole file: in par2.fillShardInfos the loop that looks slices up in the checksum map (checksumShardLocationMap.get) is left only on the edge where the scan position has reached len(data) - no break, return or extra loop condition ends the scan while bytes remain, because a slice (the zero-padded last one in particular) can sit at any offset of a file whose content was shifted, and a slice not looked for is counted as unusable"

func ruleSCANALL(w *World, r *Report) {
	r.rule("SCANALL", ruleSCANALLText)
	fn := w.Fn("par2.fillShardInfos")
	if fn == nil || len(fn.Params) < 2 {
		r.unk("SCANALL", "fillShardInfos", "", "function not found")
		return
	}
	data := ssa.Value(fn.Params[1])
	n := 0
	for _, f := range region(fn) {
		for _, c := range callInstrs(f) {
			if staticCalleeShort(c.Common()) != "(par2.checksumShardLocationMap).get" {
				continue
			}
			// lift the lookup to its call site in fillShardInfos
			var site ssa.Instruction = c
			for d := 0; d < 4 && site != nil && site.Parent() != fn; d++ {
				g := site.Parent()
				if g.Parent() != nil {
					// function literal: continue at the place it is made
					var next ssa.Instruction
					for _, b := range g.Parent().Blocks {
						for _, in := range b.Instrs {
							if mc, ok := in.(*ssa.MakeClosure); ok && mc.Fn == g {
								next = mc
							}
						}
					}
					site = next
					continue
				}
				if u := w.uniqueSite(g); u != nil {
					site = u
				} else {
					site = nil
				}
			}
			if site == nil || site.Parent() != fn {
				r.unk("SCANALL", "fillShardInfos:lookup", w.ipos(c), "the lookup is not made from one place in fillShardInfos")
				continue
			}
			n++
			key := fmt.Sprintf("fillShardInfos:scan-loop#%d", n-1)
			loops := naturalLoops(fn)
			// outermost loop containing the lookup
			var scan *natLoop
			for _, l := range loops {
				if l.body[site.Block()] && (scan == nil || len(l.body) > len(scan.body)) {
					scan = l
				}
			}
			if scan == nil {
				r.bad("SCANALL", key, w.ipos(site), "the lookup of slices in the checksum map is not inside a loop over the offsets of the file")
				continue
			}
			isLenData := func(v ssa.Value) bool {
				v = stripAllConv(v)
				call, ok := v.(*ssa.Call)
				if !ok {
					return false
				}
				b, ok := call.Call.Value.(*ssa.Builtin)
				if !ok || b.Name() != "len" || len(call.Call.Args) != 1 {
					return false
				}
				a := call.Call.Args[0]
				return a == data || w.up(a) == data
			}
			inLoopPhi := func(v ssa.Value) bool {
				v = stripAllConv(v)
				p, ok := v.(*ssa.Phi)
				return ok && scan.body[p.Block()]
			}
			bad := ""
			exits := 0
			for b := range scan.body {
				last := b.Instrs[len(b.Instrs)-1]
				switch t := last.(type) {
				case *ssa.Return:
					bad = "return at " + w.ipos(t)
					continue
				case *ssa.Panic:
					continue
				}
				for i, s := range b.Succs {
					if scan.body[s] {
						continue
					}
					if endsInPanic(s) {
						continue // an abort is not an end of the scan
					}
					exits++
					iff, ok := last.(*ssa.If)
					if !ok {
						bad = "jump out of the loop at " + w.ipos(last)
						continue
					}
					okEdge := false
					for _, cm := range factCmps(Fact{iff.Cond, i == 0, iff}) {
						if cm.Y == nil {
							continue
						}
						x, y, op := cm.X, cm.Y, cm.Op
						if isLenData(x) && inLoopPhi(y) {
							x, y, op = y, x, swapOp(op)
						}
						if inLoopPhi(x) && isLenData(y) && (op == token.GEQ || op == token.EQL) {
							okEdge = true
						}
					}
					if !okEdge {
						bad = "exit at " + w.ipos(last)
					}
				}
			}
			if bad != "" {
				r.bad("SCANALL", key, w.ipos(site), "the scan can stop before the position has reached len(data) ("+bad+"): slices that sit in the rest of the file are never looked for and are counted as unusable")
			} else if exits == 0 {
				r.unk("SCANALL", key, w.ipos(site), "no exit of the scan loop found")
			} else {
				r.ok("SCANALL", key, w.ipos(site), fmt.Sprintf("all %d exits of the scan loop are taken with position >= len(data)", exits))
			}
		}
	}
	r.floor("SCANALL", "checksum-map lookups in fillShardInfos", n, 1)
}

// posProblem explains why integer v, used in block at, is not known to be >= 1 ("" if it is).
// Phis are judged per incoming edge with the facts of that edge; calls of module functions by
// their returns; runtime.GOMAXPROCS(0)/NumCPU() are >= 1 by their documentation. With
// trustDefault the package default of the goroutine count is taken as given (DEFPOS decides it).
func posProblem(w *World, v ssa.Value, at *ssa.BasicBlock, depth int, trustDefault bool) string {
	if depth > 5 {
		return fmt.Sprintf("the count %s could not be followed further", v)
	}
	v = stripAllConv(v)
	newRC := func() *rangeCtx { return &rangeCtx{memo: map[ssa.Value]*ival{}, busy: map[ssa.Value]bool{}} }
	known := func(iv *ival) bool {
		return iv != nil && iv.lo.IsInt64() && iv.lo.Int64() >= 1 || iv != nil && !iv.lo.IsInt64() && iv.lo.Sign() > 0
	}
	switch x := v.(type) {
	case *ssa.Phi:
		for i, e := range x.Edges {
			if i >= len(x.Block().Preds) {
				continue
			}
			pred := x.Block().Preds[i]
			ev := stripAllConv(e)
			switch ev.(type) {
			case *ssa.Call, *ssa.Phi:
				// the edge facts may still decide it
				iv := newRC().eval(ev, pred)
				if iff, ok := pred.Instrs[len(pred.Instrs)-1].(*ssa.If); ok && pred.Succs[0] != pred.Succs[1] {
					iv = refineByFacts(ev, iv, factCmps(Fact{iff.Cond, pred.Succs[0] == x.Block(), iff}))
				}
				if known(iv) {
					continue
				}
				if why := posProblem(w, ev, pred, depth+1, trustDefault); why != "" {
					return why
				}
				continue
			}
			iv := newRC().eval(ev, pred)
			if iff, ok := pred.Instrs[len(pred.Instrs)-1].(*ssa.If); ok && pred.Succs[0] != pred.Succs[1] {
				iv = refineByFacts(ev, iv, factCmps(Fact{iff.Cond, pred.Succs[0] == x.Block(), iff}))
			}
			if !known(iv) {
				return fmt.Sprintf("on the path through %s the count %s is not known to be >= 1", w.ipos(pred.Instrs[len(pred.Instrs)-1]), describeVal(ev))
			}
		}
		return ""
	case *ssa.Call:
		if known(newRC().eval(x, at)) {
			return ""
		}
		g := x.Call.StaticCallee()
		if g == nil {
			return "the count comes from an unknown call"
		}
		switch shortName(g) {
		case "runtime.GOMAXPROCS", "runtime.NumCPU":
			return ""
		case "par2.NumGoroutinesDefault", "rsec16.DefaultNumGoroutines":
			if trustDefault {
				return "" // the package default
			}
		}
		if len(g.Blocks) == 0 || !w.inModule(g) {
			return "the count comes from " + shortName(g)
		}
		for _, gb := range g.Blocks {
			if ret, ok := gb.Instrs[len(gb.Instrs)-1].(*ssa.Return); ok && len(ret.Results) == 1 {
				if why := posProblem(w, ret.Results[0], gb, depth+1, trustDefault); why != "" {
					return fmt.Sprintf("%s (returned by %s at %s)", why, shortName(g), w.ipos(ret))
				}
			}
		}
		return ""
	}
	if known(newRC().eval(v, at)) {
		return ""
	}
	// a field of a local options struct normalised in place: `if o.f <= 0 { o.f = V }` before the use
	if ld, ok := v.(*ssa.UnOp); ok && ld.Op == token.MUL {
		if fa, ok := ld.X.(*ssa.FieldAddr); ok {
			if cell, ok := fa.X.(*ssa.Alloc); ok && normalisedInPlace(w, cell, fa.Field, ld, depth, trustDefault) {
				return ""
			}
		}
	}
	// a field of an options struct that a module function returned after normalising it:
	// `o := options.withDefaults()` ... o.NumGoroutines
	if ld, ok := v.(*ssa.UnOp); ok && ld.Op == token.MUL {
		if fa, ok := ld.X.(*ssa.FieldAddr); ok {
			if cell, ok := fa.X.(*ssa.Alloc); ok {
				// the whole-struct store that reaches this load: all stores to the cell dominate the
				// load (so they are ordered) and the field is not stored separately; the last one counts
				var vals []ssa.Value
				var last *ssa.Store
				ordered := true
				for _, ref := range referrersOf(cell) {
					switch x := ref.(type) {
					case *ssa.Store:
						if x.Addr != ssa.Value(cell) {
							continue
						}
						if !instrDominates(x, ld) {
							ordered = false
						}
						if last == nil || instrDominates(last, x) {
							last = x
						}
					case *ssa.FieldAddr:
						if x.Field == fa.Field {
							for _, r2 := range referrersOf(x) {
								if _, isSt := r2.(*ssa.Store); isSt {
									ordered = false
								}
							}
						}
					}
				}
				if ordered && last != nil {
					vals = []ssa.Value{last.Val}
				}
				if len(vals) == 1 {
					if c, ok := vals[0].(*ssa.Call); ok {
						if g := c.Call.StaticCallee(); g != nil && w.inModule(g) && len(g.Blocks) > 0 && fieldNormalised(w, g, fa.Field, depth, trustDefault) {
							return ""
						}
					}
				}
			}
		}
	}
	if fl, ok := v.(*ssa.Field); ok {
		if c, ok := fl.X.(*ssa.Call); ok {
			if g := c.Call.StaticCallee(); g != nil && w.inModule(g) && len(g.Blocks) > 0 && fieldNormalised(w, g, fl.Field, depth, trustDefault) {
				return ""
			}
		}
	}
	if p, ok := v.(*ssa.Parameter); ok && p.Parent() != nil && p.Parent().Object() != nil && !p.Parent().Object().Exported() {
		// a parameter of a private function is what its call sites pass
		idx := -1
		for i, q := range p.Parent().Params {
			if q == p {
				idx = i
			}
		}
		sites := w.callSites(p.Parent())
		if idx >= 0 && len(sites) > 0 {
			for _, site := range sites {
				args := site.Common().Args
				if idx >= len(args) {
					return fmt.Sprintf("the count %s is not known to be >= 1", describeVal(v))
				}
				if why := posProblem(w, args[idx], site.Block(), depth+1, trustDefault); why != "" {
					return why
				}
			}
			return ""
		}
	}
	return fmt.Sprintf("the count %s is not known to be >= 1", describeVal(v))
}

// ---------------------------------------------------------------------------
// DEFPOS: the default goroutine count is a goroutine count

const ruleDEFPOSText = "the default worker count is a worker count: every value rsec16.DefaultNumGoroutines (and par2.NumGoroutinesDefault) can return is >= 1 - runtime.GOMAXPROCS(0) is, but a core count reported by the cpuid package is 0 when it cannot be detected (every GOARCH other than amd64/386/arm64, x86 CPUs of other vendors), so it may lower the count only where it was found positive; a default of 0 makes the coder's constructor panic for every PAR2 create, verify and repair that leaves the option alone"

func ruleDEFPOS(w *World, r *Report) {
	r.rule("DEFPOS", ruleDEFPOSText)
	rangeWorld = w
	n := 0
	for _, name := range []string{"rsec16.DefaultNumGoroutines", "par2.NumGoroutinesDefault"} {
		fn := w.Fn(name)
		if fn == nil {
			r.unk("DEFPOS", name, "", "function not found")
			continue
		}
		k := 0
		for _, b := range fn.Blocks {
			ret, ok := b.Instrs[len(b.Instrs)-1].(*ssa.Return)
			if !ok || len(ret.Results) != 1 {
				continue
			}
			n++
			key := fmt.Sprintf("%s:return#%d", name, k)
			k++
			if c, ok := stripAllConv(ret.Results[0]).(*ssa.Call); ok && c.Call.StaticCallee() != nil && shortName(c.Call.StaticCallee()) == "rsec16.DefaultNumGoroutines" && name != "rsec16.DefaultNumGoroutines" {
				r.ok("DEFPOS", key, w.ipos(ret), "forwards rsec16.DefaultNumGoroutines")
				continue
			}
			if why := posProblem(w, ret.Results[0], b, 0, false); why != "" {
				r.bad("DEFPOS", key, w.ipos(ret), why+": the default goroutine count can be 0, and the coder's constructor panics on it")
			} else {
				r.ok("DEFPOS", key, w.ipos(ret), "every value returned is >= 1")
			}
		}
	}
	r.floor("DEFPOS", "returns of the default-count functions", n, 2)
}

// fieldNormalised: g returns a struct (a parameter or receiver it copied) whose integer field
// number `field` is >= 1 at every return: g contains `if s.f <= 0 { s.f = V }` (or `< 1`) with V
// known >= 1, that If dominates every return, and nothing else in g stores to the field.
func fieldNormalised(w *World, g *ssa.Function, field int, depth int, trustDefault bool) bool {
	var rets []*ssa.Return
	for _, b := range g.Blocks {
		if ret, ok := b.Instrs[len(b.Instrs)-1].(*ssa.Return); ok {
			rets = append(rets, ret)
		}
	}
	if len(rets) == 0 {
		return false
	}
	// the struct returned: a load of one local cell in every return
	var cell *ssa.Alloc
	for _, ret := range rets {
		if len(ret.Results) < 1 {
			return false
		}
		ld, ok := ret.Results[0].(*ssa.UnOp)
		if !ok || ld.Op != token.MUL {
			return false
		}
		a, ok := ld.X.(*ssa.Alloc)
		if !ok || (cell != nil && a != cell) {
			return false
		}
		cell = a
	}
	var stores []*ssa.Store
	for _, b := range g.Blocks {
		for _, in := range b.Instrs {
			st, ok := in.(*ssa.Store)
			if !ok {
				continue
			}
			if fa, ok := st.Addr.(*ssa.FieldAddr); ok && fa.X == ssa.Value(cell) && fa.Field == field {
				stores = append(stores, st)
			}
		}
	}
	if len(stores) != 1 {
		return false
	}
	st := stores[0]
	if posProblem(w, st.Val, st.Block(), depth+1, trustDefault) != "" {
		return false
	}
	// the store sits on the edge `field <= 0` (or `< 1`) of an If that dominates every return
	for _, f := range domFacts(st.Block()) {
		for _, cm := range factCmps(f) {
			if cm.Y == nil {
				continue
			}
			ld, ok := stripAllConv(cm.X).(*ssa.UnOp)
			if !ok || ld.Op != token.MUL {
				continue
			}
			fa, ok := ld.X.(*ssa.FieldAddr)
			if !ok || fa.X != ssa.Value(cell) || fa.Field != field {
				continue
			}
			k, isC := constInt(cm.Y)
			if !isC || !((cm.Op == token.LEQ && k == 0) || (cm.Op == token.LSS && k == 1)) {
				continue
			}
			all := true
			for _, ret := range rets {
				if !instrDominates(f.If, ret) {
					all = false
				}
			}
			if all {
				return true
			}
		}
	}
	return false
}

// endsInPanic: from block b every path runs, without branching, into a panic.
func endsInPanic(b *ssa.BasicBlock) bool {
	for k := 0; k < 4; k++ {
		if len(b.Instrs) == 0 {
			return false
		}
		if _, ok := b.Instrs[len(b.Instrs)-1].(*ssa.Panic); ok {
			return true
		}
		if len(b.Succs) != 1 {
			return false
		}
		b = b.Succs[0]
	}
	return false
}

// normalisedInPlace: field `field` of the local struct cell is >= 1 at instruction use: the only
// store to that field has a value known >= 1 and sits on the `field <= 0` (or `< 1`) edge of an If
// that dominates use, and every store of a whole struct into the cell comes before that If.
func normalisedInPlace(w *World, cell *ssa.Alloc, field int, use ssa.Instruction, depth int, trustDefault bool) bool {
	var stores []*ssa.Store
	var whole []*ssa.Store
	for _, ref := range referrersOf(cell) {
		switch x := ref.(type) {
		case *ssa.FieldAddr:
			if x.Field != field {
				continue
			}
			for _, r2 := range referrersOf(x) {
				if st, ok := r2.(*ssa.Store); ok && st.Addr == ssa.Value(x) {
					stores = append(stores, st)
				}
			}
		case *ssa.Store:
			if x.Addr == ssa.Value(cell) {
				whole = append(whole, x)
			}
		}
	}
	if len(stores) != 1 {
		return false
	}
	st := stores[0]
	if posProblem(w, st.Val, st.Block(), depth+1, trustDefault) != "" {
		return false
	}
	for _, f := range domFacts(st.Block()) {
		for _, cm := range factCmps(f) {
			if cm.Y == nil {
				continue
			}
			ld, ok := stripAllConv(cm.X).(*ssa.UnOp)
			if !ok || ld.Op != token.MUL {
				continue
			}
			fa, ok := ld.X.(*ssa.FieldAddr)
			if !ok || fa.X != ssa.Value(cell) || fa.Field != field {
				continue
			}
			k, isC := constInt(cm.Y)
			if !isC || !((cm.Op == token.LEQ && k == 0) || (cm.Op == token.LSS && k == 1)) {
				continue
			}
			if !instrDominates(f.If, use) {
				continue
			}
			okWhole := true
			for _, ws := range whole {
				if !instrDominates(ws, f.If) {
					okWhole = false
				}
			}
			if okWhole {
				return true
			}
		}
	}
	return false
}

// reachesOnlyFrom: every call site of private function g is in fn or in a function for which the
// same holds (g is a helper of fn alone).
func reachesOnlyFrom(w *World, g, fn *ssa.Function) bool {
	seen := map[*ssa.Function]bool{}
	var rec func(g *ssa.Function, d int) bool
	rec = func(g *ssa.Function, d int) bool {
		if g == fn {
			return true
		}
		if seen[g] || d > 4 {
			return false
		}
		seen[g] = true
		cs := w.callSites(g)
		if len(cs) == 0 {
			return false
		}
		for _, c := range cs {
			if !rec(c.Parent(), d+1) {
				return false
			}
		}
		return true
	}
	return rec(g, 0)
}
