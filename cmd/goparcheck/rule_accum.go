package main

import (
	"fmt"
	"go/token"
	"strings"

	"golang.org/x/tools/go/ssa"
)

// ---------------------------------------------------------------------------
// ACCUM: accumulated lookup state is added to, never replaced or skipped.

const ruleACCUMText = "accumulating maps: (A-put) checksumShardLocationMap.put adds the location to the set on every path (the update of set[location] dominates the return) and installs a fresh inner map/set only on the 'absent' edge of a lookup of the same map and key - an unconditional install forgets the locations recorded before; (A-credit) in fillShardInfos every iteration of the loop over the locations found for a slice reaches the update of that slice record's locations set (the update dominates every back-edge of the loop), whether or not the record already had data - otherwise a slice content that occurs at several expected places is credited to only one of them and intact files look damaged"

func ruleACCUM(w *World, r *Report) {
	r.rule("ACCUM", ruleACCUMText)
	// A-put
	if fn := w.Fn("(par2.checksumShardLocationMap).put"); fn != nil && len(fn.Params) == 4 {
		loc := fn.Params[3]
		var upd *ssa.MapUpdate
		nFresh := 0
		var putBlocks []*ssa.BasicBlock
		for _, rf := range region(fn) {
			putBlocks = append(putBlocks, rf.Blocks...)
		}
		for _, b := range putBlocks {
			for _, in := range b.Instrs {
				mu, ok := in.(*ssa.MapUpdate)
				if !ok {
					continue
				}
				if upTo(w, fn, mu.Key) == ssa.Value(loc) {
					upd = mu
					continue
				}
				// installing a map value
				if _, isMk := mu.Value.(*ssa.MakeMap); !isMk {
					if _, isMap := mu.Value.Type().Underlying().(interface{ Key() }); !isMap {
						continue
					}
				}
				nFresh++
				key := fmt.Sprintf("A-put:install#%d", nFresh-1)
				okAbsent := false
				for _, f := range domFacts(b) {
					ex, isEx := f.Cond.(*ssa.Extract)
					if !isEx || ex.Index != 1 || f.Truth {
						continue
					}
					if lk, isLk := ex.Tuple.(*ssa.Lookup); isLk && lk.CommaOk && stripConv(lk.X) == stripConv(mu.Map) && stripConv(lk.Index) == stripConv(mu.Key) {
						okAbsent = true
					}
				}
				if okAbsent {
					r.ok("ACCUM", key, w.ipos(mu), "fresh map installed only when the key was absent")
				} else {
					r.bad("ACCUM", key, w.ipos(mu), "a fresh map/set is stored under a key without a dominating 'absent' result of looking that key up: locations recorded earlier for the same checksum are forgotten")
				}
			}
		}
		if upd == nil {
			r.bad("ACCUM", "A-put:add", w.pos(fn.Pos()), "put does not add the location to a looked-up set (no set[location] = true)")
		} else {
			// on every path to the return: in put itself, or in a private helper whose (only) call
			// in turn lies on every path to put's return
			okDom := true
			var at ssa.Instruction = upd
			for d := 0; d < 4 && okDom; d++ {
				f := at.Parent()
				for _, b := range f.Blocks {
					if len(b.Instrs) == 0 {
						continue
					}
					if _, isRet := b.Instrs[len(b.Instrs)-1].(*ssa.Return); isRet && !at.Block().Dominates(b) {
						okDom = false
					}
				}
				if f == fn {
					break
				}
				site := w.uniqueSite(f)
				if site == nil {
					okDom = false
					break
				}
				at = site
			}
			if okDom {
				r.ok("ACCUM", "A-put:add", w.ipos(upd), "set[location] = true is executed on every path to the return")
			} else {
				r.bad("ACCUM", "A-put:add", w.ipos(upd), "put can return without adding the location to the set")
			}
		}
		r.floor("ACCUM", "fresh-map installs in put", nFresh, 2)
	} else {
		r.unk("ACCUM", "A-put", "-", "checksumShardLocationMap.put(crc32, md5, location) not found")
	}
	// A-all: every checksum pair of every file is registered
	if mk := w.Fn("par2.makeChecksumShardLocationMap"); mk != nil {
		nput := 0
		for _, rf := range region(mk) {
			loops := naturalLoops(rf)
			for _, c := range callsIn(rf, "(par2.checksumShardLocationMap).put") {
				if c.Parent() != rf {
					continue
				}
				nput++
				bad := ""
				// the innermost loop around the call is the one over the checksum pairs
				inner := innermostLoop(loops, c.Block())
				for _, l := range loops {
					if l != inner {
						continue
					}
					for _, p := range l.head.Preds {
						if l.body[p] && !c.Block().Dominates(p) {
							bad = w.ipos(p.Instrs[len(p.Instrs)-1])
						}
					}
				}
				if bad == "" {
					r.ok("ACCUM", "A-all:put", w.ipos(c), "every iteration over the checksum pairs registers its location")
				} else {
					r.bad("ACCUM", "A-all:put", w.ipos(c), "an iteration over the checksum pairs can go on (back-edge at "+bad+") without registering the slice's location: that slice can never be found, so an intact file is reported damaged")
				}
			}
		}
		r.floor("ACCUM", "put calls in makeChecksumShardLocationMap", nput, 1)
	} else {
		r.unk("ACCUM", "A-all", "-", "makeChecksumShardLocationMap not found")
	}
	// A-credit
	fn := w.Fn("par2.fillShardInfos")
	if fn == nil {
		r.unk("ACCUM", "A-credit", "-", "fillShardInfos not found")
		return
	}
	n := 0
	for _, b := range fn.Blocks {
		for _, in := range b.Instrs {
			rg, ok := in.(*ssa.Range)
			if !ok || callOf(rg.X, "(par2.checksumShardLocationMap).get") == nil {
				continue
			}
			n++
			var hdr *ssa.BasicBlock
			for _, ref := range referrersOf(rg) {
				if nx, ok := ref.(*ssa.Next); ok {
					hdr = nx.Block()
				}
			}
			if hdr == nil {
				r.unk("ACCUM", "A-credit:loop", w.ipos(rg), "loop header not found")
				continue
			}
			var upd ssa.Instruction
			for _, b2 := range fn.Blocks {
				if !hdr.Dominates(b2) {
					continue
				}
				for _, in2 := range b2.Instrs {
					if mu, ok := in2.(*ssa.MapUpdate); ok && strings.HasSuffix(deepPathNoResolve(mu.Map), ".locations") {
						upd = mu
					}
					// or a call of a private helper every return of which has made that update
					if c, ok := in2.(*ssa.Call); ok {
						if g := c.Call.StaticCallee(); g != nil && g != fn && inRegion(fn, g) && len(g.Blocks) > 0 {
							all := true
							nret := 0
							for _, gb := range g.Blocks {
								ret, ok := gb.Instrs[len(gb.Instrs)-1].(*ssa.Return)
								if !ok {
									continue
								}
								nret++
								dom := false
								for _, gb2 := range g.Blocks {
									for _, gi := range gb2.Instrs {
										if mu, ok := gi.(*ssa.MapUpdate); ok && strings.HasSuffix(deepPathNoResolve(mu.Map), ".locations") && instrDominates(mu, ret) {
											dom = true
										}
									}
								}
								if !dom {
									all = false
								}
							}
							if all && nret > 0 {
								upd = c
							}
						}
					}
				}
			}
			if upd == nil {
				r.bad("ACCUM", "A-credit:update", w.ipos(rg), "the loop over the locations found for a slice never adds the current position to a record's locations set")
				continue
			}
			bad := ""
			for _, p := range hdr.Preds {
				if hdr.Dominates(p) && !upd.Block().Dominates(p) {
					bad = w.ipos(p.Instrs[len(p.Instrs)-1])
				}
			}
			if bad == "" {
				r.ok("ACCUM", "A-credit:update", w.ipos(upd), "every iteration over the found locations adds the current position to the record's locations set")
			} else {
				r.bad("ACCUM", "A-credit:update", w.ipos(upd), "an iteration can go on to the next found location (back-edge at "+bad+") without crediting the current position: a record that already has data is not told that its content was also seen here")
			}
		}
	}
	r.floor("ACCUM", "loops over checksumToLocation.get results in fillShardInfos", n, 1)
}

func deepPathNoResolve(v ssa.Value) string { return valuePath(v).Path }

// ---------------------------------------------------------------------------
// COPYLEN: whole-row copies in the matrix code.

const ruleCOPYLENText = "copy() silently truncates to the shorter operand: in package gf2p16 (matrix rows, element arrays) every copy(dst, src) must have provably equal lengths - dst allocated with len(src), or both operands row views of the same matrix - because a scratch row sized for one matrix and used for a wider one moves only part of the row"

func ruleCOPYLEN(w *World, r *Report) {
	r.rule("COPYLEN", ruleCOPYLENText)
	n := 0
	for _, fn := range w.funcsInPkgs("gf2p16") {
		k := 0
		for _, c := range callInstrs(fn) {
			bc, ok := c.Common().Value.(*ssa.Builtin)
			if !ok || bc.Name() != "copy" {
				continue
			}
			n++
			key := fmt.Sprintf("%s:copy#%d", shortName(fn), k)
			k++
			dst, src := stripConv(c.Common().Args[0]), stripConv(c.Common().Args[1])
			why := ""
			switch {
			case isMakeOfLen(dst, src):
				why = "dst = make(len(src))"
			case isMakeOfLen(src, dst):
				why = "src = make(len(dst))"
			case sameRowView(dst, src):
				why = "both operands are row views of the same matrix"
			}
			if why != "" {
				r.ok("COPYLEN", key, w.ipos(c), "lengths equal: "+why)
			} else {
				r.bad("COPYLEN", key, w.ipos(c), fmt.Sprintf("copy(%s, %s): the two lengths are not provably equal, and copy truncates silently - part of a row would stay behind", dst.Name(), src.Name()))
			}
		}
	}
	r.floor("COPYLEN", "copy() sites in gf2p16", n, 1)
}

func isMakeOfLen(a, b ssa.Value) bool {
	mk, ok := a.(*ssa.MakeSlice)
	if !ok {
		return false
	}
	lc := isBuiltinCall(mk.Len, "len")
	return lc != nil && stripConv(lc.Call.Args[0]) == b
}

func sameRowView(a, b ssa.Value) bool {
	ca, cb := callOf(a, "(gf2p16.Matrix).row"), callOf(b, "(gf2p16.Matrix).row")
	if ca == nil || cb == nil {
		return false
	}
	ra, rb := ca.Call.Args[0], cb.Call.Args[0]
	if ra == rb {
		return true
	}
	la, ok1 := ra.(*ssa.UnOp)
	lb, ok2 := rb.(*ssa.UnOp)
	return ok1 && ok2 && la.Op == token.MUL && lb.Op == token.MUL && la.X == lb.X
}
