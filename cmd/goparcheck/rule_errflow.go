package main

import (
	"fmt"
	"go/token"
	"go/types"
	"sort"
	"strings"

	"golang.org/x/tools/go/ssa"
)

// ---------------------------------------------------------------------------
// no-return inference

type noReturnInfo struct {
	set map[*ssa.Function]bool
}

func isBaseNoReturn(c *ssa.CallCommon) bool {
	if f := c.StaticCallee(); f != nil {
		switch f.String() {
		case "os.Exit", "runtime.Goexit", "log.Fatal", "log.Fatalf", "log.Fatalln", "log.Panic", "log.Panicf", "log.Panicln",
			"(*log.Logger).Fatal", "(*log.Logger).Fatalf", "(*log.Logger).Fatalln":
			return true
		}
	}
	return false
}

// inferNoReturn computes the module functions that never return normally:
// no Return instruction is reachable from entry when calls of no-return
// functions (and panics) end a path.
func (w *World) inferNoReturn() *noReturnInfo {
	nr := &noReturnInfo{set: map[*ssa.Function]bool{}}
	for changed := true; changed; {
		changed = false
		for _, fn := range w.Funcs {
			if nr.set[fn] || len(fn.Blocks) == 0 {
				continue
			}
			if !nr.canReturn(fn) {
				nr.set[fn] = true
				changed = true
			}
		}
	}
	return nr
}

func (nr *noReturnInfo) callNoReturn(c *ssa.CallCommon) bool {
	if isBaseNoReturn(c) {
		return true
	}
	if f := c.StaticCallee(); f != nil && nr.set[f] {
		return true
	}
	return false
}

func (nr *noReturnInfo) canReturn(fn *ssa.Function) bool {
	seen := map[*ssa.BasicBlock]bool{}
	work := []*ssa.BasicBlock{fn.Blocks[0]}
	seen[fn.Blocks[0]] = true
	for len(work) > 0 {
		b := work[len(work)-1]
		work = work[:len(work)-1]
		stopped := false
		for _, in := range b.Instrs {
			switch x := in.(type) {
			case *ssa.Call:
				if nr.callNoReturn(&x.Call) {
					stopped = true
				}
			case *ssa.Panic:
				stopped = true
			case *ssa.Return:
				return true
			}
			if stopped {
				break
			}
		}
		if stopped {
			continue
		}
		for _, s := range b.Succs {
			if !seen[s] {
				seen[s] = true
				work = append(work, s)
			}
		}
	}
	return false
}

// ---------------------------------------------------------------------------
// ERRFLOW

const ruleERRFLOWText = "error discipline: every error returned by a call (other than the constructors errors.New/fmt.Errorf and table-listed infallible callees) must, on every path on which it may be non-nil, reach a return in an error result position (itself, or a freshly constructed error), a panic, or a no-return call. Exempt edges: the true edge of os.IsNotExist(e) (a missing file is damage, not an error); the success edge of a type assertion of e to a module-declared error type; equality with io.EOF for errors not coming from the filesystem interface. Dropping (`_ =`, unchecked call), overwriting before handling, `continue` on error and `return nil` on the non-nil edge are violations. Immediately-invoked function literals are split per return site so that constant boolean results resolve the caller's branches."

var infallibleCallees = map[string]bool{
	"(*bytes.Buffer).Write": true, "(*bytes.Buffer).WriteString": true, "(*bytes.Buffer).WriteByte": true, "(*bytes.Buffer).WriteRune": true,
	"(*strings.Builder).Write": true, "(*strings.Builder).WriteString": true, "(*strings.Builder).WriteByte": true, "(*strings.Builder).WriteRune": true,
	"fmt.Printf": true, "fmt.Println": true, "fmt.Print": true,
	"(*flag.FlagSet).Set": false,
}

var errorConstructors = map[string]bool{"errors.New": true, "fmt.Errorf": true}

type errSource struct {
	Fn      *ssa.Function
	Call    *ssa.Call
	Err     ssa.Value // the error value (call or extract); nil when dropped
	Callee  string
	Idx     int
	Dropped bool
	FromIO  bool
	// constant components assumed alongside (closure splitting)
	assume map[ssa.Value]bool
	label  string
}

func errResultIndex(sig *types.Signature) []int {
	var out []int
	res := sig.Results()
	for i := 0; i < res.Len(); i++ {
		if isErrorType(res.At(i).Type()) {
			out = append(out, i)
		}
	}
	return out
}

func calleeDisplay(c *ssa.CallCommon) string {
	if c.IsInvoke() {
		return "invoke " + namedTypeName(c.Value.Type()) + "." + c.Method.Name()
	}
	if f := c.StaticCallee(); f != nil {
		if f.Parent() != nil {
			return "func-literal"
		}
		return strings.ReplaceAll(f.String(), modPath+"/", "")
	}
	return "dynamic"
}

// errSources enumerates the error sources of fn.
func (w *World) errSources(fn *ssa.Function) []errSource {
	var out []errSource
	cnt := map[string]int{}
	for _, b := range fn.Blocks {
		for _, in := range b.Instrs {
			call, ok := in.(*ssa.Call)
			if !ok {
				continue
			}
			sig := call.Call.Signature()
			idxs := errResultIndex(sig)
			if len(idxs) == 0 {
				continue
			}
			name := calleeDisplay(&call.Call)
			if f := call.Call.StaticCallee(); f != nil {
				if errorConstructors[f.String()] || infallibleCallees[f.String()] {
					continue
				}
			}
			if call.Call.IsInvoke() && call.Call.Method.Name() == "Write" && namedTypeName(call.Call.Value.Type()) == "hash.Hash" {
				continue
			}
			fromIO := call.Call.IsInvoke() && isFileIOInterface(&call.Call)
			for _, ei := range idxs {
				s := errSource{Fn: fn, Call: call, Callee: name, Idx: cnt[name], FromIO: fromIO}
				cnt[name]++
				if sig.Results().Len() == 1 {
					if len(referrersOf(call)) == 0 {
						s.Dropped = true
					} else {
						s.Err = call
					}
				} else {
					for _, ref := range referrersOf(call) {
						if ex, ok := ref.(*ssa.Extract); ok && ex.Index == ei {
							s.Err = ex
						}
					}
					if s.Err == nil || len(referrersOf(s.Err)) == 0 {
						s.Dropped = true
					}
				}
				out = append(out, s)
			}
		}
	}
	return out
}

type errflowState struct {
	blk     *ssa.BasicBlock
	tracked string // canonical key of tracked set
}

type efNode struct {
	blk     *ssa.BasicBlock
	start   int // instruction index to start at
	tracked map[ssa.Value]bool
	parent  *efNode
	sup     bool               // an earlier error of the enclosing function is known non-nil on this path (deferred-closure idiom)
	nonnil  map[ssa.Value]bool // other error values known non-nil on this path (`if cerr := f.Close(); err == nil { err = cerr }`: on the false edge err is returned)
}

func trackedKey(t map[ssa.Value]bool) string {
	var ks []string
	for v := range t {
		ks = append(ks, v.Name())
	}
	sort.Strings(ks)
	return strings.Join(ks, ",")
}

func aliasOf(v ssa.Value, tracked map[ssa.Value]bool) bool {
	for {
		if tracked[v] {
			return true
		}
		switch x := v.(type) {
		case *ssa.MakeInterface:
			v = x.X
		case *ssa.ChangeInterface:
			v = x.X
		case *ssa.ChangeType:
			v = x.X
		default:
			return false
		}
	}
}

// definitelyNonNilError: a freshly constructed error value.
func definitelyNonNilError(v ssa.Value) bool {
	switch x := v.(type) {
	case *ssa.Call:
		if f := x.Call.StaticCallee(); f != nil && errorConstructors[f.String()] {
			return true
		}
	case *ssa.MakeInterface:
		// a concrete non-pointer value boxed into error
		if _, ok := x.X.Type().Underlying().(*types.Pointer); !ok {
			return true
		}
	}
	return false
}

type efResult struct {
	ok     bool
	reason string
	where  ssa.Instruction
	trail  []string
}

// checkErrFlow explores all paths from the definition of src.Err on which it
// may be non-nil.
func (w *World) checkErrFlow(src errSource, nr *noReturnInfo) efResult {
	def := src.Err.(ssa.Instruction)
	defBlk := def.Block()
	startIdx := 0
	for i, in := range defBlk.Instrs {
		if in == def {
			startIdx = i + 1
		}
	}
	root := &efNode{blk: defBlk, start: startIdx, tracked: map[ssa.Value]bool{src.Err: true}}
	seen := map[errflowState]bool{}
	work := []*efNode{root}
	fail := func(n *efNode, in ssa.Instruction, why string) efResult {
		var trail []string
		for x := n; x != nil; x = x.parent {
			p := "-"
			if len(x.blk.Instrs) > 0 {
				p = w.ipos(x.blk.Instrs[0])
			}
			trail = append([]string{fmt.Sprintf("block %d (%s) at %s", x.blk.Index, x.blk.Comment, p)}, trail...)
		}
		return efResult{false, why, in, trail}
	}
	for len(work) > 0 {
		n := work[len(work)-1]
		work = work[:len(work)-1]
		b := n.blk
		terminated := false
		var exemptTrue, exemptFalse bool // for the block's If
		for i := n.start; i < len(b.Instrs) && !terminated; i++ {
			in := b.Instrs[i]
			if in == def && !(n == root) {
				// the source is re-executed: the previous value was never handled
				return fail(n, in, "the error is overwritten by the next call of "+src.Callee+" before it was handled (e.g. `continue` on error)")
			}
			switch x := in.(type) {
			case *ssa.Store:
				// results spilled to memory (functions with defer), or err variables captured by closures
				if _, isAlloc := x.Addr.(*ssa.Alloc); isAlloc {
					if aliasOf(x.Val, n.tracked) {
						n.tracked[x.Addr] = true
					} else if n.tracked[x.Addr] {
						delete(n.tracked, x.Addr)
					}
				}
				// a function literal hands the error to the enclosing function's
				// error variable (`defer func() { if cerr := f.Close(); err == nil { err = cerr } }()`)
				if fv, isFV := x.Addr.(*ssa.FreeVar); isFV && isErrorPtr(fv.Type()) && aliasOf(x.Val, n.tracked) {
					terminated = true
				}
			case *ssa.UnOp:
				if x.Op == token.MUL && n.tracked[x.X] {
					n.tracked[x] = true
				}
			case *ssa.Call:
				if nr.callNoReturn(&x.Call) {
					terminated = true
				}
			case *ssa.Panic:
				terminated = true
			case *ssa.Return:
				// acceptable: tracked in an error position, or a constructed error
				okRet := false
				hasErrPos := false
				for _, res := range x.Results {
					if !isErrorType(res.Type()) {
						continue
					}
					hasErrPos = true
					if aliasOf(res, n.tracked) || definitelyNonNilError(res) || n.nonnil[res] {
						okRet = true
					}
				}
				if okRet {
					terminated = true
					break
				}
				if !hasErrPos && n.sup {
					// dropped in favour of an earlier error that is still reported
					terminated = true
					break
				}
				if !hasErrPos {
					return fail(n, x, "the function returns normally on a path where the error from "+src.Callee+" is non-nil, and it has no error result")
				}
				desc := "another value"
				for _, res := range x.Results {
					if isErrorType(res.Type()) && isNilConst(res) {
						desc = "nil"
					}
				}
				return fail(n, x, "a path on which the error from "+src.Callee+" is non-nil returns "+desc+" in the error position: the failure is swallowed")
			case *ssa.If:
				// handled below
			}
		}
		if terminated {
			continue
		}
		// successor selection
		var iff *ssa.If
		if len(b.Instrs) > 0 {
			iff, _ = b.Instrs[len(b.Instrs)-1].(*ssa.If)
		}
		skip := [2]bool{}
		if iff != nil {
			t, f, et, ef := w.classifyCond(iff.Cond, n.tracked, src)
			skip[0], skip[1] = t, f
			exemptTrue, exemptFalse = et, ef
		}
		for si, s := range b.Succs {
			if iff != nil {
				if skip[si] {
					continue
				}
				if (si == 0 && exemptTrue) || (si == 1 && exemptFalse) {
					continue
				}
			}
			// propagate tracked through phis
			nt := map[ssa.Value]bool{}
			for v := range n.tracked {
				nt[v] = true
			}
			predIdx := -1
			for pi, p := range s.Preds {
				if p == b {
					predIdx = pi
					// if b appears twice as pred (both If edges to same block) use matching occurrence
					if len(b.Succs) == 2 && b.Succs[0] == b.Succs[1] && si == 1 {
						continue
					}
					break
				}
			}
			for _, in := range s.Instrs {
				phi, ok := in.(*ssa.Phi)
				if !ok {
					break
				}
				if predIdx >= 0 && predIdx < len(phi.Edges) {
					if aliasOf(phi.Edges[predIdx], n.tracked) {
						nt[phi] = true
					} else if nt[phi] {
						// phi re-assigned from something else on this edge
						delete(nt, phi)
					}
				}
			}
			sup := n.sup
			if iff != nil && outerErrNonNilOn(iff.Cond, si) {
				sup = true
			}
			nn := map[ssa.Value]bool{}
			for v := range n.nonnil {
				nn[v] = true
			}
			if iff != nil {
				if v := errNonNilOn(iff.Cond, si); v != nil {
					nn[v] = true
				}
			}
			for _, in := range s.Instrs {
				phi, ok := in.(*ssa.Phi)
				if !ok {
					break
				}
				if predIdx >= 0 && predIdx < len(phi.Edges) {
					if nn[phi.Edges[predIdx]] {
						nn[phi] = true
					} else {
						delete(nn, phi)
					}
				}
			}
			key := trackedKey(nt)
			if sup {
				key += "|sup"
			}
			if len(nn) > 0 {
				key += "|nn:" + trackedKey(nn)
			}
			st := errflowState{s, key}
			if seen[st] {
				continue
			}
			seen[st] = true
			work = append(work, &efNode{blk: s, start: 0, tracked: nt, parent: n, sup: sup, nonnil: nn})
		}
		if len(b.Succs) == 0 {
			// block without successors that is neither return nor panic: unreachable code
			continue
		}
	}
	return efResult{ok: true}
}

func isErrorPtr(t types.Type) bool {
	p, ok := t.Underlying().(*types.Pointer)
	return ok && isErrorType(p.Elem())
}

// errNonNilOn: the error-typed SSA value that the condition shows to be non-nil on successor si, or nil.
func errNonNilOn(cond ssa.Value, si int) ssa.Value {
	truth := si == 0
	for {
		if u, ok := cond.(*ssa.UnOp); ok && u.Op == token.NOT {
			cond = u.X
			truth = !truth
			continue
		}
		break
	}
	b, ok := cond.(*ssa.BinOp)
	if !ok || (b.Op != token.EQL && b.Op != token.NEQ) {
		return nil
	}
	var v ssa.Value
	if isNilConst(b.Y) {
		v = b.X
	} else if isNilConst(b.X) {
		v = b.Y
	} else {
		return nil
	}
	if !isErrorType(v.Type()) || (b.Op == token.NEQ) != truth {
		return nil
	}
	return v
}

// outerErrNonNilOn: on successor si of an If with this condition, is an error
// variable captured from the enclosing function (a FreeVar of type *error) known
// to be non-nil?
func outerErrNonNilOn(cond ssa.Value, si int) bool {
	truth := si == 0
	for {
		if u, ok := cond.(*ssa.UnOp); ok && u.Op == token.NOT {
			cond = u.X
			truth = !truth
			continue
		}
		break
	}
	b, ok := cond.(*ssa.BinOp)
	if !ok || (b.Op != token.EQL && b.Op != token.NEQ) {
		return false
	}
	var v ssa.Value
	if isNilConst(b.Y) {
		v = b.X
	} else if isNilConst(b.X) {
		v = b.Y
	} else {
		return false
	}
	ld, ok := v.(*ssa.UnOp)
	if !ok || ld.Op != token.MUL {
		return false
	}
	fv, ok := ld.X.(*ssa.FreeVar)
	if !ok || !isErrorPtr(fv.Type()) {
		return false
	}
	// err != nil on the true edge, err == nil on the false edge
	return (b.Op == token.NEQ) == truth
}

// classifyCond inspects an If condition with respect to the tracked error
// values. It returns which edges are infeasible (error known non-nil) and
// which are exempt.
func (w *World) classifyCond(cond ssa.Value, tracked map[ssa.Value]bool, src errSource) (skipTrue, skipFalse, exemptTrue, exemptFalse bool) {
	neg := false
	for {
		if u, ok := cond.(*ssa.UnOp); ok && u.Op == token.NOT {
			cond = u.X
			neg = !neg
			continue
		}
		break
	}
	set := func(st, sf, et, ef bool) (bool, bool, bool, bool) {
		if neg {
			return sf, st, ef, et
		}
		return st, sf, et, ef
	}
	switch x := cond.(type) {
	case *ssa.BinOp:
		if x.Op != token.EQL && x.Op != token.NEQ {
			break
		}
		var other ssa.Value
		if aliasOf(x.X, tracked) {
			other = x.Y
		} else if aliasOf(x.Y, tracked) {
			other = x.X
		} else {
			break
		}
		if isNilConst(other) {
			if x.Op == token.NEQ {
				return set(false, true, false, false) // err != nil : false edge infeasible
			}
			return set(true, false, false, false) // err == nil : true edge infeasible
		}
		// comparison with io.EOF
		if ld, ok := other.(*ssa.UnOp); ok && ld.Op == token.MUL {
			if g, ok := ld.X.(*ssa.Global); ok && g.Pkg != nil && g.Pkg.Pkg.Path() == "io" && g.Name() == "EOF" && !src.FromIO {
				if x.Op == token.EQL {
					return set(false, false, true, false)
				}
				return set(false, false, false, true)
			}
		}
	case *ssa.Call:
		if f := x.Call.StaticCallee(); f != nil && f.String() == "os.IsNotExist" && len(x.Call.Args) == 1 && aliasOf(x.Call.Args[0], tracked) {
			return set(false, false, true, false)
		}
	case *ssa.Extract:
		// ok of a comma-ok type assertion on the tracked error
		if ta, ok := x.Tuple.(*ssa.TypeAssert); ok && x.Index == 1 && aliasOf(ta.X, tracked) {
			if n, ok := ta.AssertedType.(*types.Named); ok && n.Obj().Pkg() != nil && isModPath(n.Obj().Pkg().Path()) {
				return set(false, false, true, false)
			}
		}
	case *ssa.Const:
		if bv, ok := constBool(x); ok {
			if bv {
				return set(false, true, false, false)
			}
			return set(true, false, false, false)
		}
	}
	// assumed boolean components (closure splitting)
	if src.assume != nil {
		if bv, ok := src.assume[cond]; ok {
			if bv {
				return set(false, true, false, false)
			}
			return set(true, false, false, false)
		}
	}
	return false, false, false, false
}

// closureReturnCases splits an immediately-invoked function literal per return
// site. For each return whose error result may carry a non-exempt source error,
// it yields the constant boolean results returned alongside.
type closureCase struct {
	ret     *ssa.Return
	consts  map[int]bool
	errDesc string
}

func (w *World) closureCases(lit *ssa.Function, errIdx int, nr *noReturnInfo) []closureCase {
	var out []closureCase
	// which source errors of the literal are non-exempt at which return? We
	// re-use checkErrFlow's machinery in a lighter way: a return carries an
	// obligated error iff its error operand is (an alias of) a source error of
	// the literal and the return is not on an exempt edge of that source.
	srcs := w.errSources(lit)
	for _, b := range lit.Blocks {
		if len(b.Instrs) == 0 {
			continue
		}
		ret, ok := b.Instrs[len(b.Instrs)-1].(*ssa.Return)
		if !ok || errIdx >= len(ret.Results) {
			continue
		}
		ev := ret.Results[errIdx]
		if isNilConst(ev) {
			continue
		}
		if definitelyNonNilError(ev) {
			// a verdict constructed here - unless a source error of the literal may still be
			// non-nil at this return (it was defined on the way here and no branch on the
			// way established that it is nil or exempt): then the verdict masks a failure,
			// and what the caller does with this return site decides whether it is swallowed
			masked := ""
			for _, s := range srcs {
				if s.Err == nil || s.Call == nil || !instrDominates(s.Call, ret) {
					continue
				}
				settled := false
				for _, f := range domFacts(b) {
					st, sf, et, ef := w.classifyCond(f.Cond, map[ssa.Value]bool{s.Err: true}, s)
					if (f.Truth && (st || et)) || (!f.Truth && (sf || ef)) {
						settled = true
					}
				}
				if !settled {
					masked = s.Callee
				}
			}
			if masked == "" {
				continue
			}
			cc := closureCase{ret: ret, consts: map[int]bool{}, errDesc: masked + ", masked by an error constructed at this return"}
			for i, res := range ret.Results {
				if bv, ok := constBool(res); ok {
					cc.consts[i] = bv
				}
			}
			out = append(out, cc)
			continue
		}
		obligated := false
		desc := ""
		matched := false
		for _, s := range srcs {
			if s.Err == nil {
				continue
			}
			if !aliasOf(ev, map[ssa.Value]bool{s.Err: true}) {
				continue
			}
			matched = true
			// exempt iff the return block is dominated by an exempt edge for s.Err
			exempt := false
			for _, f := range domFacts(b) {
				_, _, et, ef := w.classifyCond(f.Cond, map[ssa.Value]bool{s.Err: true}, s)
				if (f.Truth && et) || (!f.Truth && ef) {
					exempt = true
				}
			}
			if !exempt {
				obligated = true
				desc = s.Callee
			}
		}
		if !matched {
			// error value of unknown origin (phi etc.): treat as obligated
			obligated = true
			desc = "unknown origin"
		}
		if !obligated {
			continue
		}
		cc := closureCase{ret: ret, consts: map[int]bool{}, errDesc: desc}
		for i, res := range ret.Results {
			if bv, ok := constBool(res); ok {
				cc.consts[i] = bv
			}
			// a flag returned as os.IsNotExist(err) of the very error returned: where it is true the
			// error is the exempt "missing file" case, so the obligated case has it false
			if c, ok := res.(*ssa.Call); ok && calleeName(&c.Call) == "os.IsNotExist" && len(c.Call.Args) == 1 && c.Call.Args[0] == ev {
				cc.consts[i] = false
			}
		}
		out = append(out, cc)
	}
	return out
}

type errflowScope struct {
	pkgs    []string        // all functions of these packages
	fnNames map[string]bool // or only these functions (short names, closures included by prefix)
	only    func(s errSource) bool
	tag     string
}

func ruleERRFLOW(w *World, r *Report, sc errflowScope, floor int) {
	r.rule("ERRFLOW", ruleERRFLOWText)
	nr := w.inferNoReturn()
	var fns []*ssa.Function
	if sc.fnNames != nil {
		for _, fn := range w.Funcs {
			top := fn
			for top.Parent() != nil {
				top = top.Parent()
			}
			if sc.fnNames[shortName(top)] {
				fns = append(fns, fn)
			}
		}
	} else {
		fns = w.funcsInPkgs(sc.pkgs...)
	}
	n := 0
	for _, fn := range fns {
		for _, s := range w.errSources(fn) {
			if sc.only != nil && !sc.only(s) {
				continue
			}
			n++
			key := fmt.Sprintf("%s:%s#%d", shortName(fn), s.Callee, s.Idx)
			pos := w.ipos(s.Call)
			if s.Dropped {
				r.bad("ERRFLOW", key, pos, "the error result of "+s.Callee+" is discarded")
				continue
			}
			// closure splitting
			// ... also for a module function that returns booleans next to its error (`data, corrupt, err :=
			// d.readDataFile(...)`): which return site produced the error decides what the flags are
			if lit := s.Call.Call.StaticCallee(); lit != nil && len(lit.Blocks) > 0 && (lit.Parent() == fn || (w.inModule(lit) && hasBoolResult(lit))) {
				eidx := 0
				if ex, ok := s.Err.(*ssa.Extract); ok {
					eidx = ex.Index
				}
				cases := w.closureCases(lit, eidx, nr)
				allOK := true
				for ci, cc := range cases {
					s2 := s
					s2.assume = map[ssa.Value]bool{}
					for _, ref := range referrersOf(s.Call) {
						if ex, ok := ref.(*ssa.Extract); ok {
							if bv, ok := cc.consts[ex.Index]; ok {
								s2.assume[ex] = bv
							}
						}
					}
					res := w.checkErrFlow(s2, nr)
					if !res.ok {
						allOK = false
						r.bad("ERRFLOW", fmt.Sprintf("%s:case%d", key, ci), w.ipos(res.where), fmt.Sprintf("for the literal's return at %s (error from %s): %s", w.ipos(cc.ret), cc.errDesc, res.reason), res.trail...)
					}
				}
				if allOK {
					r.ok("ERRFLOW", key, pos, fmt.Sprintf("function literal: %d error-carrying return sites, each handled by the caller", len(cases)))
				}
				continue
			}
			res := w.checkErrFlow(s, nr)
			if res.ok {
				r.ok("ERRFLOW", key, pos, "non-nil on every path reaches a return in error position, a panic or a no-return call (or an exempt edge)")
			} else {
				r.bad("ERRFLOW", key, w.ipos(res.where), res.reason+" (source: "+s.Callee+" at "+pos+")", res.trail...)
			}
		}
	}
	r.stat("error_sources", n)
	r.floor("ERRFLOW", "error sources"+sc.tag, n, floor)
}

func hasBoolResult(f *ssa.Function) bool {
	res := f.Signature.Results()
	for i := 0; i < res.Len(); i++ {
		if b, ok := res.At(i).Type().Underlying().(*types.Basic); ok && b.Kind() == types.Bool {
			return true
		}
	}
	return false
}
