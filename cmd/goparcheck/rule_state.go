package main

import (
	"fmt"
	"go/token"
	"go/types"
	"sort"
	"strings"

	"golang.org/x/tools/go/ssa"
)

// ---------------------------------------------------------------------------
// DEADST: verification state that cannot influence the verdict.

const ruleDEADSTText = "verification state must be able to reach the verdict: every field of the per-file / per-slice integrity records (fileIntegrityInfo, shardIntegrityInfo) that a function reachable from par2.verify stores must also be loaded by some function reachable from it; LOCALCOPY: a field stored into a local copy of such a record (a struct variable initialised from a slice or map element) must be followed by a read of that copy - otherwise the update is lost and the record the verdict reads never sees it"

func ruleDEADST(w *World, r *Report) {
	r.rule("DEADST", ruleDEADSTText)
	roots := w.fns("par2.Verify", "par2.verify")
	r.floor("DEADST", "par2 verify entry points", len(roots), 2)
	cl := w.moduleClosure(w.CG, roots, nil)
	record := map[string]bool{"par2.fileIntegrityInfo": true, "par2.shardIntegrityInfo": true}
	stored := map[string]string{}
	loaded := map[string]bool{}
	var fns []*ssa.Function
	for f := range cl {
		fns = append(fns, f)
	}
	sortFuncs(fns)
	for _, fn := range fns {
		for _, b := range fn.Blocks {
			for _, in := range b.Instrs {
				switch x := in.(type) {
				case *ssa.Store:
					if fa, ok := x.Addr.(*ssa.FieldAddr); ok {
						tn := namedTypeName(fa.X.Type())
						if record[tn] {
							k := tn + "." + fieldName(fa.X.Type(), fa.Field)
							if _, seen := stored[k]; !seen {
								stored[k] = w.ipos(x)
							}
						}
					}
				case *ssa.UnOp:
					if x.Op == token.MUL {
						if fa, ok := x.X.(*ssa.FieldAddr); ok {
							tn := namedTypeName(fa.X.Type())
							if record[tn] {
								loaded[tn+"."+fieldName(fa.X.Type(), fa.Field)] = true
							}
						}
					}
				case *ssa.Field:
					tn := namedTypeName(x.X.Type())
					if record[tn] {
						loaded[tn+"."+fieldName(x.X.Type(), x.Field)] = true
					}
				case *ssa.FieldAddr:
					// address of a map/slice-typed field used for element access counts as a read of the field
					for _, ref := range referrersOf(x) {
						if _, isStore := ref.(*ssa.Store); isStore {
							continue
						}
						if u, isU := ref.(*ssa.UnOp); isU && u.Op == token.MUL {
							continue // counted above
						}
					}
				}
			}
		}
	}
	// every field of the record types
	n := 0
	for _, p := range w.Pkgs {
		if pkgShort(p.PkgPath) != "par2" {
			continue
		}
		for tn := range record {
			obj := p.Types.Scope().Lookup(strings.TrimPrefix(tn, "par2."))
			if obj == nil {
				r.unk("DEADST", tn, "-", "record type not found")
				continue
			}
			st, ok := obj.Type().Underlying().(*types.Struct)
			if !ok {
				continue
			}
			for i := 0; i < st.NumFields(); i++ {
				k := tn + "." + st.Field(i).Name()
				n++
				where, isStored := stored[k]
				switch {
				case isStored && !loaded[k]:
					r.bad("DEADST", k, where, fmt.Sprintf("%s is computed on the Verify path (stored at %s) but no function reachable from Verify ever reads it: it cannot influence the verdict", k, where))
				case isStored:
					r.ok("DEADST", k, where, "stored and read on the Verify path")
				default:
					r.ok("DEADST", k, "-", "not stored field-wise on the Verify path (set by whole-record assignment or unused)")
				}
			}
		}
	}
	r.floor("DEADST", "fields of the integrity records", n, 7)
	// LOCALCOPY over par1/par2
	nCopies := 0
	for _, fn := range w.funcsInPkgs("par1", "par2") {
		for _, b := range fn.Blocks {
			for _, in := range b.Instrs {
				al, ok := in.(*ssa.Alloc)
				if !ok || al.Heap {
					continue
				}
				if _, isStruct := al.Type().(*types.Pointer).Elem().Underlying().(*types.Struct); !isStruct {
					continue
				}
				// initialised by a whole store of a loaded element?
				isCopy := false
				for _, ref := range referrersOf(al) {
					if st, ok := ref.(*ssa.Store); ok && st.Addr == ssa.Value(al) {
						if ld, ok := st.Val.(*ssa.UnOp); ok && ld.Op == token.MUL {
							if _, isIdx := ld.X.(*ssa.IndexAddr); isIdx {
								isCopy = true
							}
						}
						if _, isLookup := st.Val.(*ssa.Lookup); isLookup {
							isCopy = true
						}
					}
				}
				if !isCopy {
					continue
				}
				nCopies++
				// field stores into the copy
				for _, ref := range referrersOf(al) {
					fa, ok := ref.(*ssa.FieldAddr)
					if !ok {
						continue
					}
					for _, r2 := range referrersOf(fa) {
						st, ok := r2.(*ssa.Store)
						if !ok || st.Addr != ssa.Value(fa) {
							continue
						}
						key := fmt.Sprintf("LOCALCOPY:%s:%s.%s", shortName(fn), al.Comment, fieldName(fa.X.Type(), fa.Field))
						if readAfter(al, st) {
							r.ok("DEADST", key, w.ipos(st), "the updated copy is used as a whole (stored back, passed on or returned) afterwards")
						} else {
							r.bad("DEADST", key, w.ipos(st), fmt.Sprintf("%s.%s is assigned on a local copy of a slice/map element and the copy is never stored back, passed on or returned afterwards: the update is lost (take the element's address or store the copy back)", al.Comment, fieldName(fa.X.Type(), fa.Field)))
						}
					}
				}
			}
		}
	}
	r.stat("local_record_copies", nCopies)
}

// readAfter: after instruction st (a field store into alloc al) some path reads al
// (whole or any field), or al's address escapes.
func readAfter(al *ssa.Alloc, st *ssa.Store) bool {
	isRead := func(in ssa.Instruction) bool {
		switch x := in.(type) {
		case *ssa.UnOp:
			// only a load of the whole copy can carry the update anywhere (store back, pass on, return);
			// reading the field just assigned does not make the update visible to anyone else
			if x.Op == token.MUL && x.X == ssa.Value(al) && len(referrersOf(x)) > 0 {
				return true
			}
		case ssa.CallInstruction:
			for _, a := range x.Common().Args {
				if a == ssa.Value(al) {
					return true
				}
				if fa, ok := a.(*ssa.FieldAddr); ok && fa.X == ssa.Value(al) {
					return true
				}
			}
		case *ssa.Store:
			if x.Val == ssa.Value(al) {
				return true
			}
		case *ssa.IndexAddr:
			// &copy.slicefield[i] : reading the slice header field
			if ld, ok := x.X.(*ssa.UnOp); ok {
				if fa, ok := ld.X.(*ssa.FieldAddr); ok && fa.X == ssa.Value(al) {
					return true
				}
			}
		case *ssa.MakeClosure:
			for _, b := range x.Bindings {
				if b == ssa.Value(al) {
					return true
				}
			}
		}
		return false
	}
	b := st.Block()
	after := false
	for _, in := range b.Instrs {
		if in == ssa.Instruction(st) {
			after = true
			continue
		}
		if after {
			// a re-initialisation of the copy kills the update
			if s2, ok := in.(*ssa.Store); ok && s2.Addr == ssa.Value(al) {
				return false
			}
			if isRead(in) {
				return true
			}
		}
	}
	seen := map[*ssa.BasicBlock]bool{}
	var dfs func(x *ssa.BasicBlock) bool
	dfs = func(x *ssa.BasicBlock) bool {
		if seen[x] {
			return false
		}
		seen[x] = true
		for _, in := range x.Instrs {
			if s2, ok := in.(*ssa.Store); ok && s2.Addr == ssa.Value(al) {
				return false // copy overwritten (next loop iteration)
			}
			if isRead(in) {
				return true
			}
		}
		for _, s := range x.Succs {
			if dfs(s) {
				return true
			}
		}
		return false
	}
	for _, s := range b.Succs {
		if dfs(s) {
			return true
		}
	}
	return false
}

// ---------------------------------------------------------------------------
// IDXDOM

const ruleIDXDOMText = "index-domain mismatch (evidence based): a slice field built by append inside a loop over collection C, where some iteration can skip the append (continue), is a filtered image of C; indexing C itself with the index of a loop over that filtered slice pairs the wrong elements"

type filteredField struct {
	field string // "par1.Decoder.fileData"
	of    string // path suffix of C: ".indexVolume.entries"
	where string
}

func (w *World) filteredFields() []filteredField {
	var out []filteredField
	for _, fn := range w.funcsInPkgs("par1", "par2") {
		for _, b := range fn.Blocks {
			for _, in := range b.Instrs {
				st, ok := in.(*ssa.Store)
				if !ok {
					continue
				}
				fa, ok := st.Addr.(*ssa.FieldAddr)
				if !ok {
					continue
				}
				if _, isSlice := st.Val.Type().Underlying().(*types.Slice); !isSlice {
					continue
				}
				// appends in the phi web of the stored value
				apps, _ := appendWeb(st.Val)
				for _, ap := range apps {
					// enclosing loop over a collection: an index phi compared with len(load C) that dominates the append
					hdr, coll := enclosingLenLoop(ap.Block())
					if hdr == nil || coll == "" || !strings.HasPrefix(coll, ".") {
						continue
					}
					// can the header be reached from the loop body without executing the append block?
					body := hdr.Succs[0]
					skip := false
					seen := map[*ssa.BasicBlock]bool{}
					var dfs func(x *ssa.BasicBlock)
					dfs = func(x *ssa.BasicBlock) {
						if seen[x] || x == ap.Block() {
							return
						}
						seen[x] = true
						for _, s := range x.Succs {
							if s == hdr {
								skip = true
								return
							}
							if hdr.Dominates(s) {
								dfs(s)
							}
						}
					}
					dfs(body)
					if skip {
						// every append in the web must be skippable for the image to be filtered; one is enough evidence
						out = append(out, filteredField{namedTypeName(fa.X.Type()) + "." + fieldName(fa.X.Type(), fa.Field), coll, w.ipos(ap)})
					}
				}
			}
		}
	}
	return out
}

func appendWeb(v ssa.Value) (apps []*ssa.Call, other bool) {
	seen := map[ssa.Value]bool{}
	var walk func(v ssa.Value)
	walk = func(v ssa.Value) {
		if seen[v] {
			return
		}
		seen[v] = true
		switch x := v.(type) {
		case *ssa.Phi:
			for _, e := range x.Edges {
				walk(e)
			}
		case *ssa.Call:
			if c := isBuiltinCall(x, "append"); c != nil {
				apps = append(apps, c)
				walk(c.Call.Args[0])
			}
		}
	}
	walk(v)
	return
}

// enclosingLenLoop finds a loop header dominating b whose condition is idx < len(X); returns the header and X's access path.
func enclosingLenLoop(b *ssa.BasicBlock) (*ssa.BasicBlock, string) {
	for d := b; d != nil; d = d.Idom() {
		if len(d.Instrs) == 0 {
			continue
		}
		iff, ok := d.Instrs[len(d.Instrs)-1].(*ssa.If)
		if !ok {
			continue
		}
		bo, ok := iff.Cond.(*ssa.BinOp)
		if !ok || bo.Op != token.LSS {
			continue
		}
		lc := isBuiltinCall(bo.Y, "len")
		if lc == nil {
			continue
		}
		// is it a loop header (has a back edge)?
		isLoop := false
		for _, p := range d.Preds {
			if d.Dominates(p) {
				isLoop = true
			}
		}
		if !isLoop || !d.Succs[0].Dominates(b) {
			continue
		}
		return d, deepPath(lc.Call.Args[0]).Path
	}
	return nil, ""
}

func ruleIDXDOM(w *World, r *Report) {
	r.rule("IDXDOM", ruleIDXDOMText)
	ff := w.filteredFields()
	sort.Slice(ff, func(i, j int) bool { return ff[i].field < ff[j].field })
	r.floor("IDXDOM", "filtered-image fields found (evidence)", len(ff), 1)
	byField := map[string]filteredField{}
	for _, f := range ff {
		byField[f.field] = f
	}
	nChecked := 0
	for _, fn := range w.funcsInPkgs("par1", "par2") {
		k := 0
		for _, b := range fn.Blocks {
			for _, in := range b.Instrs {
				ia, ok := in.(*ssa.IndexAddr)
				if !ok {
					continue
				}
				// index must be a loop index bounded by len(load F) with F filtered
				phi, ok := ia.Index.(*ssa.Phi)
				if !ok {
					// rangeindex loops use t = phi+1 as the index
					if bo, ok2 := ia.Index.(*ssa.BinOp); ok2 && bo.Op == token.ADD {
						phi, ok = bo.X.(*ssa.Phi)
					}
					if !ok {
						continue
					}
				}
				var over string
				for _, ref := range append(referrersOf(phi), referrersOf(ia.Index)...) {
					bo, ok := ref.(*ssa.BinOp)
					if !ok || bo.Op != token.LSS {
						continue
					}
					if lc := isBuiltinCall(bo.Y, "len"); lc != nil {
						if fk := fieldKeyOfLoad(lc.Call.Args[0]); fk != "" {
							over = fk
						}
					}
				}
				f, isFiltered := byField[over]
				if !isFiltered {
					continue
				}
				basePath := deepPath(ia.X).Path
				nChecked++
				key := fmt.Sprintf("%s:index-by-%s#%d", shortName(fn), over, k)
				k++
				if basePath == f.of {
					r.bad("IDXDOM", key, w.ipos(ia), fmt.Sprintf("%s is indexed with the position in %s, which holds only the elements of %s that were not skipped (built at %s): with a skipped element in front the wrong element is paired", f.of, over, f.of, f.where))
				} else {
					r.ok("IDXDOM", key, w.ipos(ia), fmt.Sprintf("index over filtered %s used on %s, not on its unfiltered origin %s", over, describeArray(ia.X), f.of))
				}
			}
		}
	}
	r.stat("filtered_index_uses", nChecked)
}

// ---------------------------------------------------------------------------
// DEEPEQ: reflect.DeepEqual on operands of different static types is constantly false.

const ruleDEEPEQText = "contradiction rule: reflect.DeepEqual(a, b) whose operands have different static (non-interface) types - e.g. a pointer and a value - is false for every input, so a branch that rejects or accepts on it does not test what it claims to"

func ruleDEEPEQ(w *World, r *Report, pkgs ...string) {
	r.rule("DEEPEQ", ruleDEEPEQText)
	n := 0
	for _, fn := range w.funcsInPkgs(pkgs...) {
		k := 0
		for _, c := range callInstrs(fn) {
			f := c.Common().StaticCallee()
			if f == nil || f.String() != "reflect.DeepEqual" {
				continue
			}
			n++
			key := fmt.Sprintf("%s:DeepEqual#%d", shortName(fn), k)
			k++
			a, b := stripConv(c.Common().Args[0]), stripConv(c.Common().Args[1])
			// the exponent-indexed parity table has nil gaps by construction: it may be compared element-wise only
			sparse := ""
			for _, x := range []ssa.Value{a, b} {
				if strings.HasSuffix(deepPath(x).Path, ".parityShards") {
					sparse = deepPath(x).String()
				}
			}
			if sparse != "" {
				r.bad("DEEPEQ", key, w.ipos(c), "the exponent-indexed parity table "+sparse+" is compared as a whole: it holds nil at every exponent for which no block was found, so with non-contiguous exponents the comparison fails although every present block agrees")
				continue
			}
			ta, tb := a.Type(), b.Type()
			_, ia := ta.Underlying().(*types.Interface)
			_, ib := tb.Underlying().(*types.Interface)
			if ia || ib || types.Identical(ta, tb) {
				r.ok("DEEPEQ", key, w.ipos(c), "operands have the same static type "+typeStr(ta))
			} else {
				r.bad("DEEPEQ", key, w.ipos(c), fmt.Sprintf("reflect.DeepEqual compares a %s with a %s: always false, whatever the contents", typeStr(ta), typeStr(tb)))
			}
		}
	}
	r.floor("DEEPEQ", "reflect.DeepEqual call sites", n, 3)
}

// ---------------------------------------------------------------------------
// TABLEFILL: initialisers fill whole tables.

const ruleTABLEFILLText = "table construction covers the table: in the package initialisers of gf2p16 every loop that stores into a package-level table through its loop index runs that index from 0 to exactly the table's length (a bound one short leaves the last entry zero, and only one constant or one operand value ever shows it)"

func ruleTABLEFILL(w *World, r *Report, floor int, tables ...string) {
	r.rule("TABLEFILL", ruleTABLEFILLText)
	initFns := w.initOnly()
	n := 0
	for _, fn := range w.funcsInPkgs("gf2p16") {
		if !initFns[fn] {
			continue
		}
		seenKey := map[string]bool{}
		for _, b := range fn.Blocks {
			for _, in := range b.Instrs {
				ia, ok := in.(*ssa.IndexAddr)
				if !ok {
					continue
				}
				g, ok := ia.X.(*ssa.Global)
				if !ok {
					continue
				}
				alen, isArr := arrayLenOf(g.Type())
				if !isArr {
					continue
				}
				if len(tables) > 0 {
					want := false
					for _, t := range tables {
						if t == g.Name() {
							want = true
						}
					}
					if !want {
						continue
					}
				}
				// index: loop phi (possibly converted)
				idx := stripAllConv(ia.Index)
				phi, ok := idx.(*ssa.Phi)
				if !ok {
					continue // e.g. logTable[x-1]: data-dependent index
				}
				key := fmt.Sprintf("%s:%s", shortName(fn), g.Name())
				if seenKey[key] {
					continue
				}
				seenKey[key] = true
				n++
				start, bound := int64(-1), int64(-1)
				for _, e := range phi.Edges {
					if c, ok := constInt(e); ok {
						start = c
					}
				}
				for _, ref := range referrersOf(phi) {
					if bo, ok := ref.(*ssa.BinOp); ok && bo.Op == token.LSS && bo.X == ssa.Value(phi) {
						if c, ok := constInt(bo.Y); ok {
							bound = c
						}
					}
					if cv, ok := ref.(*ssa.Convert); ok {
						for _, r2 := range referrersOf(cv) {
							if bo, ok := r2.(*ssa.BinOp); ok && bo.Op == token.LSS {
								if c, ok := constInt(bo.Y); ok {
									bound = c
								}
							}
						}
					}
				}
				// other writers of the same table (e.g. copy into a second half): the loop is then not the only filler
				otherWriter := false
				for _, f2 := range w.funcsInPkgs("gf2p16") {
					if !initFns[f2] {
						continue
					}
					for _, c := range callInstrs(f2) {
						if bc, ok := c.Common().Value.(*ssa.Builtin); ok && bc.Name() == "copy" {
							if sl, ok := c.Common().Args[0].(*ssa.Slice); ok && sl.X == ssa.Value(g) {
								otherWriter = true
							}
						}
					}
				}
				if otherWriter && !(start == 0 && bound == alen) {
					r.ok("TABLEFILL", key, w.ipos(ia), fmt.Sprintf("loop fills [%d, %d) and the rest of the table is written by copy(): coverage is then a question of values (index bounds are RANGE's business)", start, bound))
					continue
				}
				if start == 0 && bound == alen {
					r.ok("TABLEFILL", key, w.ipos(ia), fmt.Sprintf("filled for index 0..%d, the table has %d entries", bound-1, alen))
				} else {
					r.bad("TABLEFILL", key, w.ipos(ia), fmt.Sprintf("the filling loop runs the index over [%d, %d) but the table has %d entries: entries outside that range stay zero", start, bound, alen))
				}
			}
		}
	}
	r.floor("TABLEFILL", "index-filled tables in gf2p16 initialisers", n, floor)
}

// ---------------------------------------------------------------------------
// IMMUT: what was read from the index is not rewritten afterwards.

const ruleIMMUTText = "the archive metadata a decoder loaded from the index (par1: indexVolume; par2: recoverySet, nonRecoverySet, setID, sliceByteCount) is never written after construction: no store through those fields and no append onto (a reslice of) them outside newDecoder - an in-place filter or append that reuses the backing array rewrites the entry list the next operation on the same decoder reads"

func ruleIMMUT(w *World, r *Report, pkgs ...string) {
	r.rule("IMMUT", ruleIMMUTText)
	meta := map[string][]string{
		"par1": {".indexVolume"},
		"par2": {".recoverySet", ".nonRecoverySet", ".setID", ".sliceByteCount", ".indexPath"},
	}
	n := 0
	for _, pkg := range pkgs {
		for _, fn := range w.funcsInPkgs(pkg) {
			top := fn
			for top.Parent() != nil {
				top = top.Parent()
			}
			if strings.HasSuffix(shortName(top), ".newDecoder") || !strings.Contains(shortName(top), "Decoder") {
				continue
			}
			n++
			bad := ""
			isMeta := func(path string) bool {
				for _, m := range meta[pkg] {
					if strings.HasPrefix(path, m) {
						return true
					}
				}
				return false
			}
			for _, b := range fn.Blocks {
				for _, in := range b.Instrs {
					switch x := in.(type) {
					case *ssa.Store:
						p := deepPath2(x.Addr)
						if p.Root != nil && isDecoderRecv(top, p.Root) && isMeta(p.Path) {
							bad = "a store through d" + p.Path + " at " + w.ipos(x)
						}
					case *ssa.Call:
						if bc := isBuiltinCall(x, "append"); bc != nil {
							// every value the appended-to slice variable can start from
							seen := map[ssa.Value]bool{}
							var leaves []ssa.Value
							var walk func(v ssa.Value)
							walk = func(v ssa.Value) {
								if seen[v] {
									return
								}
								seen[v] = true
								switch y := v.(type) {
								case *ssa.Phi:
									for _, e := range y.Edges {
										walk(e)
									}
								case *ssa.Call:
									if c2 := isBuiltinCall(y, "append"); c2 != nil {
										walk(c2.Call.Args[0])
										return
									}
									leaves = append(leaves, v)
								case *ssa.Slice:
									walk(y.X)
								default:
									leaves = append(leaves, v)
								}
							}
							walk(bc.Call.Args[0])
							for _, base := range leaves {
								p := deepPath(base)
								if p.Root != nil && isDecoderRecv(top, p.Root) && isMeta(p.Path) {
									bad = "append onto (a reslice of) d" + p.Path + " at " + w.ipos(x) + ", which reuses its backing array"
								}
							}
						}
					}
				}
			}
			key := shortName(fn)
			if bad == "" {
				r.ok("IMMUT", key, w.pos(fn.Pos()), "does not write the metadata loaded from the index")
			} else {
				r.bad("IMMUT", key, w.pos(fn.Pos()), "decoder metadata is modified after construction: "+bad)
			}
		}
	}
	r.floor("IMMUT", "decoder methods examined", n, 8)
}

func isDecoderRecv(fn *ssa.Function, v ssa.Value) bool {
	if len(fn.Params) > 0 && fn.Signature.Recv() != nil && fn.Params[0] == v {
		return true
	}
	// closures capture the receiver through a cell
	if fv, ok := v.(*ssa.FreeVar); ok {
		return fv.Name() == "d"
	}
	return false
}

// deepPath2: access path of an address (through loads of pointer cells holding the receiver).
func deepPath2(addr ssa.Value) accessPath {
	p := addrPath(addr)
	// root may be a load of a cell holding d (closures): *t0 where t0 = new *Decoder
	for depth := 0; depth < 4; depth++ {
		ld, ok := p.Root.(*ssa.UnOp)
		if !ok || ld.Op != token.MUL {
			break
		}
		q := deepPath(ld)
		q.Path += p.Path
		p = q
	}
	return p
}
