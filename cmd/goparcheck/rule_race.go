package main

import (
	"fmt"
	"go/token"
	"strings"

	"golang.org/x/tools/go/ssa"
)

// ---------------------------------------------------------------------------
// RACE: the worker goroutines of rsec16 write disjoint, word-aligned ranges
// that together cover the output, and are joined before the result is used.

const ruleRACEText = "for each go statement of rsec16: (a) no captured variable is stored by the parent once the first goroutine may run (the loop index is passed as a parameter); (b) the closure only loads its captures and hands them to applyMatrixSlice, which stores nowhere itself and passes out[i][dataStart:dataEnd], outStart<=i<outEnd, as the only written argument of the kernels; (c) the goroutine's range is exactly [i*P, min(i*P+P, N)) with i its parameter, P and N loop-invariant captures, N the true length of the partitioned dimension, P the first result of calculateParallelParams(N, n, min, div) stored unscaled, and that result is >= min >= 1 by its clamp; the other dimension is passed whole; (d) the number of goroutines is the second result of the same call, unmodified, which is ceil(N/P) - so the ranges cover [0,N) - and for the byte partition div is even, so no 16-bit word is split; every divisor is >= 1; (e) wg.Add gets the loop bound, the closure starts with defer wg.Done(), and wg.Wait() dominates every return after the loop"

func ruleRACE(w *World, r *Report) {
	r.rule("RACE", ruleRACEText)
	nGo := 0
	for _, fn := range w.funcsInPkgs("rsec16", "gf2p16", "par1", "par2") {
		for _, b := range fn.Blocks {
			for _, in := range b.Instrs {
				g, ok := in.(*ssa.Go)
				if !ok {
					continue
				}
				nGo++
				if w.fnPkg(fn) != "rsec16" {
					r.bad("RACE", "go:"+shortName(fn), w.ipos(g), "a goroutine is started outside the analysed rsec16 workers; its accesses are not covered by this rule")
					continue
				}
				checkGo(w, r, fn, g)
			}
		}
	}
	r.floor("RACE", "go statements in the library", nGo, 2)
	checkParallelParams(w, r)
	checkApplySlice(w, r)
}

func checkGo(w *World, r *Report, parent *ssa.Function, g *ssa.Go) {
	key := shortName(parent)
	pos := w.ipos(g)
	// the worker: a function literal (its captures are checked) or a named function of the package
	// (everything it uses is passed as an argument)
	mc, _ := g.Call.Value.(*ssa.MakeClosure)
	var lit *ssa.Function
	if mc != nil {
		lit = mc.Fn.(*ssa.Function)
	} else if sf := g.Call.StaticCallee(); sf != nil && len(sf.Blocks) > 0 && sf.Pkg == parent.Pkg {
		lit = sf
		mc = &ssa.MakeClosure{Fn: sf} // no bindings
	} else {
		r.unk("RACE", key+":closure", pos, "go statement starts neither a function literal nor a function of this package")
		return
	}
	// (a)
	after := reachableBlocks(g.Block(), nil)
	badA := ""
	for bi, bnd := range mc.Bindings {
		al, isAl := bnd.(*ssa.Alloc)
		if !isAl {
			badA = fmt.Sprintf("capture #%d is not a variable cell", bi)
			continue
		}
		// a cell created in the same iteration as the go statement (`i := i` inside the loop: a new
		// cell per iteration) belongs to that iteration's goroutine alone: its stores only have to
		// come before the go statement
		perIter := al.Heap && al.Block() != parent.Blocks[0] && instrDominates(al, g) && func() bool {
			// no path from the go statement back to itself that avoids the allocation
			if al.Block() == g.Block() {
				return true
			}
			seen := map[*ssa.BasicBlock]bool{}
			work := []*ssa.BasicBlock{}
			for _, s := range g.Block().Succs {
				if s != al.Block() && !seen[s] {
					seen[s] = true
					work = append(work, s)
				}
			}
			for len(work) > 0 {
				b := work[len(work)-1]
				work = work[:len(work)-1]
				if b == g.Block() {
					return false
				}
				for _, s := range b.Succs {
					if s != al.Block() && !seen[s] {
						seen[s] = true
						work = append(work, s)
					}
				}
			}
			return true
		}()
		for _, ref := range referrersOf(al) {
			st, isSt := ref.(*ssa.Store)
			if !isSt || st.Addr != ssa.Value(al) {
				continue
			}
			if perIter {
				if !instrDominates(st, g) {
					badA = "captured variable " + al.Comment + " is stored after the go statement at " + w.ipos(st)
				}
				continue
			}
			if st.Block() == g.Block() {
				// before or after the go in the same block?
				if !instrDominates(st, g) {
					badA = "captured variable " + al.Comment + " is stored after the go statement at " + w.ipos(st)
				}
				// a store before the go in a loop block is re-executed: block reaches itself?
				if after[st.Block()] && st.Block() != parent.Blocks[0] {
					for _, s := range reachableList(g.Block()) {
						if s == st.Block() {
							badA = "captured variable " + al.Comment + " is stored inside the loop that starts the goroutines (" + w.ipos(st) + "): goroutines share it"
						}
					}
				}
			} else if after[st.Block()] {
				badA = "captured variable " + al.Comment + " is stored at " + w.ipos(st) + ", which can run while goroutines are running"
			}
		}
	}
	if badA == "" {
		r.ok("RACE", key+":a:captures-stable", pos, fmt.Sprintf("%d captured variables, none stored once a goroutine may run; the index is a parameter", len(mc.Bindings)))
	} else {
		r.bad("RACE", key+":a:captures-stable", pos, badA)
	}
	// (b) closure only loads captures
	badB := ""
	var sliceCall *ssa.Call
	for _, fv := range lit.FreeVars {
		for _, ref := range referrersOf(fv) {
			switch x := ref.(type) {
			case *ssa.UnOp:
			case *ssa.Defer:
				// defer wg.Done()
				if f := x.Call.StaticCallee(); f == nil || f.String() != "(*sync.WaitGroup).Done" {
					badB = "captured variable used by a deferred call other than wg.Done"
				}
			case *ssa.DebugRef:
			default:
				badB = "captured variable " + fv.Name() + " is used other than by loading it: " + ref.String() + " at " + w.ipos(ref)
			}
		}
	}
	nCalls := 0
	for _, c := range callInstrs(lit) {
		if _, isDefer := c.(*ssa.Defer); isDefer {
			continue
		}
		if _, isB := c.Common().Value.(*ssa.Builtin); isB {
			continue
		}
		nCalls++
		if staticCalleeShort(c.Common()) == "rsec16.applyMatrixSlice" {
			sliceCall, _ = c.(*ssa.Call)
		} else {
			badB = "the worker calls " + calleeName(c.Common()) + " (only applyMatrixSlice is analysed)"
		}
	}
	for _, b := range lit.Blocks {
		for _, in := range b.Instrs {
			if st, isSt := in.(*ssa.Store); isSt {
				badB = "the worker stores to memory directly at " + w.ipos(st)
			}
		}
	}
	if sliceCall == nil {
		badB = "the worker does not call applyMatrixSlice"
	}
	if badB == "" {
		r.ok("RACE", key+":b:worker-effects", w.pos(lit.Pos()), "the worker only loads its captures and calls applyMatrixSlice once")
	} else {
		r.bad("RACE", key+":b:worker-effects", w.pos(lit.Pos()), badB)
		return
	}
	// (e) first instruction defer wg.Done
	if d, isD := firstRealInstr(lit).(*ssa.Defer); isD && d.Call.StaticCallee() != nil && d.Call.StaticCallee().String() == "(*sync.WaitGroup).Done" {
		r.ok("RACE", key+":e:done", w.pos(lit.Pos()), "the worker starts with defer wg.Done()")
	} else {
		r.bad("RACE", key+":e:done", w.pos(lit.Pos()), "the worker does not start with defer wg.Done(): a panic or early return would leave Wait hanging or let it return early")
	}
	// (c) range shape. Everything is judged on values of the parent function: a parameter
	// of the worker stands for the argument of the go statement, a captured variable (or a
	// parent local) that is assigned exactly once stands for the value assigned. So the range
	// may be computed inside the worker from its index parameter, or by the parent before the
	// go statement and passed in.
	args := sliceCall.Call.Args // m, in, out, outStart, outEnd, dataStart, dataEnd
	if len(args) != 7 || len(lit.Params) != len(g.Call.Args) {
		r.unk("RACE", key+":c:range", w.ipos(sliceCall), "unexpected applyMatrixSlice signature")
		return
	}
	storeOf := func(al *ssa.Alloc) ssa.Value {
		var v ssa.Value
		n := 0
		for _, ref := range referrersOf(al) {
			if st, ok := ref.(*ssa.Store); ok && st.Addr == ssa.Value(al) {
				v = st.Val
				n++
			}
		}
		if n != 1 {
			return nil
		}
		return v
	}
	var res func(v ssa.Value) ssa.Value
	res = func(v ssa.Value) ssa.Value {
		for k := 0; k < 8; k++ {
			switch x := v.(type) {
			case *ssa.Parameter:
				if x.Parent() == lit {
					for i, p := range lit.Params {
						if p == x {
							v = g.Call.Args[i]
						}
					}
					if v == ssa.Value(x) {
						return v
					}
					continue
				}
				return v
			case *ssa.UnOp:
				if x.Op != token.MUL {
					return v
				}
				var cell *ssa.Alloc
				switch y := x.X.(type) {
				case *ssa.FreeVar:
					for i, f := range lit.FreeVars {
						if f == y {
							cell, _ = mc.Bindings[i].(*ssa.Alloc)
						}
					}
				case *ssa.Alloc:
					cell = y
				}
				if cell == nil {
					return v
				}
				sv := storeOf(cell)
				if sv == nil {
					// assigned more than once (a parameter that is reassigned and then captured):
					// when every store dominates the go statement, the last of them is the value
					sv = lastStoreBefore(cell, g.Block())
				}
				if sv == nil {
					return cell
				}
				v = sv
				continue
			}
			return v
		}
		return v
	}
	// the spawning loop's induction variable
	var loopPhi *ssa.Phi
	if l := innermostLoop(naturalLoops(parent), g.Block()); l != nil {
		for _, in := range l.head.Instrs {
			phi, ok := in.(*ssa.Phi)
			if !ok {
				break
			}
			for _, e := range phi.Edges {
				if bo, ok := e.(*ssa.BinOp); ok && bo.Op == token.ADD && bo.X == ssa.Value(phi) {
					if c, ok := constInt(bo.Y); ok && c == 1 {
						loopPhi = phi
					}
				}
			}
		}
	}
	if loopPhi == nil {
		r.unk("RACE", key+":c:range", w.ipos(g), "the loop that starts the goroutines has no induction variable i = i+1")
		return
	}
	matchRange := func(start, end ssa.Value) (p, n ssa.Value, why string) {
		mul, ok := res(start).(*ssa.BinOp)
		if !ok || mul.Op != token.MUL {
			return nil, nil, "start is not i*P"
		}
		mx, my := res(mul.X), res(mul.Y)
		var pv ssa.Value
		if mx == ssa.Value(loopPhi) {
			pv = my
		} else if my == ssa.Value(loopPhi) {
			pv = mx
		} else {
			return nil, nil, "start is not the goroutine's index times the per-goroutine length"
		}
		if _, isCell := pv.(*ssa.Alloc); isCell {
			return nil, nil, "the per-goroutine length is a variable that is assigned more than once"
		}
		phi, ok := res(end).(*ssa.Phi)
		if !ok || len(phi.Edges) != 2 {
			return nil, nil, "end is not min(start+P, N)"
		}
		var sum *ssa.BinOp
		var nvEdge ssa.Value
		for _, e := range phi.Edges {
			if bo, ok := e.(*ssa.BinOp); ok && bo.Op == token.ADD {
				sum = bo
			} else {
				nvEdge = e
			}
		}
		if sum == nil || nvEdge == nil {
			return nil, nil, "end is not start+P clamped"
		}
		sx, sy := res(sum.X), res(sum.Y)
		if !((sx == ssa.Value(mul) && sy == pv) || (sy == ssa.Value(mul) && sx == pv)) {
			return nil, nil, "end is not start+P clamped"
		}
		n = res(nvEdge)
		if _, isCell := n.(*ssa.Alloc); isCell {
			return nil, nil, "the clamp bound is a variable that is assigned more than once"
		}
		// the clamp condition: sum > N chooses N
		okCond := false
		for _, ref := range referrersOf(sum) {
			if bo, ok := ref.(*ssa.BinOp); ok && bo.Op == token.GTR && bo.X == ssa.Value(sum) && res(bo.Y) == n {
				for _, r2 := range referrersOf(bo) {
					if iff, ok := r2.(*ssa.If); ok {
						tb := iff.Block().Succs[0]
						for pi, pred := range phi.Block().Preds {
							if pred == tb && phi.Edges[pi] == nvEdge {
								okCond = true
							}
						}
					}
				}
			}
		}
		// or: the last goroutine takes the rest - `if i == n-1 { end = N }` with n the second result
		// of the call whose first result is P (clause (d) shows the loop runs i = 0..n-1 with that n,
		// and n = ceil(N/P) makes (n-1)*P < N <= n*P)
		if !okCond {
			for _, pred := range phi.Block().Preds {
				idom := pred
				for k := 0; k < 2 && idom != nil && !okCond; k++ {
					if iff, ok := idom.Instrs[len(idom.Instrs)-1].(*ssa.If); ok {
						if bo, ok := iff.Cond.(*ssa.BinOp); ok && bo.Op == token.EQL && res(bo.X) == ssa.Value(loopPhi) {
							if sub, ok := res(bo.Y).(*ssa.BinOp); ok && sub.Op == token.SUB {
								one, isC := constInt(sub.Y)
								cx, isEx := res(sub.X).(*ssa.Extract)
								px, isPx := pv.(*ssa.Extract)
								if isC && one == 1 && isEx && isPx && cx.Index == 1 && px.Index == 0 && cx.Tuple == px.Tuple {
									tb := iff.Block().Succs[0]
									for pi, pr := range phi.Block().Preds {
										if pr == tb && phi.Edges[pi] == nvEdge && iff.Block().Succs[1] == phi.Block() {
											okCond = true
										}
									}
								}
							}
						}
					}
					idom = idom.Idom()
				}
			}
		}
		if !okCond {
			return nil, nil, "the clamp is not `if end > N { end = N }`"
		}
		return pv, n, ""
	}
	isZero := func(v ssa.Value) bool { c, ok := constInt(v); return ok && c == 0 }
	outParam, inParam := ssa.Value(parent.Params[2]), ssa.Value(parent.Params[1])
	var P, N ssa.Value
	dim := ""
	why := ""
	if isZero(args[3]) {
		// outStart..outEnd whole: outEnd == len(out)
		lc := isBuiltinCall(res(args[4]), "len")
		if lc != nil && res(lc.Call.Args[0]) == outParam && res(args[2]) == outParam {
			P, N, why = matchRange(args[5], args[6])
			dim = "data"
		} else {
			why = "the out dimension is not passed whole (0, len(out))"
		}
	} else if isZero(args[5]) {
		// data whole: dataEnd == len(in[0]) (or len(out[0]))
		whole := false
		if lc := isBuiltinCall(res(args[6]), "len"); lc != nil {
			if ld, ok := lc.Call.Args[0].(*ssa.UnOp); ok && ld.Op == token.MUL {
				if ia, ok := ld.X.(*ssa.IndexAddr); ok {
					if base := res(ia.X); base == inParam || base == outParam {
						whole = true
					}
				}
			}
		}
		if whole {
			P, N, why = matchRange(args[3], args[4])
			dim = "out"
		} else {
			why = "the data dimension is not passed whole (0, len(in[0]))"
		}
	} else {
		why = "neither dimension is passed whole"
	}
	if P == nil || N == nil {
		r.bad("RACE", key+":c:range", w.ipos(sliceCall), "the goroutine's range is not [i*P, min(i*P+P, N)): "+why+" - ranges of different goroutines cannot be shown disjoint")
		return
	}
	r.ok("RACE", key+":c:range", w.ipos(sliceCall), "range is [i*P, min(i*P+P, N)) over the "+dim+" dimension, the other dimension whole")
	// N is the true length; P is result #0 of calculateParallelParams(N, ...), stored unscaled
	nv := N
	okN := false
	if lc := isBuiltinCall(nv, "len"); lc != nil {
		p := deepPath(lc.Call.Args[0])
		if dim == "data" && p.Root == outParam && p.Path == "[*]" {
			if ia, ok := lc.Call.Args[0].(*ssa.UnOp); ok {
				if x, ok := ia.X.(*ssa.IndexAddr); ok && isZero(x.Index) {
					okN = true
				}
			}
		}
		if dim == "out" && p.Root == outParam && p.Path == "" {
			okN = true
		}
	}
	if okN {
		r.ok("RACE", key+":c:N", w.ipos(g), "N is the length of the partitioned dimension of out")
	} else {
		r.bad("RACE", key+":c:N", w.ipos(g), "the clamp bound N is not the length of the partitioned dimension of out")
	}
	pv := P
	var cpp *ssa.Call
	if ex, ok := pv.(*ssa.Extract); ok && ex.Index == 0 {
		cpp = callOf(ex.Tuple, "rsec16.calculateParallelParams")
	}
	if cpp == nil {
		r.bad("RACE", key+":c:P", w.ipos(g), "the per-goroutine length is not the first result of calculateParallelParams stored as is (it is rescaled or computed elsewhere): P>=1 and the coverage of [0,N) are not established")
		return
	}
	// arg0 must be N's value
	a0ok := res(cpp.Call.Args[0]) == nv
	minC, okMin := constInt(cpp.Call.Args[2])
	divC, okDiv := constInt(cpp.Call.Args[3])
	switch {
	case !a0ok:
		r.bad("RACE", key+":c:P", w.ipos(cpp), "calculateParallelParams is not given N (the length that bounds the ranges) as the total length: the goroutines' ranges need not cover [0,N)")
	case !okMin || minC < 1 || !okDiv || divC < 1:
		r.bad("RACE", key+":c:P", w.ipos(cpp), "minimum length and divisor must be constants >= 1")
	default:
		r.ok("RACE", key+":c:P", w.ipos(cpp), fmt.Sprintf("P = calculateParallelParams(N, n, %d, %d)#0 >= %d", minC, divC, minC))
	}
	if dim == "data" {
		if okDiv && divC%2 == 0 {
			r.ok("RACE", key+":d:word-aligned", w.ipos(cpp), fmt.Sprintf("byte ranges start at multiples of %d: no 16-bit word is split between goroutines", divC))
		} else {
			r.bad("RACE", key+":d:word-aligned", w.ipos(cpp), "the byte partition is not a multiple of an even divisor: a range boundary can fall inside a 16-bit word, and the kernels process whole words")
		}
	}
	// numGoroutines guard
	guarded := false
	for _, c := range cmpsAt(cpp.Block()) {
		sameCell := false
		if la, ok := c.X.(*ssa.UnOp); ok && la.Op == token.MUL {
			if lb, ok := stripConv(cpp.Call.Args[1]).(*ssa.UnOp); ok && lb.Op == token.MUL && la.X == lb.X {
				if cell, ok := la.X.(*ssa.Alloc); ok {
					// two loads of a parameter's cell (the parameter is captured by the worker): the same
					// value when every store is the initial spill or comes after the call
					sameCell = true
					for _, ref := range referrersOf(cell) {
						if st, ok := ref.(*ssa.Store); ok && st.Addr == ssa.Value(cell) {
							if _, isPrm := st.Val.(*ssa.Parameter); !isPrm && !instrDominates(cpp, st) {
								sameCell = false
							}
						}
					}
				}
			}
		}
		if c.Op == token.GEQ && (c.X == stripConv(cpp.Call.Args[1]) || sameCell) {
			if v, ok := constInt(c.Y); ok && v >= 1 {
				guarded = true
			}
		}
	}
	if guarded {
		r.ok("RACE", key+":d:divisor-n", w.ipos(cpp), "numGoroutines >= 1 is established by the dominating panic guard")
	} else {
		r.bad("RACE", key+":d:divisor-n", w.ipos(cpp), "calculateParallelParams divides by numGoroutines without a dominating numGoroutines >= 1 guard")
	}
	// (d) loop bound and wg.Add
	var cnt ssa.Value
	for _, ref := range referrersOf(cpp) {
		if ex, ok := ref.(*ssa.Extract); ok && ex.Index == 1 {
			cnt = ex
		}
	}
	// the go's argument is the loop phi; its bound
	boundOK, startOK, stepOK := false, false, false
	if loopPhi != nil {
		for _, e := range loopPhi.Edges {
			if isZero(e) {
				startOK = true
			}
			if bo, ok := e.(*ssa.BinOp); ok && bo.Op == token.ADD && bo.X == ssa.Value(loopPhi) {
				if c, ok := constInt(bo.Y); ok && c == 1 {
					stepOK = true
				}
			}
		}
		for _, ref := range referrersOf(loopPhi) {
			if bo, ok := ref.(*ssa.BinOp); ok && bo.Op == token.LSS && bo.X == ssa.Value(loopPhi) && cnt != nil && (bo.Y == cnt || res(bo.Y) == cnt) {
				boundOK = true
			}
		}
	}
	if boundOK && startOK && stepOK {
		r.ok("RACE", key+":d:count", w.ipos(g), "goroutines i = 0..n-1 with n the unmodified second result of calculateParallelParams (= ceil(N/P))")
	} else {
		r.bad("RACE", key+":d:count", w.ipos(g), "the number of goroutines started is not exactly the second result of calculateParallelParams (ceil(N/P)): with fewer the tail of every shard is never computed, with a different count ranges are wrong")
	}
	// (e) wg.Add / Wait
	var wgCell ssa.Value
	for _, c := range callInstrs(lit) {
		if d, ok := c.(*ssa.Defer); ok && len(d.Call.Args) == 1 {
			if ld, ok := d.Call.Args[0].(*ssa.UnOp); ok {
				_ = ld
			}
			wgCell = d.Call.Args[0]
		}
	}
	_ = wgCell
	addOK, waitOK := false, false
	var waitCall ssa.CallInstruction
	for _, c := range callInstrs(parent) {
		f := c.Common().StaticCallee()
		if f == nil {
			continue
		}
		switch f.String() {
		case "(*sync.WaitGroup).Add":
			if cnt != nil && (c.Common().Args[1] == cnt || res(c.Common().Args[1]) == cnt) && instrDominates(c, g) {
				addOK = true
			}
		case "(*sync.WaitGroup).Wait":
			waitCall = c
		}
	}
	if waitCall != nil {
		waitOK = true
		// every return reachable from the go must be dominated by Wait
		for b := range reachableBlocks(g.Block(), nil) {
			if len(b.Instrs) == 0 {
				continue
			}
			if ret, ok := b.Instrs[len(b.Instrs)-1].(*ssa.Return); ok {
				if !instrDominates(waitCall, ret) {
					waitOK = false
				}
			}
		}
	}
	if addOK {
		r.ok("RACE", key+":e:add", w.ipos(g), "wg.Add(n) with the loop bound, before the loop")
	} else {
		r.bad("RACE", key+":e:add", w.ipos(g), "wg.Add is not called with the number of goroutines started")
	}
	if waitOK {
		r.ok("RACE", key+":e:wait", w.ipos(g), "wg.Wait() dominates every return after the goroutines were started")
	} else {
		r.bad("RACE", key+":e:wait", w.ipos(g), "the function can return without wg.Wait(): the caller would read shards that workers are still writing")
	}
}

func reachableList(b *ssa.BasicBlock) []*ssa.BasicBlock {
	var out []*ssa.BasicBlock
	seen := map[*ssa.BasicBlock]bool{}
	var dfs func(x *ssa.BasicBlock)
	dfs = func(x *ssa.BasicBlock) {
		for _, s := range x.Succs {
			if !seen[s] {
				seen[s] = true
				out = append(out, s)
				dfs(s)
			}
		}
	}
	dfs(b)
	return out
}

func firstRealInstr(fn *ssa.Function) ssa.Instruction {
	for _, in := range fn.Blocks[0].Instrs {
		if _, ok := in.(*ssa.DebugRef); ok {
			continue
		}
		return in
	}
	return nil
}

// checkParallelParams verifies the shape of calculateParallelParams.
func checkParallelParams(w *World, r *Report) {
	fn := w.Fn("rsec16.calculateParallelParams")
	if fn == nil || len(fn.Params) != 4 {
		r.unk("RACE", "calculateParallelParams", "-", "function not found")
		return
	}
	total, _, minP, div := fn.Params[0], fn.Params[1], fn.Params[2], fn.Params[3]
	var ret *ssa.Return
	for _, b := range fn.Blocks {
		if rt, ok := b.Instrs[len(b.Instrs)-1].(*ssa.Return); ok {
			ret = rt
		}
	}
	if ret == nil || len(ret.Results) != 2 {
		r.unk("RACE", "calculateParallelParams", w.pos(fn.Pos()), "unexpected shape")
		return
	}
	P := ret.Results[0]
	// P = phi[X, X + (div - X%div)], X = phi[Y, minP] with Y<minP clamp
	lower := func() string {
		phi, ok := P.(*ssa.Phi)
		if !ok || len(phi.Edges) != 2 {
			return "result 0 is not `per` optionally rounded up"
		}
		var X ssa.Value
		var add *ssa.BinOp
		for _, e := range phi.Edges {
			if bo, ok := e.(*ssa.BinOp); ok && bo.Op == token.ADD {
				add = bo
			} else {
				X = e
			}
		}
		if X == nil || add == nil || add.X != X {
			return "rounding is not X + (div - X%div)"
		}
		sub, ok := add.Y.(*ssa.BinOp)
		if !ok || sub.Op != token.SUB || sub.X != ssa.Value(div) {
			return "rounding does not add (div - rem)"
		}
		rem, ok := sub.Y.(*ssa.BinOp)
		if !ok || rem.Op != token.REM || rem.X != X || rem.Y != ssa.Value(div) {
			return "rem is not X % div"
		}
		// rounding applied only when rem != 0
		okRem := false
		for _, c := range cmpsAt(add.Block()) {
			if c.Op == token.NEQ && c.X == ssa.Value(rem) {
				if z, ok := constInt(c.Y); ok && z == 0 {
					okRem = true
				}
			}
		}
		if !okRem {
			return "rounding is not guarded by rem != 0"
		}
		xp, ok := X.(*ssa.Phi)
		if !ok || len(xp.Edges) != 2 {
			return "no clamp to the minimum"
		}
		var Y ssa.Value
		hasMin := false
		for _, e := range xp.Edges {
			if e == ssa.Value(minP) {
				hasMin = true
			} else {
				Y = e
			}
		}
		if !hasMin || Y == nil {
			return "no clamp to the minimum"
		}
		// the min edge is taken exactly when Y < min
		okClamp := false
		for _, ref := range referrersOf(Y) {
			if bo, ok := ref.(*ssa.BinOp); ok && bo.Op == token.LSS && bo.X == Y && bo.Y == ssa.Value(minP) {
				for _, r2 := range referrersOf(bo) {
					if iff, ok := r2.(*ssa.If); ok {
						tb := iff.Block().Succs[0]
						for pi, pred := range xp.Block().Preds {
							if pred == tb && xp.Edges[pi] == ssa.Value(minP) {
								okClamp = true
							}
						}
					}
				}
			}
		}
		if !okClamp {
			return "the clamp is not `if per < min { per = min }`"
		}
		return ""
	}()
	if lower == "" {
		r.ok("RACE", "calculateParallelParams:lower-bound", w.pos(fn.Pos()), "result 0 = roundup(max(ceil(total/n), min), div) >= min")
	} else {
		r.bad("RACE", "calculateParallelParams:lower-bound", w.pos(fn.Pos()), "cannot show per-goroutine length >= min: "+lower)
	}
	// result 1 = (total + P - 1) / P
	isCeil := func(v ssa.Value, a, b ssa.Value) bool {
		q, ok := v.(*ssa.BinOp)
		if !ok || q.Op != token.QUO || q.Y != b {
			return false
		}
		if s1, ok := q.X.(*ssa.BinOp); ok && s1.Op == token.SUB {
			if c, ok := constInt(s1.Y); ok && c == 1 {
				if s0, ok := s1.X.(*ssa.BinOp); ok && s0.Op == token.ADD && ((s0.X == a && s0.Y == b) || (s0.Y == a && s0.X == b)) {
					return true
				}
			}
		}
		return false
	}
	okCeil := isCeil(ret.Results[1], ssa.Value(total), P)
	if c, ok := ret.Results[1].(*ssa.Call); ok && !okCeil {
		// a small helper ceilDiv(a, b) = (a + b - 1) / b called with (total, P)
		if g := c.Call.StaticCallee(); g != nil && w.inModule(g) && len(g.Params) == 2 && len(c.Call.Args) == 2 && c.Call.Args[0] == ssa.Value(total) && c.Call.Args[1] == P {
			all, nret := true, 0
			for _, gb := range g.Blocks {
				if gr, ok := gb.Instrs[len(gb.Instrs)-1].(*ssa.Return); ok {
					nret++
					if len(gr.Results) != 1 || !isCeil(gr.Results[0], ssa.Value(g.Params[0]), ssa.Value(g.Params[1])) {
						all = false
					}
				}
			}
			okCeil = all && nret > 0
		}
	}
	if okCeil {
		r.ok("RACE", "calculateParallelParams:count", w.pos(fn.Pos()), "result 1 = ceil(total / P): n*P >= total, so the clamped ranges cover [0,total)")
	} else {
		r.bad("RACE", "calculateParallelParams:count", w.pos(fn.Pos()), "result 1 is not (total + P - 1) / P: the goroutines' ranges need not cover the whole length")
	}
}

// checkApplySlice verifies that applyMatrixSlice writes only out[i][dataStart:dataEnd], outStart <= i < outEnd.
func checkApplySlice(w *World, r *Report) {
	fn := w.Fn("rsec16.applyMatrixSlice")
	if fn == nil || len(fn.Params) != 7 {
		r.unk("RACE", "applyMatrixSlice", "-", "function not found")
		return
	}
	in, out, outStart, outEnd, dataStart, dataEnd := ssa.Value(fn.Params[1]), ssa.Value(fn.Params[2]), ssa.Value(fn.Params[3]), ssa.Value(fn.Params[4]), ssa.Value(fn.Params[5]), ssa.Value(fn.Params[6])
	// applyMatrixSlice and the private single-call-site helpers its body may have been moved into
	var fns []*ssa.Function
	for _, f := range region(fn) {
		if f == fn || w.uniqueSite(f) != nil {
			fns = append(fns, f)
		}
	}
	for _, f := range fns {
		for _, b := range f.Blocks {
			for _, ins := range b.Instrs {
				if st, ok := ins.(*ssa.Store); ok {
					r.bad("RACE", "applyMatrixSlice:no-stores", w.ipos(st), "applyMatrixSlice stores to memory itself; only the kernels' out argument may be written")
					return
				}
			}
		}
	}
	r.ok("RACE", "applyMatrixSlice:no-stores", w.pos(fn.Pos()), "no store instruction; memory is written only by the kernels it calls")
	inFns := func(g *ssa.Function) bool {
		for _, f := range fns {
			if f == g {
				return true
			}
		}
		return false
	}
	// rowOf: v is X[idx] (a load of an element of slice X); returns X and idx, both looked through helper parameters
	rowOf := func(v ssa.Value) (ssa.Value, ssa.Value, bool) {
		ld, ok := w.up(v).(*ssa.UnOp)
		if !ok || ld.Op != token.MUL {
			return nil, nil, false
		}
		ia, ok := ld.X.(*ssa.IndexAddr)
		if !ok {
			return nil, nil, false
		}
		return w.up(ia.X), w.up(ia.Index), true
	}
	n := 0
	nCopy := 0
	for _, f := range fns {
		for _, c := range callInstrs(f) {
			name := staticCalleeShort(c.Common())
			if bi, isB := c.Common().Value.(*ssa.Builtin); isB && bi.Name() == "copy" && len(c.Common().Args) == 2 {
				// a copy into an output row is a kernel too: same range on both sides
				nCopy++
				key := fmt.Sprintf("applyMatrixSlice:copy#%d", nCopy-1)
				okRange := func(v ssa.Value, wantBase ssa.Value) bool {
					sl, ok := w.up(v).(*ssa.Slice)
					if !ok || sl.Low == nil || sl.High == nil || w.up(sl.Low) != dataStart || w.up(sl.High) != dataEnd {
						return false
					}
					base, _, ok := rowOf(sl.X)
					for k := 0; ok && k < 3; k++ {
						rs, isSl := base.(*ssa.Slice)
						if !isSl {
							break
						}
						base = w.up(rs.X)
					}
					return ok && base == wantBase
				}
				a := c.Common().Args
				touchesOut := false
				backSlice(a[0], func(v ssa.Value) bool {
					if w.up(v) == out {
						touchesOut = true
					}
					return !touchesOut
				})
				if !touchesOut {
					continue
				}
				if okRange(a[0], out) && okRange(a[1], in) {
					r.ok("RACE", key, w.ipos(c), "copy(out[i][dataStart:dataEnd], in[j][dataStart:dataEnd])")
				} else {
					r.bad("RACE", key, w.ipos(c), "a copy into an output row does not take the worker's own range [dataStart:dataEnd) on both sides: every worker but the first writes bytes that belong to another part of the shard")
				}
				continue
			}
			if strings.HasPrefix(name, "(gf2p16.Matrix).At") || name == "" {
				if _, isB := c.Common().Value.(*ssa.Builtin); isB || name != "" {
					continue
				}
			}
			if callee := c.Common().StaticCallee(); callee != nil && inFns(callee) {
				continue // a helper of the region, analysed here too
			}
			if name != "gf2p16.MulByteSliceLE" && name != "gf2p16.MulAndAddByteSliceLE" {
				r.bad("RACE", "applyMatrixSlice:callee:"+name, w.ipos(c), "applyMatrixSlice calls "+calleeName(c.Common())+", whose effects are not analysed")
				continue
			}
			n++
			key := fmt.Sprintf("applyMatrixSlice:kernel-call#%d", n-1)
			a := c.Common().Args
			okOut, okIn := false, false
			if sl, ok := w.up(a[2]).(*ssa.Slice); ok && sl.Low != nil && sl.High != nil && w.up(sl.Low) == dataStart && w.up(sl.High) == dataEnd {
				if base, idx, ok := rowOf(sl.X); ok && base == out {
					// index phi from outStart, bounded by outEnd
					if phi, ok := idx.(*ssa.Phi); ok {
						st, bd := false, false
						for _, e := range phi.Edges {
							if w.up(e) == outStart {
								st = true
							}
						}
						for _, cm := range w.factsAt(c) {
							if cm.Op == token.LSS && cm.Y != nil && w.up(cm.X) == ssa.Value(phi) && w.up(cm.Y) == outEnd {
								bd = true
							}
						}
						okOut = st && bd
					}
				}
			}
			if sl, ok := w.up(a[1]).(*ssa.Slice); ok && sl.Low != nil && sl.High != nil && w.up(sl.Low) == dataStart && w.up(sl.High) == dataEnd {
				if base, _, ok := rowOf(sl.X); ok {
					// any row of in, also of a reslice of it (in[1:]): rows are only read
					for k := 0; k < 3; k++ {
						rs, isSl := base.(*ssa.Slice)
						if !isSl {
							break
						}
						base = w.up(rs.X)
					}
					if base == in {
						okIn = true
					}
				}
			}
			switch {
			case !okOut:
				r.bad("RACE", key, w.ipos(c), "the kernel's written argument is not out[i][dataStart:dataEnd] with outStart <= i < outEnd")
			case !okIn:
				r.bad("RACE", key, w.ipos(c), "the kernel's read argument is not in[j][dataStart:dataEnd]")
			default:
				r.ok("RACE", key, w.ipos(c), name+"(c, in[j][dataStart:dataEnd], out[i][dataStart:dataEnd]), outStart <= i < outEnd")
			}
		}
	}
	r.floor("RACE", "kernel calls in applyMatrixSlice", n, 2)
}

// lastStoreBefore: for a local cell that is stored several times, the value of the store that
// is the last one on every path to blk - every store's block must dominate blk, and the stores
// must be totally ordered by dominance (same block: by position). nil if that cannot be shown.
func lastStoreBefore(cell *ssa.Alloc, blk *ssa.BasicBlock) ssa.Value {
	var stores []*ssa.Store
	for _, ref := range referrersOf(cell) {
		if st, ok := ref.(*ssa.Store); ok && st.Addr == ssa.Value(cell) {
			if st.Block() == blk || !st.Block().Dominates(blk) {
				return nil
			}
			stores = append(stores, st)
		}
	}
	if len(stores) == 0 {
		return nil
	}
	idx := func(st *ssa.Store) int {
		for i, in := range st.Block().Instrs {
			if in == ssa.Instruction(st) {
				return i
			}
		}
		return -1
	}
	last := stores[0]
	for _, st := range stores[1:] {
		switch {
		case st.Block() == last.Block():
			if idx(st) > idx(last) {
				last = st
			}
		case last.Block().Dominates(st.Block()):
			last = st
		case st.Block().Dominates(last.Block()):
		default:
			return nil
		}
	}
	return last.Val
}
