package main

import (
	"fmt"
	"path/filepath"
	"strings"
)

// Fixture self-test: rules whose instance count on the real tree is zero (no
// run-time glob pattern, no unchecked Buffer.Next, no stray mutating call, no
// late write to package state, no mismatched DeepEqual) are run on the tiny
// module under /verif/fixtures/gopar on every check that uses them. The
// positive example must be reported, the negative one must not.

type fixtureExpect struct {
	rule     string
	run      func(w *World, r *Report)
	violated []string // substrings of obligation keys that must be violated
	clean    []string // substrings of obligation keys that must be discharged
}

var fixtureExpects = map[string]fixtureExpect{
	"GLOB": {"GLOB", func(w *World, r *Report) { ruleGLOB(w, r, globAll) },
		[]string{"FindWithPrefixAndSuffix:path/filepath.Glob#0", "FindWithPrefixAndSuffix:lists", "FindWithPrefixAndSuffix:literal"},
		[]string{"par2.globConstant:path/filepath.Glob#0"}},
	"BUFNEXT": {"WIRE", func(w *World, r *Report) { ruleWIRE(w, r) },
		[]string{"BUFNEXT:par2.nextUnchecked#0"}, []string{"BUFNEXT:par2.nextChecked#0"}},
	"EFF": {"EFF", func(w *World, r *Report) { ruleEFF(w, r, effOpts{e1: true, e3: true}) },
		[]string{"E1:par2.removeStray:os.Remove#0", "E3:verify:par2.removeStray"}, nil},
	"GLOBALS": {"GLOBALS", func(w *World, r *Report) { ruleGLOBALS(w, r, nil) },
		[]string{"par2.callCount:par2.bump"}, []string{"GLOBALS:par2.table"}},
	"DEEPEQ": {"DEEPEQ", func(w *World, r *Report) { ruleDEEPEQ(w, r, "par2") },
		[]string{"par2.deepMismatch:DeepEqual#0"}, []string{"par2.deepSame:DeepEqual#0"}},
	"ERRKEEP": {"ERRKEEP", func(w *World, r *Report) { ruleERRKEEP(w, r) },
		[]string{"par2.writeOverwriting$1:store(err)#0"}, []string{"par2.writeKeeping$1:store(err)#0"}},
	"EXTCUT": {"EXTCUT", func(w *World, r *Report) { ruleEXTCUT(w, r) },
		[]string{"par2.baseByCutset:strings.TrimRight#0"}, nil},
	"DIVZERO": {"DIVZERO", func(w *World, r *Report) { ruleDIVZERO(w, r, "cmd/par") },
		[]string{"cmd/par.rateUnchecked:div#0"}, []string{"cmd/par.rateChecked:div#0"}},
	"IDXLEN": {"IDXLEN", func(w *World, r *Report) { ruleIDXLEN(w, r, "gf2p16") },
		[]string{"gf2p16.hintUnchecked:index#0"}, []string{"gf2p16.hintChecked:index#0"}},
	"FMTCONST": {"FMTCONST", func(w *World, r *Report) { ruleFMTCONST(w, r) },
		[]string{"par2.nameByFormat:fmt.Sprintf#0"}, []string{"par2.nameByArg:fmt.Sprintf#0"}},
}

var fixtureWorld *World

func runFixtures(r *Report, verifDir string, names []string) {
	if len(names) == 0 {
		return
	}
	if fixtureWorld == nil {
		w, err := loadWorld(filepath.Join(verifDir, "fixtures", "gopar"), "amd64", true)
		if err != nil {
			r.add("SELFTEST", "fixtures:load", Undecided, "-", "cannot load the fixture module: "+err.Error())
			return
		}
		fixtureWorld = w
	}
	for _, name := range names {
		fe, ok := fixtureExpects[name]
		if !ok {
			r.add("SELFTEST", name, Undecided, "-", "no fixture expectation registered")
			continue
		}
		fr := newReport()
		runGuarded(fr, "fixture:"+name, func() { fe.run(fixtureWorld, fr) })
		status := func(sub string) (Status, bool) {
			for _, o := range fr.obls {
				if strings.Contains(o.Key, sub) {
					return o.st, true
				}
			}
			return Discharged, false
		}
		for _, v := range fe.violated {
			st, found := status(v)
			key := "SELFTEST:" + name + ":positive:" + v
			if found && st == Violated {
				r.add("SELFTEST", name+":positive:"+v, Discharged, "fixtures/gopar", "rule "+fe.rule+" reports the seeded positive example")
			} else {
				r.add("SELFTEST", name+":positive:"+v, Undecided, "fixtures/gopar", fmt.Sprintf("rule %s did not report its positive fixture (%s found=%v status=%v): the rule has gone blind", fe.rule, key, found, st))
			}
		}
		for _, v := range fe.clean {
			st, found := status(v)
			if found && st == Discharged {
				r.add("SELFTEST", name+":negative:"+v, Discharged, "fixtures/gopar", "rule "+fe.rule+" accepts the negative example")
			} else {
				r.add("SELFTEST", name+":negative:"+v, Undecided, "fixtures/gopar", fmt.Sprintf("rule %s did not accept its negative fixture (found=%v status=%v)", fe.rule, found, st))
			}
		}
	}
}
