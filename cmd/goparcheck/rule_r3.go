package main

import (
	"fmt"
	"go/token"
	"go/types"
	"sort"
	"strings"

	"golang.org/x/tools/go/ssa"
)

// Rules motivated by the third round of seeded changes. Each is a structural
// necessary condition: breaking it changes behaviour for some input, and an
// edit that keeps the behaviour keeps the shape the rule looks at.

// ---------------------------------------------------------------------------
// natural loops

type natLoop struct {
	head *ssa.BasicBlock
	body map[*ssa.BasicBlock]bool
}

func naturalLoops(fn *ssa.Function) []*natLoop {
	byHead := map[*ssa.BasicBlock]*natLoop{}
	var order []*ssa.BasicBlock
	for _, b := range fn.Blocks {
		for _, h := range b.Succs {
			if !h.Dominates(b) {
				continue
			}
			l := byHead[h]
			if l == nil {
				l = &natLoop{head: h, body: map[*ssa.BasicBlock]bool{h: true}}
				byHead[h] = l
				order = append(order, h)
			}
			stack := []*ssa.BasicBlock{b}
			for len(stack) > 0 {
				x := stack[len(stack)-1]
				stack = stack[:len(stack)-1]
				if l.body[x] {
					continue
				}
				l.body[x] = true
				stack = append(stack, x.Preds...)
			}
		}
	}
	var out []*natLoop
	for _, h := range order {
		out = append(out, byHead[h])
	}
	return out
}

// innermostLoop returns the smallest natural loop containing b.
func innermostLoop(loops []*natLoop, b *ssa.BasicBlock) *natLoop {
	var best *natLoop
	for _, l := range loops {
		if l.body[b] && (best == nil || len(l.body) < len(best.body)) {
			best = l
		}
	}
	return best
}

// ---------------------------------------------------------------------------
// FILTER: selection of the parity rows is a filter, not a prefix scan

const ruleFILTERText = "every surviving parity shard is a candidate: in rsec16 Coder.ReconstructData the loop that collects the parity rows to use leaves early only on conditions over the loop index, the number of shards collected and the coder's dimensions - never on the value of a parity shard (a nil shard is skipped, it does not end the scan), and the scan starts at row 0"

func ruleFILTER(w *World, r *Report) {
	r.rule("FILTER", ruleFILTERText)
	n := 0
	type cand struct {
		fn     *ssa.Function
		parity *ssa.Parameter
	}
	var cands []cand
	for _, fn := range w.funcsInPkgs("rsec16") {
		if fn.Name() != "ReconstructData" || fn.Signature.Recv() == nil || len(fn.Params) < 3 {
			continue
		}
		cands = append(cands, cand{fn, fn.Params[2]})
	}
	// the scan may have been moved into a private helper that is handed the parity shards
	for i := 0; i < len(cands) && i < 8; i++ {
		c := cands[i]
		for _, ci := range callInstrs(c.fn) {
			g := ci.Common().StaticCallee()
			if g == nil || len(g.Blocks) == 0 || g.Pkg != c.fn.Pkg || ci.Common().IsInvoke() {
				continue
			}
			for j, a := range ci.Common().Args {
				if stripConv(a) == ssa.Value(c.parity) && j < len(g.Params) {
					cands = append(cands, cand{g, g.Params[j]})
				}
			}
		}
	}
	for _, cd := range cands {
		fn, parity := cd.fn, cd.parity
		loops := naturalLoops(fn)
		// the loops that read parity[i]
		type scan struct {
			l   *natLoop
			idx ssa.Value
			at  ssa.Instruction
		}
		var scans []*scan
		for _, b := range fn.Blocks {
			for _, in := range b.Instrs {
				ia, ok := in.(*ssa.IndexAddr)
				if !ok || stripConv(ia.X) != ssa.Value(parity) {
					continue
				}
				l := innermostLoop(loops, b)
				if l == nil {
					continue
				}
				dup := false
				for _, s := range scans {
					if s.l == l {
						dup = true
					}
				}
				if !dup {
					scans = append(scans, &scan{l, ia.Index, ia})
				}
			}
		}
		for k, sc := range scans {
			key := fmt.Sprintf("%s:parity-scan#%d", shortName(fn), k)
			l := sc.l
			n++
			bad := ""
			var blocks []*ssa.BasicBlock
			for b := range l.body {
				blocks = append(blocks, b)
			}
			sort.Slice(blocks, func(i, j int) bool { return blocks[i].Index < blocks[j].Index })
			for _, b := range blocks {
				iff, ok := b.Instrs[len(b.Instrs)-1].(*ssa.If)
				if !ok {
					continue
				}
				exits := false
				for _, s := range b.Succs {
					if !l.body[s] {
						exits = true
					}
				}
				if !exits {
					continue
				}
				if shallowDependsOnElem(iff.Cond, parity) {
					bad = fmt.Sprintf("the scan ends at %s on a condition that reads a parity shard (%s): shards after the first gap are never considered", w.ipos(iff), iff.Cond)
				}
			}
			// inside the scan a shard may be left out only because it is nil: every other condition on
			// parity[i] on the way to the statement that collects it drops a surviving shard
			if bad == "" {
				for _, b := range blocks {
					for _, in := range b.Instrs {
						ap, ok := in.(*ssa.Call)
						if !ok || isBuiltinCall(ap, "append") == nil {
							continue
						}
						for _, f := range domFacts(b) {
							if !l.body[f.If.Block()] {
								continue
							}
							for _, c := range factCmps(f) {
								x, y := c.X, c.Y
								if y == nil {
									if deepDependsOnElem(x, parity) {
										bad = fmt.Sprintf("a parity shard is collected only if %s holds (%s): a surviving shard can be left out for a reason other than being nil", f.Cond, w.ipos(f.If))
									}
									continue
								}
								nilCmp := (isNilConst(y) && elemOfParam(x, parity) != nil) || (isNilConst(x) && elemOfParam(y, parity) != nil)
								if nilCmp {
									continue
								}
								if deepDependsOnElem(x, parity) || deepDependsOnElem(y, parity) {
									bad = fmt.Sprintf("a parity shard is collected only if %s holds (%s): a surviving shard can be left out for a reason other than being nil", f.Cond, w.ipos(f.If))
								}
							}
						}
					}
				}
			}
			// the scan starts at row 0: the index phi's initial value is the constant 0 (or -1 for a range loop)
			if bad == "" {
				if lo, ok := loopInit(sc.idx, l); ok {
					if c, isC := constInt(lo); !isC || (c != 0 && c != -1) {
						bad = fmt.Sprintf("the scan starts at %s instead of row 0", lo)
					}
				}
			}
			if bad != "" {
				r.bad("FILTER", key, w.ipos(sc.at), bad)
			} else {
				r.ok("FILTER", key, w.ipos(sc.at), "loop exits depend only on the index, the collected count and the dimensions; nil shards are skipped inside the body")
			}
		}
	}
	r.floor("FILTER", "parity-row selection loops", n, 1)
}

// elemOfParam returns the index value if v is p[idx] (load of IndexAddr on p), else nil.
func elemOfParam(v ssa.Value, p ssa.Value) ssa.Value {
	v = stripConv(v)
	if u, ok := v.(*ssa.UnOp); ok && u.Op == token.MUL {
		if ia, ok := u.X.(*ssa.IndexAddr); ok && stripConv(ia.X) == p {
			return ia.Index
		}
	}
	return nil
}

// shallowDependsOnElem: does the expression tree of v (not crossing phis nor
// the argument of len/cap) read an element of slice parameter p?
func shallowDependsOnElem(v ssa.Value, p ssa.Value) bool {
	seen := map[ssa.Value]bool{}
	var walk func(v ssa.Value) bool
	walk = func(v ssa.Value) bool {
		if v == nil || seen[v] {
			return false
		}
		seen[v] = true
		if elemOfParam(v, p) != nil {
			return true
		}
		switch x := v.(type) {
		case *ssa.Phi:
			return false
		case *ssa.Call:
			if isBuiltinCall(x, "len") != nil || isBuiltinCall(x, "cap") != nil {
				return false
			}
		}
		if in, ok := v.(ssa.Instruction); ok {
			for _, op := range in.Operands(nil) {
				if *op != nil && walk(*op) {
					return true
				}
			}
		}
		return false
	}
	return walk(v)
}

// deepDependsOnElem: like shallowDependsOnElem but also through len/cap (not through phis).
func deepDependsOnElem(v ssa.Value, p ssa.Value) bool {
	seen := map[ssa.Value]bool{}
	var walk func(v ssa.Value) bool
	walk = func(v ssa.Value) bool {
		if v == nil || seen[v] {
			return false
		}
		seen[v] = true
		if elemOfParam(v, p) != nil {
			return true
		}
		if _, isPhi := v.(*ssa.Phi); isPhi {
			return false
		}
		if in, ok := v.(ssa.Instruction); ok {
			for _, op := range in.Operands(nil) {
				if *op != nil && walk(*op) {
					return true
				}
			}
		}
		return false
	}
	return walk(v)
}

// loopInit returns the value an index has on entry to loop l, if idx is a phi
// of l's head (or phi+1 for a range loop).
func loopInit(idx ssa.Value, l *natLoop) (ssa.Value, bool) {
	idx = stripConv(idx)
	if b, ok := idx.(*ssa.BinOp); ok && b.Op == token.ADD {
		if _, isC := constInt(b.Y); isC {
			idx = b.X
		}
	}
	phi, ok := idx.(*ssa.Phi)
	if !ok || phi.Block() != l.head {
		return nil, false
	}
	for i, p := range phi.Block().Preds {
		if !l.body[p] {
			return phi.Edges[i], true
		}
	}
	return nil, false
}

// ---------------------------------------------------------------------------
// ORDERINDEP: packet handling does not depend on which other packets came first

const ruleORDERINDEPText = "packet order is immaterial: in par2 readFile's packet loop, a branch inside the handling of packet type T reads loop-carried state (a variable, or a map built before the loop) only if that state is written exclusively by the handling of T itself; state written while handling another packet type may be consulted only after the loop"

func ruleORDERINDEP(w *World, r *Report) {
	r.rule("ORDERINDEP", ruleORDERINDEPText)
	fn := w.Fn("par2.readFile")
	if fn == nil {
		r.unk("ORDERINDEP", "par2.readFile", "", "function not found")
		return
	}
	loops := naturalLoops(fn)
	var loop *natLoop
	for _, c := range callInstrs(fn) {
		if staticCalleeShort(c.Common()) == "par2.readNextPacket" {
			loop = innermostLoop(loops, c.Block())
		}
	}
	if loop == nil {
		r.unk("ORDERINDEP", "par2.readFile:loop", w.pos(fn.Pos()), "the packet loop (the one calling readNextPacket) was not found")
		return
	}
	// regions: blocks dominated by the true edge of `packetType == <global>PacketType`
	type region struct {
		name   string
		blocks map[*ssa.BasicBlock]bool
	}
	var regions []*region
	for b := range loop.body {
		iff, ok := b.Instrs[len(b.Instrs)-1].(*ssa.If)
		if !ok {
			continue
		}
		bin, ok := iff.Cond.(*ssa.BinOp)
		if !ok || bin.Op != token.EQL {
			continue
		}
		name := ""
		for _, side := range []ssa.Value{bin.X, bin.Y} {
			if u, ok := side.(*ssa.UnOp); ok && u.Op == token.MUL {
				if g, ok := u.X.(*ssa.Global); ok && strings.HasSuffix(g.Name(), "PacketType") {
					name = g.Name()
				}
			}
		}
		if name == "" {
			continue
		}
		reg := &region{name: name, blocks: map[*ssa.BasicBlock]bool{}}
		for x := range loop.body {
			if edgeDominates(b, 0, x) {
				reg.blocks[x] = true
			}
		}
		regions = append(regions, reg)
	}
	sort.Slice(regions, func(i, j int) bool { return regions[i].name < regions[j].name })
	regionOf := func(b *ssa.BasicBlock) string {
		for _, reg := range regions {
			if reg.blocks[b] {
				return reg.name
			}
		}
		return ""
	}
	// writers of a loop-carried phi
	var phiWriters func(phi *ssa.Phi, seen map[*ssa.Phi]bool, out map[string]bool)
	phiWriters = func(phi *ssa.Phi, seen map[*ssa.Phi]bool, out map[string]bool) {
		if seen[phi] {
			return
		}
		seen[phi] = true
		for i, e := range phi.Edges {
			pred := phi.Block().Preds[i]
			if !loop.body[pred] {
				continue // value on entry to the loop
			}
			if p2, ok := e.(*ssa.Phi); ok && loop.body[p2.Block()] {
				phiWriters(p2, seen, out)
				continue
			}
			// the edge carries a new value: who computed it?
			where := regionOf(pred)
			if in, ok := e.(ssa.Instruction); ok && in.Block() != nil && loop.body[in.Block()] {
				if rg := regionOf(in.Block()); rg != "" {
					where = rg
				}
			}
			if where == "" {
				where = "(every packet)"
			}
			out[where] = true
		}
	}
	memWriters := func(root ssa.Value) map[string]bool {
		out := map[string]bool{}
		for _, ref := range referrersOf(root) {
			var blk *ssa.BasicBlock
			switch x := ref.(type) {
			case *ssa.MapUpdate:
				if x.Map == root {
					blk = x.Block()
				}
			case *ssa.Store:
				if x.Addr == root {
					blk = x.Block()
				}
			}
			if blk == nil || !loop.body[blk] {
				continue
			}
			where := regionOf(blk)
			if where == "" {
				where = "(every packet)"
			}
			out[where] = true
		}
		return out
	}
	nBranches := 0
	for _, reg := range regions {
		var blocks []*ssa.BasicBlock
		for b := range reg.blocks {
			blocks = append(blocks, b)
		}
		sort.Slice(blocks, func(i, j int) bool { return blocks[i].Index < blocks[j].Index })
		k := 0
		for _, b := range blocks {
			iff, ok := b.Instrs[len(b.Instrs)-1].(*ssa.If)
			if !ok {
				continue
			}
			nBranches++
			key := fmt.Sprintf("par2.readFile:%s:branch#%d", reg.name, k)
			k++
			bad := ""
			seen := map[ssa.Value]bool{}
			var walk func(v ssa.Value)
			walk = func(v ssa.Value) {
				if v == nil || seen[v] || bad != "" {
					return
				}
				seen[v] = true
				check := func(what string, ws map[string]bool) {
					var others []string
					for wr := range ws {
						if wr != reg.name {
							others = append(others, wr)
						}
					}
					sort.Strings(others)
					if len(others) > 0 {
						bad = fmt.Sprintf("the handling of %s branches on %s, which is written while handling %s: the outcome depends on whether that packet came earlier in the file", reg.name, what, strings.Join(others, ", "))
					}
				}
				switch x := v.(type) {
				case *ssa.Phi:
					if loop.body[x.Block()] && !reg.blocks[x.Block()] {
						ws := map[string]bool{}
						phiWriters(x, map[*ssa.Phi]bool{}, ws)
						check("loop-carried variable "+phiName(x), ws)
						return
					}
				case *ssa.MakeMap:
					if !loop.body[x.Block()] {
						check("map "+x.Name(), memWriters(x))
					}
					return
				case *ssa.Alloc:
					if !loop.body[x.Block()] {
						check("variable "+x.Comment, memWriters(x))
					}
					return
				case *ssa.Parameter, *ssa.Const, *ssa.Global, *ssa.FreeVar:
					return
				}
				if in, ok := v.(ssa.Instruction); ok {
					for _, op := range in.Operands(nil) {
						if *op != nil {
							walk(*op)
						}
					}
				}
			}
			walk(iff.Cond)
			if bad != "" {
				r.bad("ORDERINDEP", key, w.ipos(iff), bad)
			} else {
				r.ok("ORDERINDEP", key, w.ipos(iff), "reads only the current packet and state written by the same packet type")
			}
		}
	}
	r.stat("orderindep_regions", len(regions))
	r.floor("ORDERINDEP", "packet-type regions in readFile", len(regions), 5)
	r.floor("ORDERINDEP", "branches inside packet handling", nBranches, 3)
}

func phiName(p *ssa.Phi) string {
	if p.Comment != "" {
		return p.Comment
	}
	return p.Name()
}

// ---------------------------------------------------------------------------
// MUSTPASS: after a data file has been read, every way out goes through the
// slice search and both file-level checks

const ruleMUSTPASSText = "no shortcut around the integrity checks: in par2 Decoder.fillFileIntegrityInfos, every return reached after ReadFile succeeded is preceded on all paths by (1) the call of fillShardInfos on the bytes read, (2) the store of the whole-file hash comparison into hashMismatch, which reads both sixteenKHash(data) and md5.Sum(data), and (3) the store of the length comparison into hasWrongByteCount"

func ruleMUSTPASS(w *World, r *Report) {
	r.rule("MUSTPASS", ruleMUSTPASSText)
	fn := w.Fn("(*par2.Decoder).fillFileIntegrityInfos")
	if fn == nil {
		r.unk("MUSTPASS", "(*par2.Decoder).fillFileIntegrityInfos", "", "function not found")
		return
	}
	// the ReadFile call and its success edge
	var read ssa.CallInstruction
	for _, c := range callInstrs(fn) {
		if isInvokeOf(c.Common(), "ReadFile", "par2") {
			read = c
		}
	}
	if read == nil {
		r.unk("MUSTPASS", shortName(fn)+":read", w.pos(fn.Pos()), "no ReadFile call found")
		return
	}
	data := ssa.Value(nil)
	var errv ssa.Value
	for _, ref := range referrersOf(read.Value()) {
		if ex, ok := ref.(*ssa.Extract); ok {
			if ex.Index == 0 {
				data = ex
			} else {
				errv = ex
			}
		}
	}
	var okFrom *ssa.BasicBlock
	okIdx := -1
	for _, b := range fn.Blocks {
		iff, ok := b.Instrs[len(b.Instrs)-1].(*ssa.If)
		if !ok {
			continue
		}
		for _, c := range factCmps(Fact{iff.Cond, true, iff}) {
			if c.X == errv && isNilConst(c.Y) || c.Y == errv && isNilConst(c.X) {
				if c.Op == token.NEQ {
					okFrom, okIdx = b, 1
				} else if c.Op == token.EQL {
					okFrom, okIdx = b, 0
				}
			}
		}
	}
	if okFrom == nil || data == nil {
		r.unk("MUSTPASS", shortName(fn)+":read", w.ipos(read), "the err==nil edge of ReadFile was not found")
		return
	}
	// required constructs
	type req struct {
		name string
		in   ssa.Instruction
		note string
	}
	var reqs []req
	for _, c := range callInstrs(fn) {
		if staticCalleeShort(c.Common()) == "par2.fillShardInfos" {
			usesData := false
			for _, a := range c.Common().Args {
				if a == data {
					usesData = true
				}
			}
			if usesData {
				reqs = append(reqs, req{"fillShardInfos", c, "slice search over the bytes read"})
			}
		}
	}
	for _, b := range fn.Blocks {
		for _, in := range b.Instrs {
			st, ok := in.(*ssa.Store)
			if !ok {
				continue
			}
			fa, ok := st.Addr.(*ssa.FieldAddr)
			if !ok {
				continue
			}
			switch fieldName(fa.X.Type(), fa.Field) {
			case "hashMismatch":
				full, sixteen := false, false
				backSliceCtl(st.Val, func(v ssa.Value) bool {
					if c, ok := v.(*ssa.Call); ok {
						switch calleeName(&c.Call) {
						case "crypto/md5.Sum":
							if len(c.Call.Args) == 1 && c.Call.Args[0] == data {
								full = true
							}
						}
						if staticCalleeShort(&c.Call) == "par2.sixteenKHash" && len(c.Call.Args) == 1 && c.Call.Args[0] == data {
							sixteen = true
						}
					}
					return true
				})
				if full && sixteen {
					reqs = append(reqs, req{"hashMismatch", st, "compares md5.Sum(data) and sixteenKHash(data)"})
				} else {
					r.bad("MUSTPASS", shortName(fn)+":hashMismatch:inputs", w.ipos(st), fmt.Sprintf("the value stored into hashMismatch does not read both hashes of the bytes read (md5.Sum(data): %v, sixteenKHash(data): %v)", full, sixteen))
				}
			case "hasWrongByteCount":
				usesLen := false
				backSlice(st.Val, func(v ssa.Value) bool {
					if c, ok := v.(*ssa.Call); ok && isBuiltinCall(c, "len") != nil && c.Call.Args[0] == data {
						usesLen = true
					}
					return true
				})
				if usesLen {
					reqs = append(reqs, req{"hasWrongByteCount", st, "compares len(data) with the protected length"})
				} else {
					r.bad("MUSTPASS", shortName(fn)+":hasWrongByteCount:inputs", w.ipos(st), "the value stored into hasWrongByteCount does not read len(data)")
				}
			}
		}
	}
	want := []string{"fillShardInfos", "hashMismatch", "hasWrongByteCount"}
	nRet := 0
	for _, b := range fn.Blocks {
		ret, ok := b.Instrs[len(b.Instrs)-1].(*ssa.Return)
		if !ok || !edgeDominates(okFrom, okIdx, b) {
			continue
		}
		nRet++
		for _, name := range want {
			key := fmt.Sprintf("%s:return#%d:%s", shortName(fn), nRet-1, name)
			found := false
			for _, q := range reqs {
				if q.name == name && instrDominates(q.in, ret) {
					found = true
					r.ok("MUSTPASS", key, w.ipos(ret), "preceded on every path by "+q.note+" at "+w.ipos(q.in))
					break
				}
			}
			if !found {
				r.bad("MUSTPASS", key, w.ipos(ret), "this return is reachable after a successful read without passing through "+name+": a file can be judged without that check")
			}
		}
	}
	r.floor("MUSTPASS", "returns after a successful read", nRet, 1)
}

// ---------------------------------------------------------------------------
// NAMEFID: the protected file's name is the decoded wire name, unaltered

const ruleNAMEFIDText = "name fidelity: the file name a reader stores for a protected file (and, for PAR2, the one it hands to checkFilename) is the direct result of the format's string decoder applied to the wire bytes - no replacement, case folding, cleaning or trimming is applied in between, so two distinct protected names never collapse onto one path and a name never moves to a different path than the writer recorded"

func ruleNAMEFID(w *World, r *Report, pkgs ...string) {
	r.rule("NAMEFID", ruleNAMEFIDText)
	if len(pkgs) == 0 {
		pkgs = []string{"par1", "par2"}
	}
	decoders := map[string]bool{"par2.decodeNullPaddedASCIIString": true, "par1.decodeUTF16LEString": true}
	// classify a value stored as (or checked as) a protected file's name
	var classify func(v ssa.Value, depth int) (bool, string)
	classify = func(v ssa.Value, depth int) (bool, string) {
		v = stripConv(v)
		switch x := v.(type) {
		case *ssa.Call:
			if decoders[staticCalleeShort(&x.Call)] {
				return true, "the result of " + staticCalleeShort(&x.Call)
			}
			return false, "the result of " + calleeName(&x.Call)
		case *ssa.Parameter:
			return true, "parameter " + x.Name()
		case *ssa.Phi:
			if depth > 4 {
				return false, "a deeply merged value"
			}
			for _, e := range x.Edges {
				if ok, what := classify(e, depth+1); !ok {
					return false, what
				}
			}
			return true, "a merge of unaltered names"
		case *ssa.BinOp:
			return false, "the computed string " + x.String()
		case *ssa.Slice:
			return false, "a sub-string (" + x.String() + ")"
		case *ssa.Const:
			return true, "a constant"
		}
		p := resolvedPath(v)
		if strings.HasSuffix(p.Path, ".filename") || strings.HasSuffix(p.Path, "relFilePaths[*]") {
			return true, "a copy of " + p.String()
		}
		if al, ok := p.Root.(*ssa.Alloc); ok {
			// a local variable: every value stored into it
			for _, ref := range referrersOf(al) {
				if st, ok := ref.(*ssa.Store); ok && st.Addr == ssa.Value(al) && depth < 4 {
					if ok, what := classify(st.Val, depth+1); !ok {
						return false, what
					}
				}
			}
			return true, "a local holding an unaltered name"
		}
		return false, v.String()
	}
	n := 0
	for _, fn := range w.funcsInPkgs(pkgs...) {
		if strings.Contains(shortName(fn), "Encoder)") {
			continue // the writer derives names from the caller's paths (CREATE-PATHS, SANIT)
		}
		k := 0
		for _, b := range fn.Blocks {
			for _, in := range b.Instrs {
				switch x := in.(type) {
				case *ssa.Store:
					fa, ok := x.Addr.(*ssa.FieldAddr)
					if !ok || fieldName(fa.X.Type(), fa.Field) != "filename" {
						continue
					}
					n++
					key := fmt.Sprintf("%s:stored-name#%d", shortName(fn), k)
					k++
					if ok, what := classify(x.Val, 0); ok {
						r.ok("NAMEFID", key, w.ipos(x), "the stored name is "+what)
					} else {
						r.bad("NAMEFID", key, w.ipos(x), "the stored name is "+what+", not the decoded wire name: the name is altered between the packet and the path it is used for (after it was checked, or so that it no longer matches what the writer recorded)")
					}
				case *ssa.Call:
					if !strings.HasSuffix(staticCalleeShort(&x.Call), ".checkFilename") || x.Parent().Name() == "checkFilename" {
						continue
					}
					n++
					key := fmt.Sprintf("%s:checked-name#%d", shortName(fn), k)
					k++
					if ok, what := classify(x.Call.Args[0], 0); ok {
						r.ok("NAMEFID", key, w.ipos(x), "the checked name is "+what)
					} else {
						r.bad("NAMEFID", key, w.ipos(x), "the checked name is "+what+", not the decoded wire name")
					}
				}
			}
		}
	}
	r.floor("NAMEFID", "stored/checked names", n, 4)
}

// ---------------------------------------------------------------------------
// ROWCOVER: an elementary row operation covers the whole row of the matrix it touches

const ruleROWCOVERText = "row operations cover the row: in package gf2p16, a loop that stores into X.row(i)[k] runs k up to X's own column count (X.columns or the length of a row of X) - not up to the width of another matrix, which would leave the extra columns of the wider (augmented) matrix unswapped"

func matrixRoot(v ssa.Value) ssa.Value {
	for i := 0; i < 8; i++ {
		v = stripConv(v)
		al, ok := v.(*ssa.Alloc)
		if !ok {
			u, ok := v.(*ssa.UnOp)
			if !ok || u.Op != token.MUL {
				return v
			}
			al, ok = u.X.(*ssa.Alloc)
			if !ok {
				return v
			}
		}
		var only ssa.Value
		cnt := 0
		for _, ref := range referrersOf(al) {
			if st, ok := ref.(*ssa.Store); ok && st.Addr == al {
				only = st.Val
				cnt++
			}
		}
		if cnt != 1 {
			return al
		}
		v = only
	}
	return v
}

// resolvedPath is valuePath with roots resolved through spilled parameters
// (a local cell that is assigned exactly once).
func resolvedPath(v ssa.Value) accessPath {
	p := valuePath(v)
	for i := 0; i < 6; i++ {
		rt := matrixRoot(p.Root)
		if rt == p.Root {
			break
		}
		q := valuePath(rt)
		q.Path += p.Path
		p = q
	}
	return p
}

func rowCallRecv(v ssa.Value) (ssa.Value, bool) {
	c, ok := stripConv(v).(*ssa.Call)
	if !ok {
		return nil, false
	}
	f := c.Call.StaticCallee()
	if f == nil || f.Name() != "row" || f.Signature.Recv() == nil || len(c.Call.Args) < 1 {
		return nil, false
	}
	return matrixRoot(c.Call.Args[0]), true
}

func ruleROWCOVER(w *World, r *Report) {
	r.rule("ROWCOVER", ruleROWCOVERText)
	n := 0
	for _, fn := range w.funcsInPkgs("gf2p16") {
		k := 0
		for _, b := range fn.Blocks {
			for _, in := range b.Instrs {
				st, ok := in.(*ssa.Store)
				if !ok {
					continue
				}
				ia, ok := st.Addr.(*ssa.IndexAddr)
				if !ok {
					continue
				}
				recv, ok := rowCallRecv(ia.X)
				if !ok {
					continue
				}
				idx := stripConv(ia.Index)
				if _, isC := constInt(idx); isC {
					continue
				}
				key := fmt.Sprintf("%s:row-store#%d", shortName(fn), k)
				k++
				n++
				// the bound on idx
				var bound ssa.Value
				for _, c := range cmpsAt(b) {
					if stripConv(c.X) == idx && c.Op == token.LSS {
						bound = c.Y
					} else if c.Y != nil && stripConv(c.Y) == idx && c.Op == token.GTR {
						bound = c.X
					}
				}
				if bound == nil {
					r.unk("ROWCOVER", key, w.ipos(st), "no upper bound `k < B` on the column index dominates the store")
					continue
				}
				bound = stripConv(bound)
				var broot ssa.Value
				what := bound.String()
				if c, ok := bound.(*ssa.Call); ok && isBuiltinCall(c, "len") != nil {
					if rr, ok := rowCallRecv(c.Call.Args[0]); ok {
						broot = rr
						what = "len of a row of " + rr.Name()
					}
				} else if u, ok := bound.(*ssa.UnOp); ok && u.Op == token.MUL {
					if fa, ok := u.X.(*ssa.FieldAddr); ok && fieldName(fa.X.Type(), fa.Field) == "columns" {
						broot = matrixRoot(fa.X)
						what = "columns of " + broot.Name()
					}
				} else if f, ok := bound.(*ssa.Field); ok && fieldName(f.X.Type(), f.Field) == "columns" {
					broot = matrixRoot(f.X)
					what = "columns of " + broot.Name()
				}
				switch {
				case broot == nil:
					r.unk("ROWCOVER", key, w.ipos(st), "the bound of the column index ("+what+") is not a column count or row length of a matrix")
				case broot != recv:
					r.bad("ROWCOVER", key, w.ipos(st), fmt.Sprintf("the store goes to a row of %s but the column index is bounded by %s: when the two matrices have different widths part of the row is not processed", recv.Name(), what))
				default:
					r.ok("ROWCOVER", key, w.ipos(st), "column index bounded by "+what)
				}
			}
		}
	}
	r.floor("ROWCOVER", "indexed stores into matrix rows", n, 2)
}

// ---------------------------------------------------------------------------
// GLOB call-site: what LoadParityData asks the directory for

const ruleGLOBCALLText = "volume discovery asks for <base>.*<ext>: at each call of fileIO.FindWithPrefixAndSuffix in par2, the suffix operand is ext = path.Ext(indexPath) (or filepath.Ext) and the prefix operand is base + \".\" with base = indexPath[:len(indexPath)-len(ext)] or strings.TrimSuffix(indexPath, ext) - nothing is added to the prefix (every '<base>.*.par2' file is a candidate) and the base is cut by length, not by a character set"

func ruleGLOBCALL(w *World, r *Report) {
	r.rule("GLOBCALL", ruleGLOBCALLText)
	n := 0
	for _, fn := range w.funcsInPkgs("par2") {
		k := 0
		for _, c := range callInstrs(fn) {
			if !isInvokeOf(c.Common(), "FindWithPrefixAndSuffix", "par2") {
				continue
			}
			key := fmt.Sprintf("%s:find#%d", shortName(fn), k)
			k++
			n++
			args := c.Common().Args
			if len(args) != 2 {
				r.unk("GLOBCALL", key, w.ipos(c), "unexpected arity")
				continue
			}
			ext := args[1]
			extCall, ok := ext.(*ssa.Call)
			if !ok || (calleeName(&extCall.Call) != "path.Ext" && calleeName(&extCall.Call) != "path/filepath.Ext") {
				r.bad("GLOBCALL", key+":suffix", w.ipos(c), "the suffix operand is not the extension of the index path (path.Ext(indexPath))")
				continue
			}
			indexPath := extCall.Call.Args[0]
			samePath := func(v ssa.Value) bool {
				if v == indexPath {
					return true
				}
				a, b := resolvedPath(v), resolvedPath(indexPath)
				return a.Root == b.Root && a.Path == b.Path && a.Path != ""
			}
			r.ok("GLOBCALL", key+":suffix", w.ipos(c), "suffix is "+calleeName(&extCall.Call)+"(indexPath)")
			// prefix = base + "."
			add, ok := args[0].(*ssa.BinOp)
			if !ok || add.Op != token.ADD {
				r.bad("GLOBCALL", key+":prefix", w.ipos(c), "the prefix operand is not <base> + \".\"")
				continue
			}
			if s, ok := constString(add.Y); !ok || s != "." {
				r.bad("GLOBCALL", key+":prefix", w.ipos(c), fmt.Sprintf("the prefix operand appends %s to the base name instead of \".\": recovery files named '<base>.<anything>.par2' that do not continue that way are never found", add.Y))
				continue
			}
			base := add.X
			good, why := false, "the base name is not indexPath cut by len(ext)"
			switch x := base.(type) {
			case *ssa.Slice:
				if samePath(x.X) && x.Low == nil && x.High != nil {
					if sub, ok := x.High.(*ssa.BinOp); ok && sub.Op == token.SUB {
						l1, ok1 := sub.X.(*ssa.Call)
						l2, ok2 := sub.Y.(*ssa.Call)
						if ok1 && ok2 && isBuiltinCall(l1, "len") != nil && isBuiltinCall(l2, "len") != nil && samePath(l1.Call.Args[0]) && l2.Call.Args[0] == ext {
							good = true
						}
					}
				}
			case *ssa.Call:
				switch calleeName(&x.Call) {
				case "strings.TrimSuffix":
					if samePath(x.Call.Args[0]) && x.Call.Args[1] == ext {
						good = true
					}
				case "strings.TrimRight", "strings.Trim", "strings.TrimLeft":
					why = calleeName(&x.Call) + " removes a set of characters, not the suffix: index names whose stem ends in a character of the extension lose part of the stem"
				default:
					why = "the base name is computed by " + calleeName(&x.Call)
				}
			}
			if good {
				r.ok("GLOBCALL", key+":prefix", w.ipos(c), "prefix is indexPath without its extension, plus \".\"")
			} else {
				r.bad("GLOBCALL", key+":prefix", w.ipos(c), why)
			}
		}
	}
	r.floor("GLOBCALL", "FindWithPrefixAndSuffix call sites", n, 1)
}

// backSliceCtl is backSlice that also follows, at a phi, the branch conditions
// that select among its edges (the value of `a || b` depends on a through control).
func backSliceCtl(v ssa.Value, visit func(v ssa.Value) bool) {
	seen := map[ssa.Value]bool{}
	var walk func(v ssa.Value)
	walk = func(v ssa.Value) {
		if v == nil || seen[v] {
			return
		}
		seen[v] = true
		if !visit(v) {
			return
		}
		if phi, ok := v.(*ssa.Phi); ok {
			stop := phi.Block().Idom()
			for _, p := range phi.Block().Preds {
				for d := p; d != nil; d = d.Idom() {
					if iff, ok := d.Instrs[len(d.Instrs)-1].(*ssa.If); ok {
						walk(iff.Cond)
					}
					if d == stop || !stop.Dominates(d) {
						break
					}
				}
			}
		}
		if in, ok := v.(ssa.Instruction); ok {
			for _, op := range in.Operands(nil) {
				if *op != nil {
					walk(*op)
				}
			}
		}
	}
	walk(v)
}

// ---------------------------------------------------------------------------
// NILLIVE: a nil check must be able to fire (belief contradiction, the other way round)

const ruleNILLIVEText = "nil checks are live: for each pointer-typed struct field of par1/par2 that some function compares with nil (absence of a packet is detected that way), at least one store into that field can store nil or an unknown value; if every store puts the address of a fresh object there, the absence check is dead and a file without that packet is accepted as an empty one"

func provablyNonNil(v ssa.Value, seen map[ssa.Value]bool) bool {
	if seen[v] {
		return true
	}
	seen[v] = true
	switch x := v.(type) {
	case *ssa.Alloc, *ssa.FieldAddr, *ssa.IndexAddr, *ssa.Global, *ssa.MakeMap, *ssa.MakeSlice, *ssa.MakeChan, *ssa.MakeClosure:
		return true
	case *ssa.Phi:
		for _, e := range x.Edges {
			if !provablyNonNil(e, seen) {
				return false
			}
		}
		return true
	case *ssa.ChangeType:
		return provablyNonNil(x.X, seen)
	}
	return false
}

func ruleNILLIVE(w *World, r *Report) {
	r.rule("NILLIVE", ruleNILLIVEText)
	fns := w.funcsInPkgs("par1", "par2")
	believed := map[ptrField]string{}
	for _, fn := range fns {
		for _, b := range fn.Blocks {
			for _, in := range b.Instrs {
				bo, ok := in.(*ssa.BinOp)
				if !ok || (bo.Op != token.EQL && bo.Op != token.NEQ) {
					continue
				}
				for _, pr := range [][2]ssa.Value{{bo.X, bo.Y}, {bo.Y, bo.X}} {
					if !isNilConst(pr[1]) {
						continue
					}
					if pf, _, ok := ptrFieldOf(pr[0]); ok && isModTypeName(pf.typ) {
						if _, seen := believed[pf]; !seen {
							believed[pf] = w.ipos(bo)
						}
					}
				}
			}
		}
	}
	var bl []ptrField
	for pf := range believed {
		bl = append(bl, pf)
	}
	sort.Slice(bl, func(i, j int) bool { return bl[i].typ+bl[i].field < bl[j].typ+bl[j].field })
	n := 0
	for _, pf := range bl {
		// every place a value of the struct type is built: a local or heap cell of that type.
		// The field is "always non-nil" for a cell if every store into it is provably non-nil
		// and one of them dominates every point where the cell is read as a whole or escapes;
		// a cell whose field is not assigned on some path keeps the nil zero value.
		cells, deadCells := 0, 0
		live := ""
		first := ""
		for _, fn := range fns {
			for _, b := range fn.Blocks {
				for _, in := range b.Instrs {
					switch x := in.(type) {
					case *ssa.Alloc:
						pt, ok := x.Type().Underlying().(*types.Pointer)
						if !ok || namedTypeName(pt.Elem()) != pf.typ {
							continue
						}
						var stores []*ssa.Store
						var uses []ssa.Instruction
						copied := false
						for _, ref := range referrersOf(x) {
							if fa, ok := ref.(*ssa.FieldAddr); ok && fa.X == ssa.Value(x) {
								if fieldName(fa.X.Type(), fa.Field) == pf.field {
									for _, r2 := range referrersOf(fa) {
										if st, ok := r2.(*ssa.Store); ok && st.Addr == ssa.Value(fa) {
											stores = append(stores, st)
										}
									}
								}
								continue
							}
							if st, ok := ref.(*ssa.Store); ok && st.Addr == ssa.Value(x) {
								// a copy of a value built elsewhere: its field is judged where it was built
								copied = true
								continue
							}
							if _, ok := ref.(*ssa.DebugRef); ok {
								continue
							}
							uses = append(uses, ref)
						}
						if len(uses) == 0 || copied {
							continue
						}
						cells++
						allNonNil := len(stores) > 0
						for _, st := range stores {
							if !provablyNonNil(st.Val, map[ssa.Value]bool{}) {
								allNonNil = false
							}
						}
						dead := allNonNil
						if dead {
							for _, u := range uses {
								dom := false
								for _, st := range stores {
									if instrDominates(st, u) {
										dom = true
									}
								}
								if !dom {
									dead = false
								}
							}
						}
						if dead {
							deadCells++
							if first == "" {
								first = w.ipos(stores[0])
							}
						} else if live == "" {
							live = "the value built at " + w.ipos(x) + " can keep a nil " + pf.field
						}
					case *ssa.Store:
						fa, ok := x.Addr.(*ssa.FieldAddr)
						if !ok || fieldName(fa.X.Type(), fa.Field) != pf.field || namedTypeName(fa.X.Type()) != pf.typ {
							continue
						}
						if _, isCell := fa.X.(*ssa.Alloc); isCell {
							continue
						}
						if !provablyNonNil(x.Val, map[ssa.Value]bool{}) && live == "" {
							live = "a value of unknown nil-ness is stored at " + w.ipos(x)
						}
					}
				}
			}
		}
		key := pf.typ + "." + pf.field
		n++
		switch {
		case cells == 0:
			r.ok("NILLIVE", key, believed[pf], "no value of the type is built in the module's functions: nil-ness comes from elsewhere")
		case live == "" && deadCells == cells:
			r.bad("NILLIVE", key, first, fmt.Sprintf("every value of %s that is built (%d) has its %s set to the address of a fresh object before it is used, yet %s tests it for nil: the test can never fire, so the absence it is meant to detect (a file without that packet) goes unnoticed", pf.typ, cells, pf.field, believed[pf]))
		default:
			r.ok("NILLIVE", key, believed[pf], live)
		}
	}
	r.floor("NILLIVE", "pointer fields compared with nil somewhere", n, 1)
}

// ---------------------------------------------------------------------------
// NONEMPTY: a slice collected by appends is indexed only where it is known to be non-empty

const ruleNONEMPTYText = "collected slices are indexed only when known non-empty: in rsec16, par1 and par2, a constant index into a local slice that is built up by appends from empty (its length depends on the input) is dominated by a lower-bound test on the length of that same value (len(s) > c, len(s) >= n, len(s) != 0, or the false edge of len(s) < n)"

func ruleNONEMPTY(w *World, r *Report, pkgs ...string) {
	r.rule("NONEMPTY", ruleNONEMPTYText)
	n := 0
	for _, fn := range w.funcsInPkgs(pkgs...) {
		k := 0
		for _, b := range fn.Blocks {
			for _, in := range b.Instrs {
				ia, ok := in.(*ssa.IndexAddr)
				if !ok {
					continue
				}
				if _, isC := constInt(ia.Index); !isC {
					continue
				}
				x := stripConv(ia.X)
				if _, isSlice := x.Type().Underlying().(*types.Slice); !isSlice {
					continue
				}
				var phi ssa.Value
				factBlock := b
				// a parameter of a private helper with one call site stands for the argument there,
				// and the facts that count are those that hold at the call
				if prm, isPrm := x.(*ssa.Parameter); isPrm {
					if site := w.uniqueSite(fn); site != nil {
						for pi, fp := range fn.Params {
							if fp == prm && pi < len(site.Common().Args) {
								x = stripConv(site.Common().Args[pi])
								factBlock = site.Block()
							}
						}
					}
				}
				switch y := x.(type) {
				case *ssa.Phi:
					apps, _ := appendWeb(y)
					if len(apps) == 0 || !webFromEmpty(y, map[ssa.Value]bool{}) {
						continue
					}
					if !loopCarried(y) {
						continue // a merge of alternatives, not a collection that grows in a loop
					}
					phi = y
				case *ssa.Extract:
					// a collection handed back by a module function: how many elements it has is the callee's business
					c, ok := y.Tuple.(*ssa.Call)
					if !ok || c.Call.StaticCallee() == nil || c.Call.StaticCallee().Pkg == nil || !isModPath(c.Call.StaticCallee().Pkg.Pkg.Path()) {
						continue
					}
					phi = y
				case *ssa.Call:
					if y.Call.StaticCallee() == nil || y.Call.StaticCallee().Pkg == nil || !isModPath(y.Call.StaticCallee().Pkg.Pkg.Path()) {
						continue
					}
					phi = y
				default:
					continue
				}
				key := fmt.Sprintf("%s:const-index#%d", shortName(fn), k)
				k++
				n++
				okFact := ""
				for _, c := range cmpsAt(factBlock) {
					for _, pr := range []struct {
						x, y ssa.Value
						op   token.Token
					}{{c.X, c.Y, c.Op}, {c.Y, c.X, swapOp(c.Op)}} {
						if pr.x == nil || pr.y == nil {
							continue
						}
						lc, ok := stripConv(pr.x).(*ssa.Call)
						if !ok || isBuiltinCall(lc, "len") == nil || stripConv(lc.Call.Args[0]) != phi {
							continue
						}
						switch pr.op {
						case token.GTR, token.GEQ:
							if cv, isC := constInt(pr.y); isC && (cv < 0 || (cv == 0 && pr.op == token.GEQ)) {
								continue
							}
							okFact = fmt.Sprintf("len %s %s", pr.op, pr.y)
						case token.NEQ:
							if cv, isC := constInt(pr.y); isC && cv == 0 {
								okFact = "len != 0"
							}
						}
					}
				}
				if okFact != "" {
					r.ok("NONEMPTY", key, w.ipos(ia), "dominated by "+okFact+" on the same slice value")
				} else {
					r.bad("NONEMPTY", key, w.ipos(ia), fmt.Sprintf("%s is a collection built up from empty (or handed back by a function) and is indexed with a constant here without a dominating lower bound on its length: when nothing has been collected this panics", phi.Name()))
				}
			}
		}
	}
	r.floor("NONEMPTY", "constant indexes into append-built slices", n, 1)
}

// webFromEmpty: can the phi/append web be empty? Its leaves (values that are neither
// phis nor appends) are the slices the collection starts from: nil, an empty make, or a
// value of unknown length (a call result, a parameter, a load) may be empty; only a make
// with a positive constant length cannot. `append(x, e...)` is judged by x.
func webFromEmpty(v ssa.Value, seen map[ssa.Value]bool) bool {
	if seen[v] {
		return false
	}
	seen[v] = true
	switch x := v.(type) {
	case *ssa.Phi:
		for _, e := range x.Edges {
			if webFromEmpty(e, seen) {
				return true
			}
		}
		return false
	case *ssa.Call:
		if c := isBuiltinCall(x, "append"); c != nil {
			return webFromEmpty(c.Call.Args[0], seen)
		}
	case *ssa.MakeSlice:
		if c, ok := constInt(x.Len); ok && c > 0 {
			return false
		}
	}
	return true
}

// ---------------------------------------------------------------------------
// INTONLY: finite-field and GF(2)[x] arithmetic is exact integer arithmetic

const ruleINTONLYText = "field arithmetic is integer arithmetic: in packages gf2 and gf2p16 no value is converted between an integer and a floating-point type and no function of package math is called (a float64 holds 53 bits: the degree or value of a 64-bit polynomial does not survive the conversion)"

func ruleINTONLY(w *World, r *Report) {
	r.rule("INTONLY", ruleINTONLYText)
	nFn := 0
	isFloat := func(t types.Type) bool {
		b, ok := t.Underlying().(*types.Basic)
		return ok && b.Info()&(types.IsFloat|types.IsComplex) != 0
	}
	for _, fn := range w.funcsInPkgs("gf2", "gf2p16") {
		if len(fn.Blocks) == 0 {
			continue
		}
		nFn++
		bad := ""
		at := ""
		for _, b := range fn.Blocks {
			for _, in := range b.Instrs {
				switch x := in.(type) {
				case *ssa.Convert:
					if isFloat(x.Type()) != isFloat(x.X.Type()) {
						bad, at = fmt.Sprintf("converts %s to %s", x.X.Type(), x.Type()), w.ipos(x)
					}
				case ssa.CallInstruction:
					if f := x.Common().StaticCallee(); f != nil && f.Pkg != nil && f.Pkg.Pkg.Path() == "math" {
						bad, at = "calls "+f.String(), w.ipos(x)
					}
				}
			}
		}
		if bad != "" {
			r.bad("INTONLY", shortName(fn), at, shortName(fn)+" "+bad+": polynomials with more than 53 significant bits are rounded")
		}
	}
	if nFn > 0 {
		r.ok("INTONLY", "gf2+gf2p16:functions", "", fmt.Sprintf("%d functions use integer operations only", nFn))
	}
	r.floor("INTONLY", "functions of gf2 and gf2p16 examined", nFn, 20)
}

// ---------------------------------------------------------------------------
// ANCHOR: names relative to the set's directory are joined to it before any I/O

const ruleANCHORText = "no I/O on a bare set-relative name: in par1 and par2, the path operand of fileIO.ReadFile / WriteFile is never directly a name that is relative to the set's base directory (an element of relFilePaths, a filename field of an entry or packet, a result of filepath.Rel or filepath.Base); such a name reaches I/O only through filepath.Join with the base directory - otherwise the file that is read or written depends on the process's working directory"

func ruleANCHOR(w *World, r *Report, side string, floor int) {
	r.rule("ANCHOR", ruleANCHORText)
	n := 0
	for _, fn := range w.funcsInPkgs("par1", "par2") {
		if side != "" && !strings.Contains(shortName(fn), side) {
			continue
		}
		k := 0
		for _, c := range callInstrs(fn) {
			var m string
			for _, cand := range []string{"ReadFile", "WriteFile"} {
				if isInvokeOf(c.Common(), cand, "par1", "par2") {
					m = cand
				}
			}
			if m == "" {
				continue
			}
			key := fmt.Sprintf("%s:%s#%d", shortName(fn), m, k)
			k++
			n++
			arg := stripConv(c.Common().Args[0])
			bad := ""
			var relName func(v ssa.Value, depth int) string
			relName = func(v ssa.Value, depth int) string {
				v = stripConv(v)
				switch x := v.(type) {
				case *ssa.Call:
					switch calleeName(&x.Call) {
					case "path/filepath.Base", "path.Base":
						return "the result of filepath.Base"
					}
					return ""
				case *ssa.Extract:
					if cl, ok := x.Tuple.(*ssa.Call); ok && calleeName(&cl.Call) == "path/filepath.Rel" && x.Index == 0 {
						return "the result of filepath.Rel"
					}
					return ""
				case *ssa.Phi:
					if depth < 4 {
						for _, e := range x.Edges {
							if s := relName(e, depth+1); s != "" {
								return s
							}
						}
					}
					return ""
				case *ssa.BinOp, *ssa.Parameter, *ssa.Const:
					return ""
				}
				p := resolvedPath(v)
				if strings.HasSuffix(p.Path, "relFilePaths[*]") || strings.HasSuffix(p.Path, ".filename") {
					return "the set-relative name " + p.String()
				}
				return ""
			}
			bad = relName(arg, 0)
			if bad != "" {
				r.bad("ANCHOR", key, w.ipos(c), fmt.Sprintf("%s is handed %s without joining it to the base directory: which file is accessed depends on the working directory", m, bad))
			} else {
				r.ok("ANCHOR", key, w.ipos(c), "path operand is not a bare set-relative name")
			}
		}
	}
	r.floor("ANCHOR", "fileIO read/write call sites", n, floor)
}

// ---------------------------------------------------------------------------
// POSTWRITE: the decoder records a file as restored only after its write succeeded

const rulePOSTWRITEText = "state follows the write: in the Repair methods of the par1 and par2 decoders, a store into the decoder's own state (an element or field reached from the receiver) inside the loop that writes the repaired files is dominated by the err==nil edge of that loop's WriteFile - a file whose write failed is not recorded as usable, so counts taken afterwards and a second Repair on the same decoder still see it as damaged"

func rulePOSTWRITE(w *World, r *Report) {
	r.rule("POSTWRITE", rulePOSTWRITEText)
	nLoops, nStores := 0, 0
	type okEdge struct {
		b *ssa.BasicBlock
		i int
	}
	okEdges := map[*ssa.Function][]okEdge{}
	var okFns []*ssa.Function
	for _, ws := range w.repairWriteSites() {
		fn := ws.Fn
		name := shortName(fn)
		{
			recv := fn.Params[0]
			loops := naturalLoops(fn)
			c := ws.at()
			{
				l := innermostLoop(loops, c.Block())
				if l == nil {
					continue
				}
				nLoops++
				// success edge of this write
				var okFrom *ssa.BasicBlock
				okIdx := -1
				errv := ws.errVal()
				for b := range l.body {
					iff, ok := b.Instrs[len(b.Instrs)-1].(*ssa.If)
					if !ok {
						continue
					}
					for _, cm := range factCmps(Fact{iff.Cond, true, iff}) {
						if cm.X == errv && isNilConst(cm.Y) {
							if cm.Op == token.NEQ {
								okFrom, okIdx = b, 1
							} else if cm.Op == token.EQL {
								okFrom, okIdx = b, 0
							}
						}
					}
				}
				if okFrom == nil {
					r.unk("POSTWRITE", name+":write", w.ipos(c), "the err==nil edge of WriteFile was not found")
					continue
				}
				if okEdges[fn] == nil {
					okFns = append(okFns, fn)
				}
				okEdges[fn] = append(okEdges[fn], okEdge{okFrom, okIdx})
				var blocks []*ssa.BasicBlock
				for b := range l.body {
					blocks = append(blocks, b)
				}
				sort.Slice(blocks, func(i, j int) bool { return blocks[i].Index < blocks[j].Index })
				k := 0
				for _, b := range blocks {
					for _, in := range b.Instrs {
						st, ok := in.(*ssa.Store)
						if !ok {
							continue
						}
						p := resolvedAddrPath(st.Addr)
						if p.Root != ssa.Value(recv) || p.Path == "" {
							continue
						}
						nStores++
						key := fmt.Sprintf("%s:store(%s)#%d", name, p.Path, k)
						k++
						if edgeDominates(okFrom, okIdx, b) {
							r.ok("POSTWRITE", key, w.ipos(st), "decoder state is updated only after WriteFile returned nil")
						} else {
							r.bad("POSTWRITE", key, w.ipos(st), fmt.Sprintf("the decoder's %s is updated inside the write loop on a path where the write has not succeeded (yet): after a failed write the file still counts as restored", p.Path))
						}
					}
				}
			}
		}
	}
	// damage flags: a constant stored into a bool field of one of the decoder's per-file records (the
	// element types of the receiver's slices), anywhere in the Repair method, is subject to the same
	// condition - also when the record is a local copy that is stored back later
	for _, fn := range okFns {
		recTypes := map[string]bool{}
		if st, ok := derefType(fn.Params[0].Type()).Underlying().(*types.Struct); ok {
			for i := 0; i < st.NumFields(); i++ {
				if sl, ok := st.Field(i).Type().Underlying().(*types.Slice); ok {
					if nm := namedTypeName(sl.Elem()); nm != "" {
						if _, ok := sl.Elem().Underlying().(*types.Struct); ok {
							recTypes[nm] = true
						}
					}
				}
			}
		}
		k := 0
		for _, b := range fn.Blocks {
			for _, in := range b.Instrs {
				st, ok := in.(*ssa.Store)
				if !ok {
					continue
				}
				fa, ok := st.Addr.(*ssa.FieldAddr)
				if !ok {
					continue
				}
				if _, isConst := st.Val.(*ssa.Const); !isConst {
					continue
				}
				if bt, ok := st.Val.Type().Underlying().(*types.Basic); !ok || bt.Kind() != types.Bool {
					continue
				}
				if !recTypes[namedTypeName(derefType(fa.X.Type()))] {
					continue
				}
				key := fmt.Sprintf("%s:flag-store#%d", shortName(fn), k)
				k++
				dom := false
				for _, e := range okEdges[fn] {
					if edgeDominates(e.b, e.i, b) {
						dom = true
					}
				}
				if dom {
					r.ok("POSTWRITE", key, w.ipos(st), "a flag of a per-file record is set only after WriteFile returned nil")
				} else {
					r.bad("POSTWRITE", key, w.ipos(st), "a flag of a per-file record of the decoder is overwritten with a constant on a path where the file has not been written successfully: after a failed write (or before any write) the record no longer says the file is damaged, so counts taken afterwards and a second Repair on the same decoder skip it")
				}
			}
		}
	}
	r.floor("POSTWRITE", "write loops in Repair", nLoops, 2)
	r.floor("POSTWRITE", "decoder-state stores in write loops", nStores, 1)
}

func resolvedAddrPath(addr ssa.Value) accessPath {
	p := addrPath(addr)
	if _, local := p.Root.(*ssa.Alloc); local {
		return p // a store into a local variable, wherever its value came from
	}
	for i := 0; i < 6; i++ {
		rt := matrixRoot(p.Root)
		if rt == p.Root {
			break
		}
		q := valuePath(rt)
		q.Path += p.Path
		p = q
	}
	return p
}

// ---------------------------------------------------------------------------
// ELIM: Gaussian elimination tests the entry it acts on, and mirrors every row
// operation on the augmented matrix

const ruleELIMText = "elimination is consistent: in gf2p16 Matrix.rowReduceForInverse, (mirror) every swapRows/scaleRow/addScaledRow applied to m is applied in the same block to n with the same operands and vice versa; (pivot) a swapRows(i, j) is guarded by m.At(j, i) != 0 - the row that is tested is the row that is swapped in, in the column being eliminated; (factor) an addScaledRow(d, s, c) on m has c = m.At(d, s); (scale) scaleRow(r, c) has c = Inverse of a value that includes m.At(r, r)"

func ruleELIM(w *World, r *Report) {
	r.rule("ELIM", ruleELIMText)
	root := w.Fn("(gf2p16.Matrix).rowReduceForInverse")
	if root == nil {
		r.unk("ELIM", "(gf2p16.Matrix).rowReduceForInverse", "", "function not found")
		return
	}
	total := 0
	// the elimination may be split over private helpers (echelon form, back substitution):
	// every function of the region that has the shape (m Matrix) f(n Matrix, ...) is judged
	for _, fn := range region(root) {
		if fn.Parent() != nil || len(fn.Params) < 2 || fn.Signature.Recv() == nil || namedTypeName(fn.Params[1].Type()) != "gf2p16.Matrix" {
			continue
		}
		total += elimCheck(w, r, fn)
	}
	r.floor("ELIM", "row operations in rowReduceForInverse", total, 8)
}

func elimCheck(w *World, r *Report, fn *ssa.Function) int {
	if len(fn.Params) < 2 {
		r.unk("ELIM", shortName(fn), w.pos(fn.Pos()), "unexpected signature")
		return 0
	}
	m, n := ssa.Value(fn.Params[0]), ssa.Value(fn.Params[1])
	type op struct {
		call *ssa.Call
		name string
		recv ssa.Value
		args []ssa.Value
	}
	var ops []op
	atCall := func(v ssa.Value) (recv ssa.Value, row, col ssa.Value, ok bool) {
		c, isCall := stripConv(v).(*ssa.Call)
		if !isCall {
			return nil, nil, nil, false
		}
		f := c.Call.StaticCallee()
		if f == nil || f.Name() != "At" || len(c.Call.Args) != 3 {
			return nil, nil, nil, false
		}
		return matrixRoot(c.Call.Args[0]), c.Call.Args[1], c.Call.Args[2], true
	}
	for _, ci := range callInstrs(fn) {
		c, ok := ci.(*ssa.Call)
		if !ok {
			continue
		}
		f := c.Call.StaticCallee()
		if f == nil || f.Signature.Recv() == nil {
			continue
		}
		switch f.Name() {
		case "swapRows", "scaleRow", "addScaledRow":
			recv := matrixRoot(c.Call.Args[0])
			if recv != m && recv != n {
				// a pair type whose method does the same operation on both members in lockstep,
				// built from m and n: one call stands for both operations
				if x, y, ok := lockstepPair(c); ok && ((x == m && y == n) || (x == n && y == m)) {
					ops = append(ops, op{c, f.Name(), m, c.Call.Args[1:]}, op{c, f.Name(), n, c.Call.Args[1:]})
					continue
				}
			}
			ops = append(ops, op{c, f.Name(), recv, c.Call.Args[1:]})
		}
	}
	sameArgs := func(a, b []ssa.Value) bool {
		if len(a) != len(b) {
			return false
		}
		for i := range a {
			if a[i] != b[i] {
				return false
			}
		}
		return true
	}
	cnt := map[string]int{}
	for _, o := range ops {
		who, other := "m", n
		if o.recv == n {
			who, other = "n", m
		} else if o.recv != m {
			r.unk("ELIM", fmt.Sprintf("%s:%s:recv", shortName(fn), o.name), w.ipos(o.call), "row operation on a matrix that is neither m nor n")
			continue
		}
		key := fmt.Sprintf("%s:mirror:%s.%s#%d", shortName(fn), who, o.name, cnt[who+o.name])
		cnt[who+o.name]++
		found := false
		for _, p := range ops {
			if p.recv == other && p.name == o.name && p.call.Block() == o.call.Block() && sameArgs(p.args, o.args) {
				found = true
			}
		}
		if found {
			r.ok("ELIM", key, w.ipos(o.call), "mirrored on the other matrix with the same operands")
		} else {
			r.bad("ELIM", key, w.ipos(o.call), fmt.Sprintf("%s.%s has no counterpart with the same operands on the other matrix in the same step: m and n no longer undergo the same row operations, so n is not M^-1 N", who, o.name))
		}
		if o.recv != m {
			continue
		}
		switch o.name {
		case "swapRows":
			k2 := fmt.Sprintf("%s:pivot#%d", shortName(fn), cnt["pivot"])
			cnt["pivot"]++
			good := false
			for _, c := range cmpsAt(o.call.Block()) {
				if c.Op != token.NEQ || c.Y == nil {
					continue
				}
				if z, isC := constInt(c.Y); !isC || z != 0 {
					continue
				}
				if rc, row, col, ok := atCall(c.X); ok && rc == m && row == o.args[1] && col == o.args[0] {
					good = true
				}
			}
			if !good {
				good = pivotFromSearch(w, fn, m, o.call, o.args[0], o.args[1])
			}
			if good {
				r.ok("ELIM", k2, w.ipos(o.call), "swapRows(i, j) guarded by m.At(j, i) != 0")
			} else {
				r.bad("ELIM", k2, w.ipos(o.call), "the swap is not guarded by a non-zero test of the entry in the row swapped in and the column being eliminated (m.At(j, i) != 0): a zero can be taken as pivot or a valid pivot missed")
			}
		case "addScaledRow":
			k2 := fmt.Sprintf("%s:factor#%d", shortName(fn), cnt["factor"])
			cnt["factor"]++
			if rc, row, col, ok := atCall(o.args[2]); ok && rc == m && row == o.args[0] && col == o.args[1] {
				r.ok("ELIM", k2, w.ipos(o.call), "addScaledRow(d, s, c) with c = m.At(d, s)")
			} else {
				r.bad("ELIM", k2, w.ipos(o.call), "the factor of addScaledRow(d, s, c) is not m.At(d, s): the entry is not eliminated")
			}
		case "scaleRow":
			k2 := fmt.Sprintf("%s:scale#%d", shortName(fn), cnt["scale"])
			cnt["scale"]++
			good := false
			if inv, ok := stripConv(o.args[1]).(*ssa.Call); ok {
				if f := inv.Call.StaticCallee(); f != nil && f.Name() == "Inverse" {
					backSlice(inv.Call.Args[0], func(v ssa.Value) bool {
						if rc, row, col, ok := atCall(v); ok && rc == m && row == o.args[0] && col == o.args[0] {
							good = true
						}
						return true
					})
				}
			}
			if good {
				r.ok("ELIM", k2, w.ipos(o.call), "scaleRow(r, Inverse(m.At(r, r)))")
			} else {
				r.bad("ELIM", k2, w.ipos(o.call), "the scale factor is not the inverse of the diagonal entry of that row")
			}
		}
	}
	return len(ops)
}

// ---------------------------------------------------------------------------
// SOLVE: the reconstruction matrix comes out of the solver

const ruleSOLVEText = "no shortcut around the solver: every return of rsec16.makeReconstructionMatrix whose error may be nil returns, as the matrix, result 0 of gf2p16's RowReduceForInverse (or Inverse) - a hand-made matrix for a 'simple' case is right only for one parity matrix family"

func ruleSOLVE(w *World, r *Report) {
	r.rule("SOLVE", ruleSOLVEText)
	fn := w.Fn("rsec16.makeReconstructionMatrix")
	if fn == nil {
		r.unk("SOLVE", "rsec16.makeReconstructionMatrix", "", "function not found")
		return
	}
	n := 0
	for _, b := range fn.Blocks {
		ret, ok := b.Instrs[len(b.Instrs)-1].(*ssa.Return)
		if !ok || len(ret.Results) != 2 {
			continue
		}
		key := fmt.Sprintf("%s:return#%d", shortName(fn), n)
		n++
		if definitelyNonNilError(ret.Results[1]) {
			r.ok("SOLVE", key, w.ipos(ret), "error return")
			continue
		}
		fromSolver := func(v ssa.Value) bool {
			ex, ok := v.(*ssa.Extract)
			if !ok || ex.Index != 0 {
				return false
			}
			c, ok := ex.Tuple.(*ssa.Call)
			if !ok {
				return false
			}
			f := c.Call.StaticCallee()
			return f != nil && f.Pkg != nil && strings.HasSuffix(f.Pkg.Pkg.Path(), "/gf2p16") && (f.Name() == "RowReduceForInverse" || f.Name() == "Inverse")
		}
		okAll := true
		var visit func(v ssa.Value, d int) bool
		visit = func(v ssa.Value, d int) bool {
			if fromSolver(v) {
				return true
			}
			if phi, ok := v.(*ssa.Phi); ok && d < 4 {
				for _, e := range phi.Edges {
					if !visit(e, d+1) {
						return false
					}
				}
				return true
			}
			return false
		}
		okAll = visit(ret.Results[0], 0)
		if okAll {
			r.ok("SOLVE", key, w.ipos(ret), "the matrix returned is the solver's result")
		} else {
			r.bad("SOLVE", key, w.ipos(ret), "a return whose error may be nil hands back a matrix that did not come out of RowReduceForInverse: the reconstruction matrix of this case is made by hand")
		}
	}
	r.floor("SOLVE", "returns of makeReconstructionMatrix", n, 1)
}

// SOLVE, second clause: what ReconstructData stores into the data rows is what applyMatrix computed
// with the matrix makeReconstructionMatrix returned
func ruleSOLVEStores(w *World, r *Report) {
	fn := w.Fn("(rsec16.Coder).ReconstructData")
	if fn == nil || len(fn.Params) < 2 {
		r.unk("SOLVE", "(rsec16.Coder).ReconstructData", "", "function not found")
		return
	}
	data := ssa.Value(fn.Params[1])
	solved := func(a ssa.Value) bool {
		if ex, ok := a.(*ssa.Extract); ok && ex.Index == 0 {
			if mc, ok := ex.Tuple.(*ssa.Call); ok {
				if f := mc.Call.StaticCallee(); f != nil && f.Name() == "makeReconstructionMatrix" {
					return true
				}
			}
		}
		return false
	}
	fromApply := func(s ssa.Value) bool {
		// the rows are the result of a helper of the package that is given the solved matrix
		if sc, ok := s.(*ssa.Call); ok {
			if g := sc.Call.StaticCallee(); g != nil && g.Pkg != nil && strings.HasSuffix(g.Pkg.Pkg.Path(), "/rsec16") {
				for _, a := range sc.Call.Args {
					if solved(a) {
						return true
					}
				}
			}
		}
		for _, c := range callInstrs(fn) {
			g := c.Common().StaticCallee()
			if g == nil || g.Pkg == nil || !strings.HasSuffix(g.Pkg.Pkg.Path(), "/rsec16") {
				continue
			}
			args := c.Common().Args
			has := false
			for _, a := range args {
				if a == s {
					has = true
				}
			}
			if !has {
				continue
			}
			for _, a := range args {
				if solved(a) {
					return true
				}
			}
		}
		return false
	}
	n := 0
	// the stores may sit in a private helper that is handed data and the rows: its parameters
	// stand for the arguments of the call in ReconstructData
	type frame struct {
		f    *ssa.Function
		data ssa.Value
		arg  map[ssa.Value]ssa.Value
	}
	frames := []frame{{fn, data, nil}}
	for _, c := range callInstrs(fn) {
		g := c.Common().StaticCallee()
		if g == nil || len(g.Blocks) == 0 || !inRegion(fn, g) || g == fn {
			continue
		}
		args := c.Common().Args
		for pi, a := range args {
			if a == data && pi < len(g.Params) {
				m := map[ssa.Value]ssa.Value{}
				for pj, a2 := range args {
					if pj < len(g.Params) {
						m[g.Params[pj]] = a2
					}
				}
				frames = append(frames, frame{g, g.Params[pi], m})
			}
		}
	}
	for _, fr := range frames {
		for _, b := range fr.f.Blocks {
			for _, in := range b.Instrs {
				st, ok := in.(*ssa.Store)
				if !ok {
					continue
				}
				ia, ok := st.Addr.(*ssa.IndexAddr)
				if !ok || ia.X != fr.data {
					continue
				}
				key := fmt.Sprintf("%s:row-store#%d", shortName(fn), n)
				n++
				good := false
				if ld, ok := st.Val.(*ssa.UnOp); ok && ld.Op == token.MUL {
					if sa, ok := ld.X.(*ssa.IndexAddr); ok {
						src := sa.X
						if up, isArg := fr.arg[src]; isArg {
							src = up
						}
						if fromApply(src) {
							good = true
						}
					}
				}
				if good {
					r.ok("SOLVE", key, w.ipos(st), "the row stored is a row of the output of the matrix application (applyMatrix or its inlined form) that is given the solved reconstruction matrix")
				} else {
					r.bad("SOLVE", key, w.ipos(st), "a data row is filled with something other than a row of the slice handed, together with the matrix makeReconstructionMatrix returned, to the matrix application: this case is reconstructed by hand, outside the solver that accounts for which recovery rows are present")
				}
			}
		}
	}
	r.floor("SOLVE", "row stores in ReconstructData", n, 1)
}

// ---------------------------------------------------------------------------
// ZEROEXP: the zero cases of Pow are decided on the exponent itself

const ruleZEROEXPText = "0^p is decided on p itself: in gf2p16 T.Pow, every comparison with 0 of a value derived from the exponent parameter compares the parameter itself (possibly converted), not a reduced or otherwise transformed exponent - 0^65535 is 0, not 0^0"

func ruleZEROEXP(w *World, r *Report) {
	r.rule("ZEROEXP", ruleZEROEXPText)
	fn := w.Fn("(gf2p16.T).Pow")
	if fn == nil || len(fn.Params) < 2 {
		r.unk("ZEROEXP", "(gf2p16.T).Pow", "", "function not found")
		return
	}
	p := ssa.Value(fn.Params[1])
	n := 0
	for _, b := range fn.Blocks {
		for _, in := range b.Instrs {
			bo, ok := in.(*ssa.BinOp)
			if !ok || (bo.Op != token.EQL && bo.Op != token.NEQ) {
				continue
			}
			var v ssa.Value
			if z, isC := constInt(bo.Y); isC && z == 0 {
				v = bo.X
			} else if z, isC := constUint(bo.Y); isC && z == 0 {
				v = bo.X
			} else if z, isC := constInt(bo.X); isC && z == 0 {
				v = bo.Y
			} else {
				continue
			}
			if !dependsOn(v, p) {
				continue
			}
			key := fmt.Sprintf("%s:exp-zero-test#%d", shortName(fn), n)
			n++
			if stripAllConv(v) == p {
				r.ok("ZEROEXP", key, w.ipos(bo), "the exponent parameter itself is compared with 0")
			} else {
				r.bad("ZEROEXP", key, w.ipos(bo), fmt.Sprintf("the zero test is made on %s, a value computed from the exponent, not on the exponent: exponents that are non-zero multiples of the group order are treated as 0", v))
			}
		}
	}
	r.floor("ZEROEXP", "zero tests of the exponent in Pow", n, 1)
	// the exponent reaches the product whole: on the way from the parameter to any other use it is only
	// converted, multiplied, or reduced modulo the group order 65535
	nUse := 0
	var visit func(v ssa.Value, seen map[ssa.Value]bool)
	visit = func(v ssa.Value, seen map[ssa.Value]bool) {
		if seen[v] {
			return
		}
		seen[v] = true
		for _, ref := range referrersOf(v) {
			switch x := ref.(type) {
			case *ssa.Convert:
				visit(x, seen)
			case *ssa.ChangeType:
				visit(x, seen)
			case *ssa.DebugRef:
			case *ssa.BinOp:
				nUse++
				key := fmt.Sprintf("%s:exp-use#%d", shortName(fn), nUse-1)
				switch x.Op {
				case token.EQL, token.NEQ:
					r.ok("ZEROEXP", key, w.ipos(x), "comparison")
				case token.MUL:
					r.ok("ZEROEXP", key, w.ipos(x), "the exponent enters the product whole")
				case token.REM:
					if c, ok := constUint(x.Y); ok && c == 65535 && x.X == v {
						r.ok("ZEROEXP", key, w.ipos(x), "reduced modulo the group order 65535")
						visit(x, seen)
					} else {
						r.bad("ZEROEXP", key, w.ipos(x), fmt.Sprintf("the exponent is reduced by %s, which is not the order of the multiplicative group (65535): t^p changes for large p", x))
					}
				default:
					r.bad("ZEROEXP", key, w.ipos(x), fmt.Sprintf("the exponent is transformed by %s before it is used: only p mod 65535 leaves t^p unchanged (the group has 65535 elements, not 65536)", x))
				}
			default:
				// other uses (stores, calls) are not arithmetic on the exponent
			}
		}
	}
	visit(p, map[ssa.Value]bool{})
	r.floor("ZEROEXP", "arithmetic uses of the exponent in Pow", nUse, 2)
}

// loopCarried: one of the phi's edges is (transitively, through phis and appends) the phi itself.
func loopCarried(phi *ssa.Phi) bool {
	seen := map[ssa.Value]bool{}
	var reach func(v ssa.Value) bool
	reach = func(v ssa.Value) bool {
		if v == ssa.Value(phi) {
			return true
		}
		if seen[v] {
			return false
		}
		seen[v] = true
		switch x := v.(type) {
		case *ssa.Phi:
			for _, e := range x.Edges {
				if reach(e) {
					return true
				}
			}
		case *ssa.Call:
			if c := isBuiltinCall(x, "append"); c != nil {
				return reach(c.Call.Args[0])
			}
		}
		return false
	}
	for _, e := range phi.Edges {
		if reach(e) {
			return true
		}
	}
	return false
}

// ---------------------------------------------------------------------------
// FMTCONST: file names are never used as format strings

const ruleFMTCONSTText = "paths are data, not format strings: in par1 and par2 the format operand of fmt.Sprintf / Fprintf / Printf / Errorf is a constant - a base name spliced into the format is interpreted (a '%' in a directory or file name mangles the volume names Create writes and Repair looks for)"

func ruleFMTCONST(w *World, r *Report) {
	r.rule("FMTCONST", ruleFMTCONSTText)
	fmtArg := map[string]int{"fmt.Sprintf": 0, "fmt.Printf": 0, "fmt.Errorf": 0, "fmt.Fprintf": 1, "fmt.Sscanf": 1, "fmt.Fscanf": 1}
	n := 0
	for _, fn := range w.funcsInPkgs("par1", "par2") {
		k := 0
		for _, c := range callInstrs(fn) {
			f := c.Common().StaticCallee()
			if f == nil {
				continue
			}
			idx, ok := fmtArg[f.String()]
			if !ok || idx >= len(c.Common().Args) {
				continue
			}
			n++
			key := fmt.Sprintf("%s:%s#%d", shortName(fn), f.String(), k)
			k++
			if _, isC := constString(c.Common().Args[idx]); isC {
				r.ok("FMTCONST", key, w.ipos(c), "constant format")
			} else {
				r.bad("FMTCONST", key, w.ipos(c), "the format operand of "+f.String()+" is computed at run time ("+c.Common().Args[idx].String()+"): a '%' in a path is interpreted as a verb and the resulting name is mangled")
			}
		}
	}
	r.floor("FMTCONST", "formatting calls in par1 and par2", n, 3)
}

// ---------------------------------------------------------------------------
// EXTCUT: an extension is cut off as a suffix, never as a character set

const ruleEXTCUTText = "an extension is removed as a suffix: in par1, par2 and cmd/par no call of strings.Trim / TrimRight / TrimLeft has a cut set that is derived from path.Ext / filepath.Ext - those functions remove every trailing character that occurs in the set, so 'data.par' loses its stem's last letters and the volumes beside the index are looked for under the wrong names"

func ruleEXTCUT(w *World, r *Report) {
	r.rule("EXTCUT", ruleEXTCUTText)
	n, bad := 0, 0
	for _, fn := range w.funcsInPkgs("par1", "par2", "cmd/par") {
		k := 0
		for _, c := range callInstrs(fn) {
			nm := calleeName(c.Common())
			switch nm {
			case "path.Ext", "path/filepath.Ext":
				n++
			case "strings.Trim", "strings.TrimRight", "strings.TrimLeft":
				if len(c.Common().Args) < 2 {
					continue
				}
				fromExt := false
				backSlice(c.Common().Args[1], func(v ssa.Value) bool {
					if cl, ok := v.(*ssa.Call); ok {
						if x := calleeName(&cl.Call); x == "path.Ext" || x == "path/filepath.Ext" {
							fromExt = true
						}
					}
					return !fromExt
				})
				if fromExt {
					bad++
					r.bad("EXTCUT", fmt.Sprintf("%s:%s#%d", shortName(fn), nm, k), w.ipos(c), nm+" is given a file extension as its cut set: it removes characters, not the suffix (use strings.TrimSuffix or slice by len(ext))")
					k++
				}
			}
		}
	}
	if bad == 0 {
		r.ok("EXTCUT", "all", "", fmt.Sprintf("%d uses of path.Ext / filepath.Ext, none feeds a Trim cut set", n))
	}
	r.floor("EXTCUT", "uses of path.Ext / filepath.Ext", n, 3)
}

// ---------------------------------------------------------------------------
// GETKEYS: a slice is looked up by CRC32 and MD5, both

const ruleGETKEYSText = "both checksums key the lookup: every non-nil result of (par2.checksumShardLocationMap).get is the inner map indexed by md5.Sum of the data parameter, the inner map being the outer one indexed by the crc32 parameter - no result is produced from the CRC32 alone"

func ruleGETKEYS(w *World, r *Report) {
	r.rule("GETKEYS", ruleGETKEYSText)
	fn := w.Fn("(par2.checksumShardLocationMap).get")
	if fn == nil || len(fn.Params) < 3 {
		r.unk("GETKEYS", "(par2.checksumShardLocationMap).get", "", "function not found")
		return
	}
	crc, data := ssa.Value(fn.Params[1]), ssa.Value(fn.Params[2])
	n := 0
	for _, b := range fn.Blocks {
		ret, ok := b.Instrs[len(b.Instrs)-1].(*ssa.Return)
		if !ok || len(ret.Results) != 1 {
			continue
		}
		key := fmt.Sprintf("%s:return#%d", shortName(fn), n)
		n++
		v := stripConv(ret.Results[0])
		if isNilConst(v) {
			r.ok("GETKEYS", key, w.ipos(ret), "nil (nothing found)")
			continue
		}
		good := false
		if lk, ok := v.(*ssa.Lookup); ok {
			if mc := callOf(lk.Index, "crypto/md5.Sum"); mc != nil && len(mc.Call.Args) == 1 && stripConv(mc.Call.Args[0]) == data {
				inner := stripConv(lk.X)
				if ex, ok := inner.(*ssa.Extract); ok {
					inner = ex.Tuple
				}
				if lk2, ok := inner.(*ssa.Lookup); ok && stripConv(lk2.Index) == crc {
					good = true
				}
			}
		}
		if good {
			r.ok("GETKEYS", key, w.ipos(ret), "result is m[crc32][md5.Sum(data)]")
		} else {
			r.bad("GETKEYS", key, w.ipos(ret), "a result of get is not m[crc32][md5.Sum(data)]: a slice is accepted as found without its MD5 having been compared (CRC32 collisions count as intact data)")
		}
	}
	r.floor("GETKEYS", "returns of get", n, 1)
}

// ---------------------------------------------------------------------------
// NAMESYM: a reader rejects a name only where the writer does

const ruleNAMESYMText = "reader and writer agree on which names are acceptable: in the functions that read a protected file's name from the wire (par1.readFileEntry, par2.readFileDescriptionPacket) no branch depends on the decoded name except through the format's shared checker (par2.checkFilename, which the writer calls too) - a name Create accepted is not rejected when the set is read back"

func ruleNAMESYM(w *World, r *Report, pkgs ...string) {
	r.rule("NAMESYM", ruleNAMESYMText)
	type ent struct{ pkg, fn, decoder string }
	n := 0
	for _, e := range []ent{{"par1", "par1.readFileEntry", "par1.decodeUTF16LEString"}, {"par2", "par2.readFileDescriptionPacket", "par2.decodeNullPaddedASCIIString"}} {
		use := len(pkgs) == 0
		for _, p := range pkgs {
			use = use || p == e.pkg
		}
		if !use {
			continue
		}
		fn := w.Fn(e.fn)
		if fn == nil {
			r.unk("NAMESYM", e.fn, "", "function not found")
			continue
		}
		var name ssa.Value
		for _, c := range callInstrs(fn) {
			if staticCalleeShort(c.Common()) == e.decoder {
				name = c.Value()
			}
		}
		if name == nil {
			r.unk("NAMESYM", e.fn, w.pos(fn.Pos()), "the call of "+e.decoder+" was not found")
			continue
		}
		n++
		bad := ""
		for _, b := range fn.Blocks {
			iff, ok := b.Instrs[len(b.Instrs)-1].(*ssa.If)
			if !ok {
				continue
			}
			dep := false
			seen := map[ssa.Value]bool{}
			var walk func(v ssa.Value)
			walk = func(v ssa.Value) {
				if v == nil || seen[v] || dep {
					return
				}
				seen[v] = true
				if v == name {
					dep = true
					return
				}
				if c, ok := v.(*ssa.Call); ok && strings.HasSuffix(staticCalleeShort(&c.Call), ".checkFilename") {
					return // the shared checker
				}
				if in, ok := v.(ssa.Instruction); ok {
					for _, op := range in.Operands(nil) {
						if *op != nil {
							walk(*op)
						}
					}
				}
			}
			walk(iff.Cond)
			if dep && bad == "" {
				bad = w.ipos(iff)
			}
		}
		if bad != "" {
			r.bad("NAMESYM", e.fn, bad, "the reader branches on the decoded name outside the shared checker: names that the writer stores are rejected (or treated differently) when the set is read back")
		} else {
			r.ok("NAMESYM", e.fn, w.pos(fn.Pos()), "no branch on the decoded name outside the shared checker")
		}
	}
	r.floor("NAMESYM", "name readers", n, 1)
}

// pivotFromSearch: the row swapped in is the result of a private search method on m for column
// col: each of its returns is either a negative constant (nothing found) or a row v returned
// under m.At(v, col) != 0, and the swap is made only where the result is known non-negative.
func pivotFromSearch(w *World, fn *ssa.Function, m ssa.Value, swap *ssa.Call, col, row ssa.Value) bool {
	c, ok := stripConv(row).(*ssa.Call)
	if !ok {
		return false
	}
	g := c.Call.StaticCallee()
	if g == nil || g.Signature.Recv() == nil || len(g.Params) != 2 || len(c.Call.Args) != 2 || len(g.Blocks) == 0 {
		return false
	}
	if g.Object() == nil || g.Object().Exported() || matrixRoot(c.Call.Args[0]) != m || c.Call.Args[1] != col {
		return false
	}
	gm, gcol := ssa.Value(g.Params[0]), ssa.Value(g.Params[1])
	nret := 0
	for _, b := range g.Blocks {
		ret, ok := b.Instrs[len(b.Instrs)-1].(*ssa.Return)
		if !ok || len(ret.Results) != 1 {
			continue
		}
		nret++
		v := ret.Results[0]
		if k, isC := constInt(v); isC {
			if k >= 0 {
				return false
			}
			continue
		}
		found := false
		for _, cm := range cmpsAt(b) {
			if cm.Op != token.NEQ || cm.Y == nil {
				continue
			}
			if z, isC := constInt(cm.Y); !isC || z != 0 {
				continue
			}
			at, isCall := stripConv(cm.X).(*ssa.Call)
			if !isCall {
				continue
			}
			f := at.Call.StaticCallee()
			if f == nil || f.Name() != "At" || len(at.Call.Args) != 3 {
				continue
			}
			if matrixRoot(at.Call.Args[0]) == gm && at.Call.Args[1] == v && at.Call.Args[2] == gcol {
				found = true
			}
		}
		if !found {
			return false
		}
	}
	if nret == 0 {
		return false
	}
	rangeWorld = w
	rc := &rangeCtx{memo: map[ssa.Value]*ival{}, busy: map[ssa.Value]bool{}}
	iv := rc.eval(c, swap.Block())
	return iv != nil && iv.lo.Sign() >= 0
}

// lockstepPair: c calls a method of a two-matrix struct that applies the Matrix method of the
// same name to both members with its own parameters in order; returns the two matrices the
// receiver was built from.
func lockstepPair(c *ssa.Call) (ssa.Value, ssa.Value, bool) {
	g := c.Call.StaticCallee()
	if g == nil || len(g.Blocks) == 0 || len(g.Params) < 1 {
		return nil, nil, false
	}
	// the method body: exactly two calls of the same-named Matrix method on fields of the receiver
	var fields []int
	for _, ic := range callInstrs(g) {
		f := ic.Common().StaticCallee()
		if f == nil || f.Name() != g.Name() || f == g {
			return nil, nil, false
		}
		args := ic.Common().Args
		if len(args) != len(g.Params) {
			return nil, nil, false
		}
		for k := 1; k < len(args); k++ {
			if args[k] != ssa.Value(g.Params[k]) {
				return nil, nil, false
			}
		}
		// receiver: field of g's receiver parameter
		rv := stripConv(args[0])
		var fld = -1
		switch x := rv.(type) {
		case *ssa.Field:
			if stripConv(x.X) == ssa.Value(g.Params[0]) {
				fld = x.Field
			}
		case *ssa.UnOp:
			if fa, ok := x.X.(*ssa.FieldAddr); ok {
				if al, ok := fa.X.(*ssa.Alloc); ok {
					for _, ref := range referrersOf(al) {
						if st, ok := ref.(*ssa.Store); ok && st.Addr == ssa.Value(al) && st.Val == ssa.Value(g.Params[0]) {
							fld = fa.Field
						}
					}
				}
			}
		}
		if fld < 0 {
			return nil, nil, false
		}
		fields = append(fields, fld)
	}
	if len(fields) != 2 || fields[0] == fields[1] {
		return nil, nil, false
	}
	// the receiver value at the call: a local struct whose two fields were stored once each
	rv := stripConv(c.Call.Args[0])
	ld, ok := rv.(*ssa.UnOp)
	if !ok {
		return nil, nil, false
	}
	al, ok := ld.X.(*ssa.Alloc)
	if !ok {
		return nil, nil, false
	}
	vals := map[int]ssa.Value{}
	for _, ref := range referrersOf(al) {
		switch x := ref.(type) {
		case *ssa.FieldAddr:
			for _, r2 := range referrersOf(x) {
				if st, ok := r2.(*ssa.Store); ok && st.Addr == ssa.Value(x) {
					if _, dup := vals[x.Field]; dup {
						return nil, nil, false
					}
					vals[x.Field] = matrixRoot(st.Val)
				}
			}
		case *ssa.Store:
			if x.Addr == ssa.Value(al) {
				return nil, nil, false
			}
		}
	}
	a, okA := vals[fields[0]]
	b, okB := vals[fields[1]]
	if !okA || !okB {
		return nil, nil, false
	}
	return a, b, true
}

func derefType(t types.Type) types.Type {
	if p, ok := t.Underlying().(*types.Pointer); ok {
		return p.Elem()
	}
	return t
}
