package main

import (
	"fmt"
	"sort"
	"strings"

	"golang.org/x/tools/go/callgraph"
	"golang.org/x/tools/go/ssa"
)

// ---------------------------------------------------------------------------
// frontier classification of non-module functions

type effect int

const (
	effPure effect = iota
	effFSRead
	effMutating
	effUnknown
	effThirdParty
)

func funcPkgPath(fn *ssa.Function) string {
	if fn == nil {
		return ""
	}
	if fn.Pkg != nil {
		return fn.Pkg.Pkg.Path()
	}
	if o := fn.Object(); o != nil && o.Pkg() != nil {
		return o.Pkg().Path()
	}
	if fn.Parent() != nil {
		return funcPkgPath(fn.Parent())
	}
	// synthetic wrapper: "wrapper for func (*os.File).Write" etc. - try the signature's receiver
	if fn.Signature != nil && fn.Signature.Recv() != nil {
		s := namedTypeName(fn.Signature.Recv().Type())
		if i := strings.LastIndex(s, "."); i > 0 {
			return s[:i]
		}
	}
	return ""
}

func isStdPath(p string) bool {
	if p == "" {
		return false
	}
	first := p
	if i := strings.Index(p, "/"); i >= 0 {
		first = p[:i]
	}
	return !strings.Contains(first, ".")
}

var osReadOnly = map[string]bool{
	"Open": true, "Stat": true, "Lstat": true, "Getwd": true, "IsNotExist": true, "IsExist": true,
	"IsPermission": true, "IsTimeout": true, "Exit": true, "Getenv": true, "LookupEnv": true, "Environ": true,
	"Hostname": true, "Getpid": true, "Getppid": true, "Getuid": true, "Geteuid": true, "Getgid": true,
	"Getegid": true, "Getgroups": true, "ReadFile": true, "ReadDir": true, "Expand": true, "ExpandEnv": true,
	"UserHomeDir": true, "UserCacheDir": true, "UserConfigDir": true, "TempDir": true, "Executable": true,
	"IsPathSeparator": true, "SameFile": true, "Readlink": true, "Getpagesize": true, "NewSyscallError": true,
	"DirFS": true, "init": true,
}

var osFileReadOnly = map[string]bool{
	"Read": true, "ReadAt": true, "ReadFrom": false, "Close": true, "Stat": true, "Name": true, "Readdir": true,
	"Readdirnames": true, "ReadDir": true, "Seek": true, "Fd": true, "SetDeadline": true, "SetReadDeadline": true,
	"SyscallConn": true,
}

var ioutilReadOnly = map[string]bool{"ReadFile": true, "ReadDir": true, "ReadAll": true, "NopCloser": true, "init": true}

var purePkgPrefixes = []string{
	"strings", "bytes", "fmt", "sort", "errors", "math", "unicode", "encoding", "crypto", "hash", "reflect",
	"path", "sync", "runtime", "flag", "strconv", "io", "time", "bufio", "container", "context", "regexp",
	"text", "log", "internal", "unsafe", "slices", "maps", "cmp", "iter", "os/signal", "compress", "testing",
	"go", "html", "image", "index", "mime", "embed", "expvar", "debug", "database", "archive", "vendor", "weak", "unique", "structs",
}

var mutatingPkgPrefixes = []string{"syscall", "os/exec", "net", "plugin", "os/user"}

func hasPkgPrefix(p string, list []string) bool {
	for _, q := range list {
		if p == q || strings.HasPrefix(p, q+"/") {
			return true
		}
	}
	return false
}

// classifyExternal classifies a function outside the module by the
// filesystem effect it can have on its own (not through arguments that the
// module hands in, which are tracked at their creation: os.Create/OpenFile).
func classifyExternal(fn *ssa.Function) effect {
	pp := funcPkgPath(fn)
	if pp == "" {
		return effUnknown
	}
	if !isStdPath(pp) {
		return effThirdParty
	}
	name := fn.Name()
	// strip wrapper decorations
	name = strings.TrimSuffix(name, "$bound")
	name = strings.TrimSuffix(name, "$thunk")
	recv := ""
	if fn.Signature != nil && fn.Signature.Recv() != nil {
		recv = namedTypeName(fn.Signature.Recv().Type())
	}
	switch pp {
	case "os":
		if recv == "os.File" {
			if osFileReadOnly[name] {
				return effFSRead
			}
			return effMutating
		}
		if recv != "" {
			// methods of FileMode, PathError, fileStat, ProcessState, ...: no effect
			if recv == "os.Process" || recv == "os.Root" {
				return effMutating
			}
			return effPure
		}
		if fn.Parent() != nil {
			return effPure
		}
		if osReadOnly[name] {
			return effFSRead
		}
		return effMutating
	case "io/ioutil":
		if ioutilReadOnly[name] || recv != "" {
			return effFSRead
		}
		return effMutating
	case "path/filepath", "io/fs":
		return effFSRead
	case "runtime/pprof":
		return effPure // writes only to the writer it is given
	}
	if hasPkgPrefix(pp, mutatingPkgPrefixes) {
		return effMutating
	}
	if hasPkgPrefix(pp, purePkgPrefixes) {
		return effPure
	}
	return effUnknown
}

// thirdPartyEffects walks the call graph from a third-party function, staying
// outside std and the module, and reports the first mutating std callee found.
type tpMemo struct {
	g    *callgraph.Graph
	memo map[*ssa.Function]string // "" = clean, else path description
	n    int
}

func (m *tpMemo) mutating(fn *ssa.Function) string {
	if v, ok := m.memo[fn]; ok {
		return v
	}
	m.memo[fn] = "" // cycle guard
	m.n++
	res := ""
	if n := m.g.Nodes[fn]; n != nil {
		for _, e := range n.Out {
			c := e.Callee.Func
			if c == nil {
				continue
			}
			switch classifyExternal(c) {
			case effMutating:
				res = fn.String() + " -> " + c.String()
			case effThirdParty:
				if p := m.mutating(c); p != "" {
					res = fn.String() + " -> " + p
				}
			}
			if res != "" {
				break
			}
		}
	}
	m.memo[fn] = res
	return res
}

// ---------------------------------------------------------------------------
// fileIO interface call sites

type ioSite struct {
	Fn     *ssa.Function
	Call   ssa.CallInstruction
	Method string
	Idx    int // index among the same method's sites in Fn, in block order
	Lift   *liftedSite
}

// A liftedSite describes a fileIO invoke that sits in a private helper of a designated writer
// (the tail of Repair's loop moved into `writeRepairedFile(i, entry, data) (string, error)`), in
// terms of the writer: the helper call stands for the write, with the path, data and error values
// the writer sees.
type liftedSite struct {
	Inner            *ssa.Function       // the helper containing the invoke
	At               ssa.CallInstruction // the call of the helper in the writer
	Path, Data, Errv ssa.Value           // writer-level values (Path may be nil if the helper neither receives nor returns it)
}

// at: the instruction that stands for the write in the function the rules reason about.
func (s ioSite) at() ssa.CallInstruction {
	if s.Lift != nil {
		return s.Lift.At
	}
	return s.Call
}
func (s ioSite) pathVal() ssa.Value {
	if s.Lift != nil {
		return s.Lift.Path
	}
	return s.Call.Common().Args[0]
}
func (s ioSite) dataVal() ssa.Value {
	if s.Lift != nil {
		return s.Lift.Data
	}
	return s.Call.Common().Args[1]
}
func (s ioSite) errVal() ssa.Value {
	if s.Lift != nil {
		return s.Lift.Errv
	}
	return s.Call.Value()
}

func (s ioSite) key() string { return fmt.Sprintf("%s:%s#%d", shortName(s.Fn), s.Method, s.Idx) }

// fileIOSites returns every invoke of a method of the par1/par2 fileIO
// interfaces (interface types declared in par1 or par2 that have a WriteFile
// and a ReadFile method), in all module functions.
func (w *World) fileIOSites() []ioSite {
	var out []ioSite
	for _, fn := range w.Funcs {
		cnt := map[string]int{}
		for _, c := range callInstrs(fn) {
			cc := c.Common()
			if !cc.IsInvoke() || cc.Method.Pkg() == nil {
				continue
			}
			ps := pkgShort(cc.Method.Pkg().Path())
			if ps != "par1" && ps != "par2" {
				continue
			}
			it, ok := cc.Value.Type().Underlying().(interface {
				NumMethods() int
			})
			_ = it
			if !ok {
				continue
			}
			if !isFileIOInterface(cc) {
				continue
			}
			m := cc.Method.Name()
			out = append(out, ioSite{Fn: fn, Call: c, Method: m, Idx: cnt[m]})
			cnt[m]++
		}
	}
	return out
}

func isFileIOInterface(cc *ssa.CallCommon) bool {
	ms := methodNames(cc.Value.Type())
	return ms["WriteFile"] && ms["ReadFile"]
}

// ---------------------------------------------------------------------------
// entry points

func (w *World) fns(names ...string) []*ssa.Function {
	var out []*ssa.Function
	for _, n := range names {
		if f := w.Fn(n); f != nil {
			out = append(out, f)
		}
	}
	return out
}

var verifyRootNames = []string{
	"par1.Verify", "par1.verify", "par2.Verify", "par2.verify",
	"par1.NewDecoder", "par1.newDecoder", "par2.NewDecoder", "par2.newDecoder",
	"(*par1.Decoder).LoadFileData", "(*par1.Decoder).LoadParityData", "(*par1.Decoder).FileCounts", "(*par1.Decoder).VerifyAllData",
	"(*par2.Decoder).LoadFileData", "(*par2.Decoder).LoadParityData", "(*par2.Decoder).ShardCounts",
}
var createRootNames = []string{
	"par1.Create", "par1.create", "par2.Create", "par2.create",
	"par1.NewEncoder", "par1.newEncoder", "par2.NewEncoder", "par2.newEncoder",
	"(*par1.Encoder).LoadFileData", "(*par1.Encoder).ComputeParityData", "(*par1.Encoder).Write",
	"(*par2.Encoder).LoadFileData", "(*par2.Encoder).ComputeParityData", "(*par2.Encoder).Write",
}
var repairRootNames = []string{
	"par1.Repair", "par1.repair", "par2.Repair", "par2.repair",
	"(*par1.Decoder).Repair", "(*par2.Decoder).Repair",
}

var libPkgs = []string{"par1", "par2", "rsec16", "gf2p16", "gf2", "par2cmdline", "memfs"}

// ---------------------------------------------------------------------------
// rule EFF

const ruleEFFText = "filesystem effect discipline: (E1) the only calls of filesystem-mutating primitives in the library packages are inside the WriteFile methods of the two defaultFileIO types (cmd/par: only os.Create of the -cpuprofile file); (E2) fileIO.WriteFile is invoked only in {par1,par2}.(*Decoder).Repair and (*Encoder).Write; (E3) no function reachable from a Verify entry point contains an E1/E2 site or reaches a mutating primitive; (E4) Create reaches only Encoder.Write sites, Repair only Decoder.Repair sites; (E5) third-party code reachable from the module reaches no mutating primitive"

func isDefaultFileIOWrite(fn *ssa.Function) bool {
	if fn.Name() != "WriteFile" || fn.Signature.Recv() == nil {
		return false
	}
	ps := ""
	if fn.Pkg != nil {
		ps = pkgShort(fn.Pkg.Pkg.Path())
	}
	if ps != "par1" && ps != "par2" {
		return false
	}
	return namedTypeName(fn.Signature.Recv().Type()) == ps+".defaultFileIO"
}

// mutatingSites lists direct calls of mutating primitives in module functions.
type mutSite struct {
	Fn     *ssa.Function
	Call   ssa.CallInstruction
	Callee string
}

func (w *World) mutatingSites(r *Report) []mutSite {
	var out []mutSite
	tp := &tpMemo{g: w.CG, memo: map[*ssa.Function]string{}}
	unknownSeen := map[string]bool{}
	for _, fn := range w.Funcs {
		n := w.CG.Nodes[fn]
		if n == nil {
			continue
		}
		for _, e := range n.Out {
			c := e.Callee.Func
			if c == nil || w.inModule(c) {
				continue
			}
			switch classifyExternal(c) {
			case effMutating:
				out = append(out, mutSite{fn, e.Site, c.String()})
			case effThirdParty:
				if p := tp.mutating(c); p != "" {
					out = append(out, mutSite{fn, e.Site, p})
				}
			case effUnknown:
				k := c.String()
				if !unknownSeen[k] {
					unknownSeen[k] = true
					r.unk("EFF", "frontier:"+k, w.ipos(e.Site), "callee outside the module is in no classified package; its filesystem effect is unknown (called from "+shortName(fn)+")")
				}
			}
		}
	}
	r.stat("third_party_functions_analysed", tp.n)
	sort.Slice(out, func(i, j int) bool {
		if out[i].Fn.String() != out[j].Fn.String() {
			return out[i].Fn.String() < out[j].Fn.String()
		}
		return out[i].Callee < out[j].Callee
	})
	return out
}

type effOpts struct {
	e1, e2, e3, e4, e5 bool
	impl               bool   // also check that the WriteFile implementation replaces the whole file
	implDir            bool   // only the clauses of that check about where it writes (temp files, rename target)
	onlyPkg            string // restrict E1 to this package's functions
}

func ruleEFF(w *World, r *Report, o effOpts) {
	r.rule("EFF", ruleEFFText)
	muts := w.mutatingSites(r)
	sites := w.fileIOSites()
	r.stat("call_sites", len(sites)+len(muts))

	// E1
	nPrim := 0
	perFn := map[string]int{}
	for _, m := range muts {
		name := shortName(m.Fn)
		k := fmt.Sprintf("E1:%s:%s#%d", name, m.Callee, perFn[name+m.Callee])
		perFn[name+m.Callee]++
		pkg := w.fnPkg(m.Fn)
		if o.onlyPkg != "" && pkg != o.onlyPkg {
			continue
		}
		switch {
		case isDefaultFileIOWrite(m.Fn):
			nPrim++
			if o.e1 {
				if why := writeImplProblem(m); why != "" && (o.impl || (o.implDir && (strings.Contains(m.Callee, "Temp") || m.Callee == "os.Rename"))) {
					r.bad("EFF", k, w.ipos(m.Call), why)
				} else {
					r.ok("EFF", k, w.ipos(m.Call), "mutating primitive inside the fileIO implementation's WriteFile; replaces the whole file with the data parameter")
				}
			}
		case pkg == "cmd/par" && name == "cmd/par.main" && m.Callee == "os.Create" && argFromField(m.Call, 0, "cpuProfile"):
			if o.e1 {
				r.ok("EFF", k, w.ipos(m.Call), "the -cpuprofile exception: os.Create of the user-named profile file")
			}
		default:
			if o.e1 {
				r.bad("EFF", k, w.ipos(m.Call), fmt.Sprintf("%s calls filesystem-mutating %s outside the fileIO.WriteFile implementations", name, m.Callee))
			}
		}
	}
	if o.e1 {
		fl := 2
		if o.onlyPkg != "" {
			fl = 1
		}
		r.floor("EFF", "mutating primitive sites inside defaultFileIO.WriteFile", nPrim, fl)
	}

	// E2
	allowedWrite := map[string]int{
		"(*par1.Decoder).Repair": 1, "(*par2.Decoder).Repair": 1,
		"(*par1.Encoder).Write": 1, "(*par2.Encoder).Write": 1, // at least one site each; index and volumes may share one helper
	}
	got := map[string]int{}
	var writeSites []ioSite
	for _, s := range sites {
		if s.Method != "WriteFile" {
			continue
		}
		writeSites = append(writeSites, s)
		name := w.writerOwner(s.Fn)
		if _, ok := allowedWrite[name]; ok {
			got[name]++
			if o.e2 {
				r.ok("EFF", "E2:"+s.key(), w.ipos(s.Call), "fileIO.WriteFile invoked in a designated writer")
			}
		} else if o.e2 {
			r.bad("EFF", "E2:"+s.key(), w.ipos(s.Call), "fileIO.WriteFile invoked outside Decoder.Repair / Encoder.Write: "+name)
		}
	}
	if o.e2 {
		names := []string{}
		for n := range allowedWrite {
			names = append(names, n)
		}
		sort.Strings(names)
		for _, n := range names {
			r.floor("EFF", "WriteFile invoke sites in "+n, got[n], allowedWrite[n])
		}
	}

	// containing-function sets
	siteFns := map[*ssa.Function][]string{}
	for _, m := range muts {
		if w.fnPkg(m.Fn) == "cmd/par" {
			continue
		}
		siteFns[m.Fn] = append(siteFns[m.Fn], "calls "+m.Callee)
	}
	for _, s := range writeSites {
		siteFns[s.Fn] = append(siteFns[s.Fn], "invokes fileIO.WriteFile")
	}

	check := func(tag string, roots []string, allowed func(fn *ssa.Function) bool, floorReach int) {
		rf := w.fns(roots...)
		r.floor("EFF", tag+" entry points found", len(rf), floorReach)
		cl := w.moduleClosure(w.CG, rf, nil)
		r.stat("functions_reachable_"+tag, len(cl))
		var fns []*ssa.Function
		for f := range cl {
			fns = append(fns, f)
		}
		sort.Slice(fns, func(i, j int) bool { return fns[i].String() < fns[j].String() })
		bad := 0
		for _, f := range fns {
			why, has := siteFns[f]
			if !has {
				continue
			}
			if allowed(f) {
				continue
			}
			bad++
			r.bad("EFF", tag+":"+shortName(f), w.pos(f.Pos()), fmt.Sprintf("reachable from a %s entry point and %s", strings.TrimPrefix(tag, "E3:"), strings.Join(why, ", ")), w.pathTo(w.CG, rf, f)...)
		}
		if bad == 0 {
			r.ok("EFF", tag+":closure", "-", fmt.Sprintf("%d functions reachable from %d entry points; none contains a disallowed write site", len(cl), len(rf)))
		}
	}
	if o.e3 {
		check("E3:verify", verifyRootNames, func(f *ssa.Function) bool { return false }, 12)
	}
	if o.e4 {
		check("E4:create", createRootNames, func(f *ssa.Function) bool {
			n := w.writerOwner(f)
			return n == "(*par1.Encoder).Write" || n == "(*par2.Encoder).Write" || isDefaultFileIOWrite(f)
		}, 12)
		check("E4:repair", repairRootNames, func(f *ssa.Function) bool {
			n := w.writerOwner(f)
			return n == "(*par1.Decoder).Repair" || n == "(*par2.Decoder).Repair" || isDefaultFileIOWrite(f)
		}, 6)
	}
	if o.e5 {
		// third-party mutating calls are already part of muts (callee is a path string);
		n := 0
		for _, m := range muts {
			if strings.Contains(m.Callee, " -> ") {
				n++
			}
		}
		if n == 0 {
			r.ok("EFF", "E5:third-party", "-", "no third-party function reachable from the module reaches a mutating primitive")
		}
	}
}

// argFromField reports whether argument i of the call is a load of a struct
// field with the given name.
func argFromField(c ssa.CallInstruction, i int, field string) bool {
	args := c.Common().Args
	if i >= len(args) {
		return false
	}
	p := valuePath(args[i])
	return strings.HasSuffix(p.Path, "."+field)
}

// writeImplProblem checks the whole-file-replacement shape of a mutating call
// inside a defaultFileIO.WriteFile(path, data) implementation: WriteFile-style
// primitives must receive the method's own path and data parameters, and
// os.OpenFile must truncate (a file opened without O_TRUNC keeps the tail of a
// longer damaged copy, so the result is not the original).
func writeImplProblem(m mutSite) string {
	args := m.Call.Common().Args
	params := m.Fn.Params // recv, path, data
	switch m.Callee {
	case "io/ioutil.WriteFile", "os.WriteFile":
		if len(args) >= 2 && len(params) >= 3 {
			if stripConv(args[0]) != params[1] {
				return "the path given to " + m.Callee + " is not the method's path parameter"
			}
			if stripConv(args[1]) != params[2] {
				return "the data given to " + m.Callee + " is not the method's data parameter"
			}
		}
	case "io/ioutil.TempFile", "os.CreateTemp", "io/ioutil.TempDir", "os.MkdirTemp":
		// a temporary file must be made beside the target, not in the system's temp directory
		if len(args) >= 1 && len(params) >= 2 && !dependsOn(args[0], params[1]) {
			return m.Callee + " creates its file in a directory that is not derived from the method's path parameter (the system temp directory): Repair and Create then write outside the set's directory, and a failed rename leaves the data there"
		}
	case "os.Rename":
		if len(args) >= 2 && len(params) >= 2 && stripConv(args[1]) != params[1] {
			return "os.Rename inside WriteFile does not move the file onto the method's path parameter"
		}
	case "os.OpenFile":
		if len(args) >= 2 {
			fl, ok := constInt(args[1])
			if !ok {
				return "os.OpenFile with a non-constant flag inside WriteFile: cannot show that the file is truncated"
			}
			const oTRUNC, oAPPEND = 0x200, 0x400
			if fl&oTRUNC == 0 {
				return "os.OpenFile without O_TRUNC inside WriteFile: a longer existing file keeps its tail, so the written file is not the given data"
			}
			if fl&oAPPEND != 0 {
				return "os.OpenFile with O_APPEND inside WriteFile"
			}
		}
	}
	return ""
}

// writerOwner names the designated writer a function belongs to: the writer itself, one of
// its function literals, or a private helper its code was moved into (its region) - provided
// no other function of the module calls that helper. Otherwise the function's own name.
func (w *World) writerOwner(fn *ssa.Function) string {
	n := shortName(fn)
	for _, owner := range []string{"(*par1.Decoder).Repair", "(*par2.Decoder).Repair", "(*par1.Encoder).Write", "(*par2.Encoder).Write"} {
		if n == owner {
			return owner
		}
		of := w.Fn(owner)
		if of == nil || !inRegion(of, fn) {
			continue
		}
		// every static caller of fn must itself be in the owner's region
		only := true
		for _, g := range w.Funcs {
			for _, f := range withAnon(g) {
				for _, c := range callInstrs(f) {
					if c.Common().StaticCallee() == fn && !inRegion(of, f) {
						only = false
					}
				}
			}
		}
		if only {
			return owner
		}
	}
	return n
}
