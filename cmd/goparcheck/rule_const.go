package main

import (
	"fmt"
	"go/ast"
	"go/constant"
	"go/token"
	"go/types"
	"sort"
	"strings"

	"golang.org/x/tools/go/ssa"
)

// ---------------------------------------------------------------------------
// CONST: constants, layouts, byte order, hash composition against the
// specification tables transcribed here (PAR 1.0, PAR 2.0).

const ruleCONSTText = "specification constants: the tables below are transcribed from the PAR 1.0 / PAR 2.0 specifications and compared with what the code uses - field polynomial 0x1100B, log-domain modulus 65535 = table lengths, generator residues {3,5,17,257} and base 2, packet magic and the five packet types (by value), wire struct layouts (field order, types, sizes), PAR1 id/version/offsets/status bit, the 16 KiB prefix, little-endian only, IEEE CRC32 and MD5 only, hash input orders, set id = MD5 of the main packet body, a creator packet on every success path"

// --- helpers ---------------------------------------------------------------

func (w *World) fnsNamed(pkg string, pred func(fn *ssa.Function) bool) []*ssa.Function {
	var out []*ssa.Function
	for _, fn := range w.funcsInPkgs(pkg) {
		if pred(fn) {
			out = append(out, fn)
		}
	}
	return out
}

// globalInitBytes returns the constant byte values a package-level array
// variable is initialised with, read from its declaration.
func (w *World) globalInitBytes(g *ssa.Global) ([]byte, bool) {
	pkg := w.AllPkgs[g.Pkg.Pkg.Path()]
	if pkg == nil {
		return nil, false
	}
	arr, ok := g.Type().(*types.Pointer).Elem().Underlying().(*types.Array)
	if !ok {
		return nil, false
	}
	out := make([]byte, arr.Len())
	found := false
	for _, f := range pkg.Syntax {
		ast.Inspect(f, func(n ast.Node) bool {
			vs, ok := n.(*ast.ValueSpec)
			if !ok {
				return true
			}
			for i, name := range vs.Names {
				if pkg.TypesInfo.Defs[name] != g.Object() || i >= len(vs.Values) {
					continue
				}
				cl, ok := vs.Values[i].(*ast.CompositeLit)
				if !ok {
					return false
				}
				idx := 0
				for _, e := range cl.Elts {
					val := e
					if kv, ok := e.(*ast.KeyValueExpr); ok {
						if tv, ok := pkg.TypesInfo.Types[kv.Key]; ok && tv.Value != nil {
							if k, ok := constant.Int64Val(tv.Value); ok {
								idx = int(k)
							}
						}
						val = kv.Value
					}
					tv, ok := pkg.TypesInfo.Types[val]
					if !ok || tv.Value == nil {
						return false
					}
					v, ok := constant.Int64Val(constant.ToInt(tv.Value))
					if !ok || idx >= len(out) {
						return false
					}
					out[idx] = byte(v)
					idx++
				}
				found = true
			}
			return true
		})
	}
	return out, found
}

func pad(s string, n int) string {
	for len(s) < n {
		s += "\x00"
	}
	return s
}

var specPacketTypes = map[string]string{
	pad("PAR 2.0\x00Main", 16):     "Main",
	pad("PAR 2.0\x00FileDesc", 16): "FileDescription",
	pad("PAR 2.0\x00IFSC", 16):     "IFSC",
	pad("PAR 2.0\x00RecvSlic", 16): "Recovery",
	pad("PAR 2.0\x00Creator", 16):  "Creator",
}

type specField struct {
	name string
	typ  string
}

var specLayouts = map[string][]specField{
	"par2.packetHeader":                {{"Magic", "[8]byte"}, {"Length", "uint64"}, {"Hash", "[16]byte"}, {"RecoverySetID", "[16]byte"}, {"Type", "[16]byte"}},
	"par2.mainPacketHeader":            {{"SliceSize", "uint64"}, {"RecoverySetCount", "uint32"}},
	"par2.fileDescriptionPacketHeader": {{"FileID", "[16]byte"}, {"Hash", "[16]byte"}, {"SixteenKHash", "[16]byte"}, {"Length", "uint64"}},
	"par2.checksumPair":                {{"MD5", "[16]byte"}, {"CRC32", "[4]byte"}},
	"par1.header":                      {{"ID", "[8]byte"}, {"VersionNumber", "uint64"}, {"ControlHash", "[16]byte"}, {"SetHash", "[16]byte"}, {"VolumeNumber", "uint64"}, {"FileCount", "uint64"}, {"FileListOffset", "uint64"}, {"FileListBytes", "uint64"}, {"DataOffset", "uint64"}, {"DataBytes", "uint64"}},
	"par1.fileEntryHeader":             {{"EntryBytes", "uint64"}, {"Status", "uint64"}, {"FileBytes", "uint64"}, {"Hash", "[16]byte"}, {"SixteenKHash", "[16]byte"}},
	"par2.fileID":                      nil, // [16]byte
}

var specSizes = map[string]int64{
	"par2.packetHeader": 64, "par2.mainPacketHeader": 12, "par2.fileDescriptionPacketHeader": 56, "par2.checksumPair": 20,
	"par1.header": 96, "par1.fileEntryHeader": 56, "par2.fileID": 16,
}

func underlyingTypeString(t types.Type) string {
	switch u := t.Underlying().(type) {
	case *types.Basic:
		return u.Name()
	case *types.Array:
		return fmt.Sprintf("[%d]%s", u.Len(), underlyingTypeString(u.Elem()))
	}
	return types.TypeString(t.Underlying(), nil)
}

// wireTypes discovers the named types handed to binary.Read / binary.Write in
// par1 and par2 (through pointers, slices and interface boxing).
func (w *World) wireTypes() map[string]types.Type {
	out := map[string]types.Type{}
	for _, fn := range w.funcsInPkgs("par1", "par2") {
		for _, c := range callInstrs(fn) {
			f := c.Common().StaticCallee()
			if f == nil || (f.String() != "encoding/binary.Read" && f.String() != "encoding/binary.Write") {
				continue
			}
			if len(c.Common().Args) < 3 {
				continue
			}
			v := stripConv(c.Common().Args[2])
			t := v.Type()
			for {
				switch u := t.(type) {
				case *types.Pointer:
					t = u.Elem()
					continue
				case *types.Slice:
					t = u.Elem()
					continue
				}
				break
			}
			if n, ok := t.(*types.Named); ok {
				out[namedTypeName(n)] = n
			}
		}
	}
	return out
}

type constOpts struct {
	field, generators, par2, par1 bool
}

func ruleCONST(w *World, r *Report, o constOpts) {
	r.rule("CONST", ruleCONSTText)
	if o.field {
		constField(w, r)
	}
	if o.generators {
		constGenerators(w, r)
	}
	if o.par2 {
		constPacketTypes(w, r)
		constLayouts(w, r, "par2")
		constByteOrder(w, r, "par2")
		constHashOrders(w, r)
		constSetID(w, r)
		constSixteenK(w, r, "par2")
		constFreshVolumeMap(w, r)
	}
	if o.par1 {
		constLayouts(w, r, "par1")
		constByteOrder(w, r, "par1")
		constPar1(w, r)
		constSixteenK(w, r, "par1")
	}
}

// --- field ------------------------------------------------------------------

func constField(w *World, r *Report) {
	// reduction polynomial
	n := 0
	for _, fn := range w.funcsInPkgs("gf2p16") {
		for _, c := range callInstrs(fn) {
			if staticCalleeShort(c.Common()) != "(gf2.Poly64).Div" {
				continue
			}
			n++
			key := fmt.Sprintf("field:reduction-polynomial:%s", shortName(fn))
			if v, ok := constUint(c.Common().Args[1]); ok {
				if v == 0x1100B {
					r.ok("CONST", key, w.ipos(c), "table construction reduces modulo 0x1100B (x^16+x^12+x^3+x+1)")
				} else {
					r.bad("CONST", key, w.ipos(c), fmt.Sprintf("table construction reduces modulo %#x, the PAR2 field polynomial is 0x1100B", v))
				}
			} else {
				r.bad("CONST", key, w.ipos(c), "the reduction polynomial is not a constant")
			}
		}
	}
	r.floor("CONST", "Poly64.Div call sites in gf2p16 (table construction)", n, 1)
	// moduli in T's methods
	nrem := 0
	for _, fn := range w.funcsInPkgs("gf2p16") {
		if fn.Signature.Recv() == nil || namedTypeName(fn.Signature.Recv().Type()) != "gf2p16.T" {
			continue
		}
		k := 0
		for _, b := range fn.Blocks {
			for _, in := range b.Instrs {
				bo, ok := in.(*ssa.BinOp)
				if !ok || bo.Op != token.REM {
					continue
				}
				nrem++
				key := fmt.Sprintf("field:modulus:%s#%d", shortName(fn), k)
				k++
				if v, ok := constUint(bo.Y); ok && v == 65535 {
					r.ok("CONST", key, w.ipos(bo), "log-domain arithmetic modulo 65535")
				} else {
					r.bad("CONST", key, w.ipos(bo), "log-domain arithmetic uses modulus "+bo.Y.String()+", the group order is 65535")
				}
			}
		}
	}
	r.floor("CONST", "modulo operations in T's methods", nrem, 1)
}

func constGenerators(w *World, r *Report) {
	var initFn *ssa.Function
	for _, fn := range w.funcsInPkgs("rsec16") {
		if strings.HasPrefix(fn.Name(), "init") {
			for _, c := range callInstrs(fn) {
				if staticCalleeShort(c.Common()) == "(gf2p16.T).Pow" {
					initFn = fn
				}
			}
		}
	}
	if initFn == nil {
		r.unk("CONST", "generators:init", "-", "no initialiser in rsec16 computes powers (generator table construction not found)")
		return
	}
	mods := map[uint64]bool{}
	bound := uint64(0)
	for _, b := range initFn.Blocks {
		for _, in := range b.Instrs {
			switch x := in.(type) {
			case *ssa.BinOp:
				if x.Op == token.REM {
					if v, ok := constUint(x.Y); ok {
						// must be compared with 0
						zero := false
						for _, ref := range referrersOf(x) {
							if bo, ok := ref.(*ssa.BinOp); ok && bo.Op == token.EQL {
								if z, ok := constUint(bo.Y); ok && z == 0 {
									zero = true
								}
							}
						}
						if zero {
							mods[v] = true
						} else {
							mods[v+1000000] = true
						}
					}
				}
				if x.Op == token.LSS {
					if v, ok := constUint(x.Y); ok {
						bound = v
					}
				}
			case *ssa.Call:
				if staticCalleeShort(&x.Call) == "(gf2p16.T).Pow" {
					if v, ok := constUint(x.Call.Args[0]); ok && v == 2 {
						r.ok("CONST", "generators:base", w.ipos(x), "constants are powers of 2")
					} else {
						r.bad("CONST", "generators:base", w.ipos(x), "the PAR2 constants are powers of 2, the code uses base "+x.Call.Args[0].String())
					}
					// exponent must be the loop variable converted
				}
			}
		}
	}
	var ms []string
	for m := range mods {
		ms = append(ms, fmt.Sprint(m))
	}
	sort.Strings(ms)
	want := map[uint64]bool{3: true, 5: true, 17: true, 257: true}
	same := len(mods) == len(want)
	for m := range want {
		if !mods[m] {
			same = false
		}
	}
	if same {
		r.ok("CONST", "generators:residues", w.pos(initFn.Pos()), "exponents divisible by 3, 5, 17 or 257 are skipped (the prime factors of 65535)")
	} else {
		r.bad("CONST", "generators:residues", w.pos(initFn.Pos()), "exponents skipped when divisible by {"+strings.Join(ms, ",")+"}; the specification skips exactly the multiples of 3, 5, 17 and 257")
	}
	if bound == 65536 || bound == 65535 {
		r.ok("CONST", "generators:bound", w.pos(initFn.Pos()), fmt.Sprintf("exponent loop bound %d", bound))
	} else {
		r.bad("CONST", "generators:bound", w.pos(initFn.Pos()), fmt.Sprintf("exponent loop bound is %d, not 65536", bound))
	}
}

// --- packet types -------------------------------------------------------------

func constPacketTypes(w *World, r *Report) {
	got := map[string]*ssa.Global{}
	var magic *ssa.Global
	for _, g := range w.moduleGlobals() {
		if pkgShort(g.Pkg.Pkg.Path()) != "par2" {
			continue
		}
		arr, ok := g.Type().(*types.Pointer).Elem().Underlying().(*types.Array)
		if !ok {
			continue
		}
		bs, ok := w.globalInitBytes(g)
		if !ok {
			r.unk("CONST", "par2:global:"+g.Name(), w.pos(g.Pos()), "cannot read the initial value of this array variable")
			continue
		}
		switch arr.Len() {
		case 8:
			magic = g
			if string(bs) == "PAR2\x00PKT" {
				r.ok("CONST", "par2:magic", w.pos(g.Pos()), "packet magic is \"PAR2\\0PKT\"")
			} else {
				r.bad("CONST", "par2:magic", w.pos(g.Pos()), fmt.Sprintf("packet magic is %q, the specification says \"PAR2\\0PKT\"", string(bs)))
			}
		case 16:
			if role, ok := specPacketTypes[string(bs)]; ok {
				got[role] = g
				r.ok("CONST", "par2:packet-type:"+role, w.pos(g.Pos()), fmt.Sprintf("%s = %q", g.Name(), string(bs)))
			} else {
				r.bad("CONST", "par2:packet-type:"+g.Name(), w.pos(g.Pos()), fmt.Sprintf("%s = %q is none of the five PAR 2.0 packet types used", g.Name(), string(bs)))
			}
		}
	}
	if magic == nil {
		r.unk("CONST", "par2:magic", "-", "no [8]byte package variable found")
	}
	r.floor("CONST", "PAR2 packet type constants", len(got), 5)
	// wiring: the type constant used with each reader / writer
	roleOfFn := func(name string) string {
		for _, role := range []string{"FileDescription", "IFSC", "Recovery", "Creator", "Main"} {
			if strings.Contains(name, role) {
				return role
			}
		}
		return ""
	}
	globalRole := map[*ssa.Global]string{}
	for role, g := range got {
		globalRole[g] = role
	}
	// reader: in readFile, calls readXPacket dominated by packetType == G
	if rf := w.Fn("par2.readFile"); rf != nil {
		n := 0
		for _, c := range callInstrs(rf) {
			name := staticCalleeShort(c.Common())
			if !strings.HasPrefix(name, "par2.read") || !strings.HasSuffix(name, "Packet") {
				continue
			}
			role := roleOfFn(name)
			if role == "" {
				continue
			}
			n++
			ok := false
			seen := ""
			for _, cm := range cmpsAt(c.Block()) {
				if cm.Op != token.EQL || cm.Y == nil {
					continue
				}
				for _, v := range []ssa.Value{cm.X, cm.Y} {
					if ld, isLd := v.(*ssa.UnOp); isLd && ld.Op == token.MUL {
						if g, isG := ld.X.(*ssa.Global); isG {
							if globalRole[g] == role {
								ok = true
							} else if globalRole[g] != "" {
								seen = globalRole[g]
							}
						}
					}
				}
			}
			key := "par2:reader-dispatch:" + role
			if ok {
				r.ok("CONST", key, w.ipos(c), name+" is called for packets of type "+role)
			} else {
				r.bad("CONST", key, w.ipos(c), fmt.Sprintf("%s is called under packet type %q, not %s", name, seen, role))
			}
		}
		r.floor("CONST", "reader dispatch cases in par2.readFile", n, 5)
	}
	// writer: in writeFile, writeNextPacket(buf, setID, G, body) with body derived from writeXPacket
	if wf := w.Fn("par2.writeFile"); wf != nil {
		n := 0
		ems := packetEmissions(w, wf)
		for _, em := range ems {
			c := em.c
			ld, ok := em.typ.(*ssa.UnOp)
			if !ok {
				continue // unknown packets are written back with their own type
			}
			g, ok := ld.X.(*ssa.Global)
			if !ok {
				continue
			}
			role := globalRole[g]
			n++
			bodyRole := ""
			backSlice(em.body, func(v ssa.Value) bool {
				if cl, ok := v.(*ssa.Call); ok {
					nm := staticCalleeShort(&cl.Call)
					if strings.HasPrefix(nm, "par2.write") && strings.HasSuffix(nm, "Packet") && nm != "par2.writeNextPacket" {
						bodyRole = roleOfFn(nm)
						return false
					}
				}
				return true
			})
			key := "par2:writer-dispatch:" + role
			if bodyRole == role && role != "" {
				r.ok("CONST", key, w.ipos(c), "a "+role+" body is written under the "+role+" packet type")
			} else {
				r.bad("CONST", key, w.ipos(c), fmt.Sprintf("a body produced by the %s writer is emitted under packet type %s", bodyRole, role))
			}
		}
		r.floor("CONST", "typed writeNextPacket calls in par2.writeFile", n, 5)
		// creator packet on every success path
		nret := 0
		for _, b := range wf.Blocks {
			if len(b.Instrs) == 0 {
				continue
			}
			ret, ok := b.Instrs[len(b.Instrs)-1].(*ssa.Return)
			if !ok || len(ret.Results) == 0 || !isNilConst(ret.Results[len(ret.Results)-1]) {
				continue
			}
			nret++
			found := false
			for _, em := range ems {
				if ld, ok := em.typ.(*ssa.UnOp); ok {
					if g, ok := ld.X.(*ssa.Global); ok && globalRole[g] == "Creator" && instrDominates(em.c, ret) {
						found = true
					}
				}
			}
			if found {
				r.ok("CONST", fmt.Sprintf("par2:creator-packet-on-success#%d", nret-1), w.ipos(ret), "success return dominated by the write of a creator packet")
			} else {
				r.bad("CONST", fmt.Sprintf("par2:creator-packet-on-success#%d", nret-1), w.ipos(ret), "a file can be written without a creator packet, which the specification requires in every file")
			}
		}
		r.floor("CONST", "success returns of par2.writeFile", nret, 1)
	}
	// the magic must be what checkPacketHeader compares and writeNextPacket stores
	if magic != nil {
		uses := 0
		for _, fn := range w.funcsInPkgs("par2") {
			for _, b := range fn.Blocks {
				for _, in := range b.Instrs {
					for _, op := range in.Operands(nil) {
						if *op == ssa.Value(magic) {
							uses++
						}
					}
				}
			}
		}
		r.floor("CONST", "uses of the packet magic (header check and header write)", uses, 2)
	}
}

// --- layouts ------------------------------------------------------------------

func constLayouts(w *World, r *Report, pkg string) {
	wt := w.wireTypes()
	n := 0
	var names []string
	for k := range wt {
		names = append(names, k)
	}
	sort.Strings(names)
	for _, name := range names {
		if !strings.HasPrefix(name, pkg+".") {
			continue
		}
		t := wt[name]
		key := "layout:" + name
		spec, known := specLayouts[name]
		if !known {
			r.unk("CONST", key, "-", "type "+name+" is serialised with encoding/binary but the checker has no specification table for it")
			continue
		}
		n++
		size := w.sizes.Sizeof(t)
		if st, ok := t.Underlying().(*types.Struct); ok {
			var diffs []string
			if st.NumFields() != len(spec) {
				diffs = append(diffs, fmt.Sprintf("%d fields, specification has %d", st.NumFields(), len(spec)))
			}
			bsize := int64(0)
			for i := 0; i < st.NumFields(); i++ {
				f := st.Field(i)
				ts := underlyingTypeString(f.Type())
				bsize += w.sizes.Sizeof(f.Type())
				if i < len(spec) {
					if !strings.EqualFold(f.Name(), spec[i].name) || ts != spec[i].typ {
						diffs = append(diffs, fmt.Sprintf("field %d is %s %s, specification: %s %s", i, f.Name(), ts, spec[i].name, spec[i].typ))
					}
				}
			}
			size = bsize // binary.Size ignores padding
			if len(diffs) > 0 {
				r.bad("CONST", key, "-", "wire layout differs from the specification: "+strings.Join(diffs, "; "))
				continue
			}
		}
		if size != specSizes[name] {
			r.bad("CONST", key, "-", fmt.Sprintf("encoded size is %d bytes, the specification says %d", size, specSizes[name]))
			continue
		}
		r.ok("CONST", key, "-", fmt.Sprintf("field sequence, types and encoded size (%d bytes) match the specification", size))
	}
	floors := map[string]int{"par2": 5, "par1": 2}
	r.floor("CONST", "wire types of "+pkg+" passed to encoding/binary", n, floors[pkg])
}

func constByteOrder(w *World, r *Report, pkg string) {
	le, be := 0, 0
	var bePos string
	otherHash := ""
	crcOK := 0
	for _, fn := range w.funcsInPkgs(pkg) {
		for _, b := range fn.Blocks {
			for _, in := range b.Instrs {
				for _, op := range in.Operands(nil) {
					if g, ok := (*op).(*ssa.Global); ok && g.Pkg != nil && g.Pkg.Pkg.Path() == "encoding/binary" {
						switch g.Name() {
						case "LittleEndian":
							le++
						case "BigEndian", "NativeEndian":
							be++
							bePos = w.ipos(in)
						}
					}
				}
				if c, ok := in.(ssa.CallInstruction); ok {
					if f := c.Common().StaticCallee(); f != nil {
						pp := funcPkgPath(f)
						switch {
						case pp == "hash/crc32":
							if f.Name() == "ChecksumIEEE" {
								crcOK++
							} else if f.Name() != "init" {
								otherHash = f.String() + " at " + w.ipos(in)
							}
						case strings.HasPrefix(pp, "crypto/") && pp != "crypto/md5":
							otherHash = f.String() + " at " + w.ipos(in)
						case strings.HasPrefix(pp, "hash/") && pp != "hash/crc32":
							otherHash = f.String() + " at " + w.ipos(in)
						}
					}
				}
			}
		}
	}
	if be > 0 {
		r.bad("CONST", pkg+":byte-order", bePos, "a byte order other than little-endian is used; both formats are little-endian throughout")
	} else {
		r.ok("CONST", pkg+":byte-order", "-", fmt.Sprintf("%d uses of binary.LittleEndian, none of another byte order", le))
	}
	r.floor("CONST", "uses of binary.LittleEndian in "+pkg, le, 4)
	if otherHash != "" {
		r.bad("CONST", pkg+":hash-functions", "-", "a hash other than MD5 / IEEE CRC32 is used: "+otherHash)
	} else {
		r.ok("CONST", pkg+":hash-functions", "-", "only crypto/md5 and crc32.ChecksumIEEE (and the IEEE table) are used")
	}
}

// appendChainParams returns, for the value hashed, the parameter indices whose
// bytes are appended, in order.
// appendChainSource: the parameter of fn that value y is (a slice of, or a fixed-width encoding of).
func appendChainSource(fn *ssa.Function, y ssa.Value) (int, bool) {
	var got = -1
	probe := []ssa.Value{y}
	_ = probe
	order, ok := appendChainParamsOf(fn, nil, y)
	if ok && len(order) == 1 {
		got = order[0]
	}
	return got, got >= 0
}

func appendChainParams(fn *ssa.Function, v ssa.Value) ([]int, bool) {
	return appendChainParamsOf(fn, v, nil)
}

// appendChainParamsOf reads the append chain v; with v == nil it only resolves the single value one.
func appendChainParamsOf(fn *ssa.Function, v ssa.Value, one ssa.Value) ([]int, bool) {
	paramIdx := func(p ssa.Value) int {
		for i, q := range fn.Params {
			if ssa.Value(q) == p {
				return i
			}
		}
		return -1
	}
	var src func(y ssa.Value) int
	src = func(y ssa.Value) int {
		y = stripConv(y)
		if i := paramIdx(y); i >= 0 {
			return i
		}
		if sl, ok := y.(*ssa.Slice); ok {
			if al, ok := sl.X.(*ssa.Alloc); ok {
				// whole store of a param, or PutUintNN(slice(alloc), param)
				for _, ref := range referrersOf(al) {
					if st, ok := ref.(*ssa.Store); ok && st.Addr == ssa.Value(al) {
						if i := paramIdx(stripConv(st.Val)); i >= 0 {
							return i
						}
					}
					if s2, ok := ref.(*ssa.Slice); ok {
						for _, r2 := range referrersOf(s2) {
							if c, ok := r2.(*ssa.Call); ok && strings.Contains(calleeName(&c.Call), "PutUint") {
								for _, a := range c.Call.Args {
									if i := paramIdx(stripConv(a)); i >= 0 {
										return i
									}
								}
							}
						}
					}
				}
			}
			return src(sl.X)
		}
		return -1
	}
	var order []int
	var walk func(x ssa.Value) bool
	walk = func(x ssa.Value) bool {
		if isNilConst(x) {
			return true
		}
		// an empty buffer with preallocated capacity: make([]byte, 0, n)
		if mk, ok := x.(*ssa.MakeSlice); ok {
			if l, isC := constInt(mk.Len); isC && l == 0 {
				return true
			}
		}
		c := isBuiltinCall(x, "append")
		if c == nil {
			return false
		}
		if !walk(c.Call.Args[0]) {
			return false
		}
		i := src(c.Call.Args[1])
		if i < 0 {
			return false
		}
		order = append(order, i)
		return true
	}
	if v == nil {
		i := src(one)
		if i < 0 {
			return nil, false
		}
		return []int{i}, true
	}
	ok := walk(v)
	return order, ok
}

func constHashOrders(w *World, r *Report) {
	for _, spec := range []struct {
		fn   string
		want []int
		text string
	}{
		{"par2.computePacketHash", []int{0, 1, 2}, "MD5(recovery set id . packet type . body)"},
		{"par2.computeFileID", []int{0, 1, 2}, "MD5(16k hash . length (8 bytes LE) . name)"},
	} {
		fn := w.Fn(spec.fn)
		key := "hash-input-order:" + spec.fn
		if fn == nil {
			r.unk("CONST", key, "-", "function not found")
			continue
		}
		var sum *ssa.Call
		for _, c := range callInstrs(fn) {
			if f := c.Common().StaticCallee(); f != nil && f.String() == "crypto/md5.Sum" {
				sum, _ = c.(*ssa.Call)
			}
		}
		if sum == nil {
			// the streaming form: h := md5.New(); h.Write(a); h.Write(b); ...; h.Sum(...)
			if order, at, ok := streamedHashParams(fn); ok {
				same := len(order) == len(spec.want)
				for i := range spec.want {
					if i >= len(order) || order[i] != spec.want[i] {
						same = false
					}
				}
				if same {
					r.ok("CONST", key, at, "hash input is "+spec.text+" (parameters written to md5.New() in declaration order)")
				} else {
					r.bad("CONST", key, at, fmt.Sprintf("hash input writes parameters in order %v, the specification order is %s", order, spec.text))
				}
				continue
			}
			r.bad("CONST", key, w.pos(fn.Pos()), "no call of md5.Sum")
			continue
		}
		order, ok := appendChainParams(fn, sum.Call.Args[0])
		if !ok {
			r.unk("CONST", key, w.ipos(sum), "cannot read the append chain feeding md5.Sum")
			continue
		}
		same := len(order) == len(spec.want)
		for i := range spec.want {
			if i >= len(order) || order[i] != spec.want[i] {
				same = false
			}
		}
		if same {
			r.ok("CONST", key, w.ipos(sum), "hash input is "+spec.text+" (parameters appended in declaration order)")
		} else {
			r.bad("CONST", key, w.ipos(sum), fmt.Sprintf("hash input appends parameters in order %v, the specification order is %s", order, spec.text))
		}
	}
	// the callers must pass (SixteenKHash, Length, name) in that order from the wire header
	if fn := w.Fn("par2.readFileDescriptionPacket"); fn != nil {
		for _, c := range callInstrs(fn) {
			if staticCalleeShort(c.Common()) != "par2.computeFileID" {
				continue
			}
			a0 := lastField(deepPath(c.Common().Args[0]))
			a1 := lastField(deepPath(c.Common().Args[1]))
			if a0 == "sixteenkhash" && a1 == "length" {
				r.ok("CONST", "file-id-args:reader", w.ipos(c), "computeFileID(h.SixteenKHash, h.Length, name)")
			} else {
				r.bad("CONST", "file-id-args:reader", w.ipos(c), fmt.Sprintf("the file ID is computed from header fields (%s, %s), the specification uses the 16k hash and the length", a0, a1))
			}
		}
	}
}

func constSetID(w *World, r *Report) {
	wf := w.Fn("par2.writeFile")
	if wf == nil {
		r.unk("CONST", "set-id", "-", "par2.writeFile not found")
		return
	}
	// setID := md5.Sum(X); writeNextPacket(buf, setID', mainType, X)
	var sums []*ssa.Call
	for _, c := range callInstrs(wf) {
		if f := c.Common().StaticCallee(); f != nil && f.String() == "crypto/md5.Sum" {
			if cl, ok := c.(*ssa.Call); ok {
				sums = append(sums, cl)
			}
		}
	}
	ok := false
	for _, c := range callInstrs(wf) {
		if staticCalleeShort(c.Common()) != "par2.writeNextPacket" || len(c.Common().Args) != 4 {
			continue
		}
		ld, isLd := c.Common().Args[2].(*ssa.UnOp)
		if !isLd {
			continue
		}
		g, isG := ld.X.(*ssa.Global)
		if !isG {
			continue
		}
		bs, _ := w.globalInitBytes(g)
		if specPacketTypes[string(bs)] != "Main" {
			continue
		}
		for _, s := range sums {
			if stripConv(s.Call.Args[0]) == stripConv(c.Common().Args[3]) && dependsOn(c.Common().Args[1], s) {
				ok = true
			}
		}
	}
	if ok {
		r.ok("CONST", "set-id", w.pos(wf.Pos()), "recovery set id = MD5 of exactly the bytes written as the main packet body")
	} else {
		r.bad("CONST", "set-id", w.pos(wf.Pos()), "the recovery set id is not the MD5 of the main packet body that is written")
	}
}

func constSixteenK(w *World, r *Report, pkg string) {
	fn := w.Fn(pkg + ".sixteenKHash")
	key := pkg + ":sixteenKHash"
	if fn == nil {
		r.unk("CONST", key, "-", "function not found")
		return
	}
	var consts []int64
	for _, b := range fn.Blocks {
		for _, in := range b.Instrs {
			switch x := in.(type) {
			case *ssa.BinOp:
				if v, ok := constInt(x.Y); ok {
					consts = append(consts, v)
				}
			case *ssa.Slice:
				if x.High != nil {
					if v, ok := constInt(x.High); ok {
						consts = append(consts, v)
					}
				}
				if x.Low != nil {
					if v, ok := constInt(x.Low); ok && v != 0 {
						consts = append(consts, -v)
					}
				}
			}
		}
	}
	good := len(consts) >= 2
	for _, c := range consts {
		if c != 16384 {
			good = false
		}
	}
	if good {
		r.ok("CONST", key, w.pos(fn.Pos()), "hashes the first 16384 bytes (or the whole file if shorter)")
	} else {
		r.bad("CONST", key, w.pos(fn.Pos()), fmt.Sprintf("prefix-hash constants are %v, the specification hashes the first 16384 bytes", consts))
	}
}

// --- PAR1 -----------------------------------------------------------------------

func constPar1(w *World, r *Report) {
	// ID
	for _, g := range w.moduleGlobals() {
		if pkgShort(g.Pkg.Pkg.Path()) != "par1" {
			continue
		}
		if arr, ok := g.Type().(*types.Pointer).Elem().Underlying().(*types.Array); ok && arr.Len() == 8 {
			bs, ok := w.globalInitBytes(g)
			if ok && string(bs) == "PAR\x00\x00\x00\x00\x00" {
				r.ok("CONST", "par1:id", w.pos(g.Pos()), "identification string \"PAR\\0\\0\\0\\0\\0\"")
			} else {
				r.bad("CONST", "par1:id", w.pos(g.Pos()), fmt.Sprintf("identification string is %q", string(bs)))
			}
		}
	}
	// readHeader: version (low 32 bits) == 0x00010000, file list offset == 0x60
	if fn := w.Fn("par1.readHeader"); fn != nil {
		verOK, offOK := "", ""
		var hdrBlocks []*ssa.BasicBlock
		for _, rf := range region(fn) {
			hdrBlocks = append(hdrBlocks, rf.Blocks...)
		}
		for _, b := range hdrBlocks {
			for _, in := range b.Instrs {
				bo, ok := in.(*ssa.BinOp)
				if !ok || (bo.Op != token.NEQ && bo.Op != token.EQL) {
					continue
				}
				for _, pr := range [][2]ssa.Value{{bo.X, bo.Y}, {bo.Y, bo.X}} {
					c, ok := constUint(pr[1])
					if !ok {
						continue
					}
					// what is compared?
					src := pr[0]
					desc := deepPath(src)
					if strings.HasSuffix(desc.Path, ".FileListOffset") {
						if c == 0x60 {
							offOK = "ok"
						} else {
							offOK = fmt.Sprintf("compared with %#x", c)
						}
					}
					// version: value derived from VersionNumber
					fromVer := false
					width := 64
					backSlice(src, func(v ssa.Value) bool {
						if ld, ok := v.(*ssa.UnOp); ok && ld.Op == token.MUL {
							if strings.HasSuffix(addrPath(ld.X).Path, ".VersionNumber") {
								fromVer = true
							}
						}
						return true
					})
					if fromVer {
						if b, ok := src.Type().Underlying().(*types.Basic); ok && (b.Kind() == types.Uint32 || b.Kind() == types.Int32) {
							width = 32
						}
						switch {
						case c != 0x00010000:
							verOK = fmt.Sprintf("version compared with %#x, PAR 1.0 is 0x00010000", c)
						case width != 32:
							verOK = "the whole 64-bit version field is compared: its high 32 bits carry the generating program's id, which a conformant reader must ignore"
						default:
							verOK = "ok"
						}
					}
				}
			}
		}
		report := func(key, st, okText string) {
			switch st {
			case "ok":
				r.ok("CONST", key, w.pos(fn.Pos()), okText)
			case "":
				r.bad("CONST", key, w.pos(fn.Pos()), "the reader does not check this field")
			default:
				r.bad("CONST", key, w.pos(fn.Pos()), st)
			}
		}
		report("par1:version", verOK, "low 32 bits of the version field compared with 0x00010000")
		report("par1:file-list-offset", offOK, "file list offset compared with 0x60")
	} else {
		r.unk("CONST", "par1:readHeader", "-", "par1.readHeader not found")
	}
	// control hash covers bytes from 0x20: reader and writer
	for _, name := range []string{"par1.readVolume", "par1.writeVolume"} {
		fn := w.Fn(name)
		key := "par1:control-hash-range:" + name
		if fn == nil {
			r.unk("CONST", key, "-", "function not found")
			continue
		}
		found := ""
		var hashCalls []ssa.CallInstruction
		for _, rf := range region(fn) {
			hashCalls = append(hashCalls, callInstrs(rf)...)
		}
		for _, c := range hashCalls {
			isSum := false
			if f := c.Common().StaticCallee(); f != nil && f.String() == "crypto/md5.Sum" {
				isSum = true
			}
			// the streaming form: a Write on a hash made by md5.New()
			if c.Common().IsInvoke() && c.Common().Method.Name() == "Write" {
				if nc, ok := c.Common().Value.(*ssa.Call); ok {
					if f := nc.Call.StaticCallee(); f != nil && f.String() == "crypto/md5.New" {
						isSum = true
					}
				}
			}
			if !isSum || len(c.Common().Args) == 0 {
				continue
			}
			backSlice(c.Common().Args[0], func(v ssa.Value) bool {
				if sl, ok := v.(*ssa.Slice); ok && sl.Low != nil {
					if lo, ok := constInt(sl.Low); ok {
						if lo == 0x20 {
							found = "ok"
						} else if found == "" {
							found = fmt.Sprintf("hash input starts at offset %#x", lo)
						}
					}
				}
				return true
			})
		}
		switch found {
		case "ok":
			r.ok("CONST", key, w.pos(fn.Pos()), "control hash = MD5 of the volume from offset 0x20")
		case "":
			r.bad("CONST", key, w.pos(fn.Pos()), "no MD5 over the volume bytes from offset 0x20")
		default:
			r.bad("CONST", key, w.pos(fn.Pos()), found+", the specification says 0x20")
		}
	}
	// writer stores file list offset 0x60
	if fn := w.Fn("par1.writeVolume"); fn != nil {
		ok := false
		for _, b := range fn.Blocks {
			for _, in := range b.Instrs {
				if st, isSt := in.(*ssa.Store); isSt && strings.HasSuffix(addrPath(st.Addr).Path, ".FileListOffset") {
					if c, isC := constUint(st.Val); isC && c == 0x60 {
						ok = true
					}
				}
			}
		}
		if ok {
			r.ok("CONST", "par1:writer-file-list-offset", w.pos(fn.Pos()), "writer stores file list offset 0x60")
		} else {
			r.bad("CONST", "par1:writer-file-list-offset", w.pos(fn.Pos()), "writer does not store file list offset 0x60")
		}
	}
	// status bit 0
	if fn := w.Fn("(par1.fileEntryStatus).savedInVolumeSet"); fn != nil {
		ok := false
		for _, b := range fn.Blocks {
			for _, in := range b.Instrs {
				if bo, isB := in.(*ssa.BinOp); isB && bo.Op == token.AND {
					if c, isC := constUint(bo.Y); isC && c == 1 {
						ok = true
					}
				}
			}
		}
		if ok {
			r.ok("CONST", "par1:status-bit", w.pos(fn.Pos()), "'saved in volume set' is bit 0 of the status field")
		} else {
			r.bad("CONST", "par1:status-bit", w.pos(fn.Pos()), "'saved in volume set' does not test bit 0 of the status field")
		}
	} else {
		r.unk("CONST", "par1:status-bit", "-", "savedInVolumeSet not found")
	}
	// set hash = MD5 over the full-file hashes of the saved entries: the writer appends the very value it stores
	// in the entry's Hash field, the reader appends entry.header.Hash
	if fn := w.Fn("(*par1.Encoder).Write"); fn != nil {
		var stored ssa.Value
		for _, b := range fn.Blocks {
			for _, in := range b.Instrs {
				if st, ok := in.(*ssa.Store); ok {
					if fa, ok := st.Addr.(*ssa.FieldAddr); ok && fieldName(fa.X.Type(), fa.Field) == "Hash" && namedTypeName(fa.X.Type()) == "par1.fileEntryHeader" {
						stored = st.Val
					}
				}
			}
		}
		okW := false
		for _, c := range callInstrs(fn) {
			if f := c.Common().StaticCallee(); f == nil || f.String() != "crypto/md5.Sum" {
				continue
			}
			// the md5.Sum whose result goes into SetHash: its input is built by appends of slices of `stored`
			isSet := false
			if cv := c.Value(); cv != nil {
				for _, ref := range referrersOf(cv) {
					if st, ok := ref.(*ssa.Store); ok && strings.HasSuffix(addrPath(st.Addr).Path, ".SetHash") {
						isSet = true
					}
				}
			}
			if !isSet || stored == nil {
				continue
			}
			apps, _ := appendWeb(c.Common().Args[0])
			for _, ap := range apps {
				// second pass over the entries just built: the bytes come from entry.header.Hash itself
				if strings.HasSuffix(deepPathSliceBase(ap.Call.Args[1]), ".header.Hash") {
					okW = true
				}
				if sl, ok := ap.Call.Args[1].(*ssa.Slice); ok {
					if al, ok := sl.X.(*ssa.Alloc); ok {
						// the appended bytes are the cell the stored Hash value was loaded from (or holds the same value)
						if ld, ok := stored.(*ssa.UnOp); ok && ld.X == ssa.Value(al) {
							okW = true
						}
						for _, ref := range referrersOf(al) {
							if st, ok := ref.(*ssa.Store); ok && st.Addr == ssa.Value(al) && st.Val == stored {
								okW = true
							}
						}
					}
				}
			}
		}
		if okW {
			r.ok("CONST", "par1:set-hash-input:writer", w.pos(fn.Pos()), "set hash input = the full-file MD5 values stored in the entries' Hash fields")
		} else {
			r.bad("CONST", "par1:set-hash-input:writer", w.pos(fn.Pos()), "the writer's set hash is not computed over the values it stores in the entries' Hash (full-file MD5) fields")
		}
	}
	if fn := w.Fn("par1.readVolume"); fn != nil {
		okR := false
		var rcalls []ssa.CallInstruction
		for _, f := range region(fn) {
			rcalls = append(rcalls, callInstrs(f)...)
		}
		for _, c := range rcalls {
			if bc := isBuiltinCall(valueOfCall(c), "append"); bc != nil {
				if strings.HasSuffix(deepPathSliceBase(bc.Call.Args[1]), ".header.Hash") {
					okR = true
				}
			}
		}
		if okR {
			r.ok("CONST", "par1:set-hash-input:reader", w.pos(fn.Pos()), "reader recomputes the set hash over entry.header.Hash of saved entries")
		} else {
			r.bad("CONST", "par1:set-hash-input:reader", w.pos(fn.Pos()), "reader does not recompute the set hash over entry.header.Hash")
		}
	}
	// the writer version
	if fn := w.Fn("(*par1.Encoder).Write"); fn != nil {
		ok := false
		for _, c := range callInstrs(fn) {
			if staticCalleeShort(c.Common()) == "par1.makeVersionNumber" {
				if v, isC := constUint(c.Common().Args[0]); isC && v == 0x00010000 {
					ok = true
				}
			}
		}
		if ok {
			r.ok("CONST", "par1:writer-version", w.pos(fn.Pos()), "writer emits version 0x00010000")
		} else {
			r.bad("CONST", "par1:writer-version", w.pos(fn.Pos()), "writer does not emit version 0x00010000")
		}
	}
}

// constPacketLenBound: a packet's length must be at least the header size - exactly: an empty body is legal.
func constPacketLenBound(w *World, r *Report) {
	r.rule("CONST", ruleCONSTText)
	fn := w.Fn("par2.checkPacketHeader")
	if fn == nil {
		r.unk("CONST", "par2:packet-length-bound", "-", "par2.checkPacketHeader not found")
		return
	}
	found := ""
	for _, b := range fn.Blocks {
		for _, in := range b.Instrs {
			bo, ok := in.(*ssa.BinOp)
			if !ok {
				continue
			}
			isLen := func(v ssa.Value) bool { return lastField(deepPath(v)) == "length" }
			isHdr := func(v ssa.Value) bool {
				if callOf(v, "par2.sizeOfPacketHeader") != nil {
					return true
				}
				c, ok := constUint(v)
				return ok && c == 64
			}
			switch {
			case bo.Op == token.LSS && isLen(bo.X) && isHdr(bo.Y), bo.Op == token.GTR && isHdr(bo.X) && isLen(bo.Y):
				found = "ok"
			case (bo.Op == token.LEQ && isLen(bo.X) && isHdr(bo.Y)) || (bo.Op == token.GEQ && isHdr(bo.X) && isLen(bo.Y)):
				found = "a packet whose length equals the header size (empty body) is rejected; the specification only requires length >= 64 and a multiple of 4"
			}
		}
	}
	switch found {
	case "ok":
		r.ok("CONST", "par2:packet-length-bound", w.pos(fn.Pos()), "packets shorter than the 64-byte header are rejected, a header-only packet is accepted")
	case "":
		r.bad("CONST", "par2:packet-length-bound", w.pos(fn.Pos()), "the packet length is not compared with the header size")
	default:
		r.bad("CONST", "par2:packet-length-bound", w.pos(fn.Pos()), found)
	}
}

func valueOfCall(c ssa.CallInstruction) ssa.Value {
	if v := c.Value(); v != nil {
		return v
	}
	return nil
}

// deepPathSliceBase: access path of the array/slice a Slice expression is taken of.
func deepPathSliceBase(v ssa.Value) string {
	if sl, ok := v.(*ssa.Slice); ok {
		return addrPathDeep(sl.X)
	}
	return deepPath(v).Path
}

func addrPathDeep(v ssa.Value) string {
	p := addrPath(v)
	return p.Path
}

// constFreshVolumeMap: each recovery volume starts from an empty recovery-packet map.
func constFreshVolumeMap(w *World, r *Report) {
	fn := w.Fn("(*par2.Encoder).Write")
	if fn == nil {
		r.unk("CONST", "par2:fresh-volume-map", "-", "(*par2.Encoder).Write not found")
		return
	}
	// the store into field recoveryPackets; its value must be a MakeMap created inside the volume loop
	n := 0
	for _, b := range fn.Blocks {
		for _, in := range b.Instrs {
			st, ok := in.(*ssa.Store)
			if !ok {
				continue
			}
			fa, ok := st.Addr.(*ssa.FieldAddr)
			if !ok || fieldName(fa.X.Type(), fa.Field) != "recoveryPackets" {
				continue
			}
			n++
			var mk ssa.Instruction
			if m, ok := st.Val.(*ssa.MakeMap); ok {
				mk = m
			} else if c, ok := st.Val.(*ssa.Call); ok {
				// a private helper every return of which hands out a map it has just made
				if g := c.Call.StaticCallee(); g != nil && inRegion(fn, g) && len(g.Blocks) > 0 {
					fresh, nret := true, 0
					for _, gb := range g.Blocks {
						if ret, ok := gb.Instrs[len(gb.Instrs)-1].(*ssa.Return); ok && len(ret.Results) == 1 {
							nret++
							if _, isMake := ret.Results[0].(*ssa.MakeMap); !isMake {
								fresh = false
							}
						}
					}
					if fresh && nret > 0 {
						mk = c
					}
				}
			}
			isMk := mk != nil
			// loop: a header that dominates the store and is reachable from it
			inLoop := false
			if isMk {
				for _, s := range reachableList(mk.Block()) {
					if s == mk.Block() {
						inLoop = true
					}
				}
			}
			if isMk && inLoop {
				r.ok("CONST", "par2:fresh-volume-map", w.ipos(st), "every volume file starts from a fresh recovery-packet map created inside the volume loop")
			} else {
				r.bad("CONST", "par2:fresh-volume-map", w.ipos(st), "the recovery-packet map of a volume file is not created afresh inside the volume loop: later volumes repeat the blocks of earlier ones, so the set no longer holds each block exactly once")
			}
		}
	}
	if n == 0 {
		r.bad("CONST", "par2:fresh-volume-map", w.pos(fn.Pos()), "no assignment of a recovery-packet map per volume found")
	}
}

// A packetEmission is a place in writeFile where a packet goes out: a call of writeNextPacket, or of a
// private wrapper that passes its own type and body parameters on to writeNextPacket on every path.
type packetEmission struct {
	c         ssa.CallInstruction
	typ, body ssa.Value
}

func packetEmissions(w *World, wf *ssa.Function) []packetEmission {
	var out []packetEmission
	paramIdx := func(g *ssa.Function, v ssa.Value) int {
		var found = -1
		backSlice(v, func(x ssa.Value) bool {
			if p, ok := x.(*ssa.Parameter); ok && p.Parent() == g {
				for i, q := range g.Params {
					if q == p && found < 0 {
						found = i
					}
				}
				return false
			}
			return true
		})
		return found
	}
	for _, c := range callInstrs(wf) {
		callee := c.Common().StaticCallee()
		if callee == nil {
			continue
		}
		if shortName(callee) == "par2.writeNextPacket" && len(c.Common().Args) == 4 {
			out = append(out, packetEmission{c, c.Common().Args[2], c.Common().Args[3]})
			continue
		}
		if callee == wf || !inRegion(wf, callee) {
			continue
		}
		// wrapper: exactly one writeNextPacket call, which dominates every success return
		var inner ssa.CallInstruction
		k := 0
		for _, ic := range callInstrs(callee) {
			if staticCalleeShort(ic.Common()) == "par2.writeNextPacket" && len(ic.Common().Args) == 4 {
				inner = ic
				k++
			}
		}
		if k != 1 {
			continue
		}
		ti, bi := -1, -1
		if p, ok := stripAllConv(inner.Common().Args[2]).(*ssa.Parameter); ok {
			for i, q := range callee.Params {
				if q == p {
					ti = i
				}
			}
		}
		bi = paramIdx(callee, inner.Common().Args[3])
		if ti < 0 || bi < 0 || ti >= len(c.Common().Args) || bi >= len(c.Common().Args) {
			continue
		}
		out = append(out, packetEmission{c, c.Common().Args[ti], c.Common().Args[bi]})
	}
	return out
}

// streamedHashParams: fn feeds an md5.New() hash with Write calls that are totally ordered by
// dominance (straight-line code), each of a parameter (or a slice of / encoding of one), and takes
// Sum afterwards. Returns the parameter indices in write order.
func streamedHashParams(fn *ssa.Function) ([]int, string, bool) {
	var h *ssa.Call
	for _, c := range callInstrs(fn) {
		if f := c.Common().StaticCallee(); f != nil && f.String() == "crypto/md5.New" {
			if h != nil {
				return nil, "", false
			}
			h, _ = c.(*ssa.Call)
		}
	}
	if h == nil {
		return nil, "", false
	}
	var writes []*ssa.Call
	var sum *ssa.Call
	for _, ref := range referrersOf(h) {
		c, ok := ref.(*ssa.Call)
		if !ok || !c.Call.IsInvoke() || c.Call.Value != ssa.Value(h) {
			return nil, "", false // the hash escapes
		}
		switch c.Call.Method.Name() {
		case "Write":
			writes = append(writes, c)
		case "Sum":
			if sum != nil {
				return nil, "", false
			}
			sum = c
		default:
			return nil, "", false
		}
	}
	if sum == nil || len(writes) == 0 {
		return nil, "", false
	}
	// order by dominance
	for i := 0; i < len(writes); i++ {
		for j := i + 1; j < len(writes); j++ {
			if instrDominates(writes[j], writes[i]) {
				writes[i], writes[j] = writes[j], writes[i]
			}
		}
	}
	for i := 0; i+1 < len(writes); i++ {
		if !instrDominates(writes[i], writes[i+1]) {
			return nil, "", false
		}
	}
	if !instrDominates(writes[len(writes)-1], sum) {
		return nil, "", false
	}
	var order []int
	for _, wc := range writes {
		// reuse the append-chain reader on a synthetic one-element chain: the written value's source
		o, ok := appendChainSource(fn, wc.Call.Args[0])
		if !ok {
			return nil, "", false
		}
		order = append(order, o)
	}
	pos := fn.Prog.Fset.Position(sum.Pos())
	return order, fmt.Sprintf("%s:%d", pos.Filename[strings.LastIndex(pos.Filename, "/par")+1:], pos.Line), true
}
