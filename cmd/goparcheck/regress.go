package main

import (
	"fmt"
	"os"
	"os/exec"
	"path/filepath"
	"strings"
)

const pinnedCommit = "f90d673"

// regressPinned (thorough tier): the repaired defects of this property must still be
// reported by their rule on an export of the pinned commit. This measures the
// checker, not the tree: a rule that has gone blind to the defect it was written
// for fails the check as SELFTEST; if the pinned commit cannot be exported (no
// git history) the step is skipped and said so in the evidence.
func regressPinned(r *Report, repo string, p *propertySpec, kf *knownFindings) {
	var want []fixedFinding
	for _, f := range kf.Fixed {
		if f.Property == p.ID {
			want = append(want, f)
		}
	}
	if len(want) == 0 {
		return
	}
	tmp, err := os.MkdirTemp("", "goparcheck-pinned-")
	if err != nil {
		r.note("pinned-tree regression skipped: " + err.Error())
		return
	}
	defer os.RemoveAll(tmp)
	cmd := exec.Command("sh", "-c", fmt.Sprintf("git -C %q archive %s | tar -x -C %q", repo, pinnedCommit, tmp))
	if out, err := cmd.CombinedOutput(); err != nil {
		r.note("pinned-tree regression skipped: cannot export " + pinnedCommit + ": " + strings.TrimSpace(string(out)))
		return
	}
	if _, err := os.Stat(filepath.Join(tmp, "go.mod")); err != nil {
		r.note("pinned-tree regression skipped: export is empty")
		return
	}
	w, err := loadWorld(tmp, "amd64", p.NeedCG)
	if err != nil {
		r.note("pinned-tree regression skipped: " + err.Error())
		return
	}
	pr := newReport()
	pr.curConfig = "amd64@" + pinnedCommit
	runGuarded(pr, p.ID+":pinned", func() { p.Run(w, pr, "quick") })
	reproduced := 0
	for _, f := range want {
		ruleName := f.Rule
		if i := strings.Index(ruleName, ":"); i > 0 {
			ruleName = ruleName[:i]
		}
		found := ""
		for _, o := range pr.obls {
			if o.st == Violated && strings.HasPrefix(o.Rule, ruleName) {
				found = o.Key
				break
			}
		}
		key := "pinned:" + f.Commit + ":" + f.Rule
		if found != "" {
			reproduced++
			r.add("SELFTEST", key, Discharged, pinnedCommit, "the repaired defect is still reported on the pinned tree ("+found+")")
		} else {
			r.add("SELFTEST", key, Undecided, pinnedCommit, "rule "+f.Rule+" no longer reports the defect it was repaired for on the pinned tree ("+f.What+"): the rule has gone blind")
		}
	}
	r.stat("pinned_defects_reproduced", reproduced)
	r.stat("pinned_defects_expected", len(want))
}
